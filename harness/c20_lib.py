"""C20 helpers: nested operand generator, option lattice, recording user function, canonicalisers, reference oracle."""
from __future__ import annotations

import itertools

import torch

from common import Infra, Raw, atom, err_class

LEAF_KEYS = ["a", "b", "c", "d"]
NODE_KEYS = ["n", "m", "k"]
FRESH0 = 100000


# --------------------------------------------------------------------------- plain-Python structures
# a structure is a dict: key -> int (leaf id) | dict (nested); insertion order matters

def gen_struct(rng, depth, ids, allow_empty=True):
    d = {}
    nleaf = rng.randint(0 if allow_empty and depth > 0 else 1, 3)
    nnode = rng.randint(0, 2) if depth < 2 else 0
    keys = rng.sample(LEAF_KEYS, nleaf) + rng.sample(NODE_KEYS, nnode)
    rng.shuffle(keys)
    for k in keys:
        if k in LEAF_KEYS:
            d[k] = next(ids)
        else:
            d[k] = gen_struct(rng, depth + 1, ids)
    return d


def permute(rng, d):
    ks = list(d)
    rng.shuffle(ks)
    return {k: (permute(rng, d[k]) if isinstance(d[k], dict) else d[k]) for k in ks}


def relabel(d, ids):
    return {k: (relabel(v, ids) if isinstance(v, dict) else next(ids)) for k, v in d.items()}


def derive_other(rng, d, ids, mode):
    """an operand with the structure of `d`: permuted; some entries missing (leaves or whole nodes); extras"""
    o = relabel(permute(rng, d), ids)
    if mode in ("missing", "both"):
        def drop(x, depth=0):
            for k in list(x):
                if rng.random() < 0.3:
                    del x[k]
                elif isinstance(x[k], dict):
                    drop(x[k], depth + 1)
        drop(o)
    if mode in ("extra", "both"):
        def add(x):
            if rng.random() < 0.6:
                x["z" + str(rng.randint(0, 9))] = next(ids)
            for v in x.values():
                if isinstance(v, dict) and rng.random() < 0.5:
                    add(v)
        add(o)
    return o


def leaf_paths(d, pre=()):
    out = []
    for k, v in d.items():
        if isinstance(v, dict):
            out += leaf_paths(v, pre + (k,))
        else:
            out.append(pre + (k,))
    return out


def first_leaf(d):
    for v in d.values():
        if isinstance(v, dict):
            r = first_leaf(v)
            if r is not None:
                return r
        else:
            return v
    return None


def flat_ids(d):
    out = []
    for v in d.values():
        out += flat_ids(v) if isinstance(v, dict) else [v]
    return out


# --------------------------------------------------------------------------- tensordict construction

def build(d, batch, names=None, device=None, feat_of=None):
    from tensordict import TensorDict
    td = TensorDict({}, batch_size=list(batch), names=names, device=device)
    for k, v in d.items():
        if isinstance(v, dict):
            td[k] = build(v, batch, names=names, device=device, feat_of=feat_of)
        else:
            shape = tuple(batch) + ((2,) if (feat_of and feat_of(v)) else ())
            td[k] = torch.full(shape, v, dtype=torch.int64)
    return td


# --------------------------------------------------------------------------- recording user function

class Recorder:
    """fn(key?, item, *others): returns a fresh tensor and records what it was called with (in submission-free form:
    the record is keyed by the fresh id stored in the returned tensor)"""

    def __init__(self, drop, named):
        self.drop = set(drop)
        self.named = named
        self.calls = {}
        self.next = FRESH0
        import threading
        self.lock = threading.Lock()

    def descr(self, x):
        from tensordict import TensorDictBase
        if x is None:
            return "dflt"
        if isinstance(x, TensorDictBase):
            return ["td"] + [self.leaf_descr(v) for v in x.values(True, True)]
        if isinstance(x, torch.Tensor):
            return self.leaf_descr(x)
        return ["py", type(x).__name__]

    def leaf_descr(self, t):
        v = int(t.reshape(-1)[0]) if t.numel() else -1
        if v >= FRESH0:
            return self.calls.get(v, ["fresh", v])
        return ["l", v]

    def drop_id(self, item):
        from tensordict import TensorDictBase
        if isinstance(item, TensorDictBase):
            for v in item.values(True, True):
                return int(v.reshape(-1)[0])
            return None
        return int(item.reshape(-1)[0]) if item.numel() else None

    def __call__(self, *args):
        if self.named:
            key, item, others = args[0], args[1], args[2:]
            key = [key] if isinstance(key, str) else list(key)
        else:
            key, item, others = [], args[0], args[1:]
        if self.drop_id(item) in self.drop:
            return None
        with self.lock:
            fid = self.next
            self.next += 1
            self.calls[fid] = ["ap", key, self.descr(item), [self.descr(o) for o in others]]
        from tensordict import TensorDictBase
        if isinstance(item, TensorDictBase):
            return torch.full(tuple(item.batch_size), fid, dtype=torch.int64)
        return torch.full_like(item, fid)


# --------------------------------------------------------------------------- canonical forms

def meta_of(td):
    names = list(td.names) if td._has_names() else None
    if names is not None and all(n is None for n in names):
        names = None
    dev = None if td.device is None else td.device.type
    return ["m", list(td.batch_size), names if names is not None else "none", dev if dev is not None else "none", bool(td.is_locked)]


def canon(td, rec=None):
    """tensordict -> nested list mirroring Drive/C20.treeToSexp"""
    from tensordict import TensorDictBase
    if td is None:
        return ["none"]
    out = ["n", meta_of(td)]
    for k in td.keys():
        v = td._get_str(k, None)
        if isinstance(v, TensorDictBase):
            out.append([k, canon(v, rec)])
        elif isinstance(v, torch.Tensor):
            out.append([k, rec.leaf_descr(v) if rec is not None else ["l", int(v.reshape(-1)[0])]])
        else:
            out.append([k, ["py", type(v).__name__]])
    return out


def to_sx(x):
    """nested list -> S-expression text (atoms must be plain words)"""
    if isinstance(x, (list, tuple)):
        return "(" + " ".join(to_sx(i) for i in x) + ")"
    if x is None:
        return "none"
    if isinstance(x, bool):
        return "true" if x else "false"
    return str(x)


def norm(x):
    """parsed driver answer / python canon -> comparable nested lists of str/int"""
    if isinstance(x, (list, tuple)):
        return [norm(i) for i in x]
    if isinstance(x, bool):
        return "true" if x else "false"
    if x is None:
        return "none"
    return x


# --------------------------------------------------------------------------- reference oracle (nested dicts)

class KeyMissing(Exception):
    pass


def ref_apply(d, others, opts, drop, pre=()):
    """the 20-line reference: returns a nested dict path -> descriptor (None results dropped), raising KeyMissing when an
    operand lacks an entry and no default was given. Leaves-only mode (call_on_nested=False, default is_leaf)."""
    res = {}
    for k, v in d.items():
        if isinstance(v, dict) and opts.get("nested_as_leaf"):
            # call_on_nested / is_leaf accepting tensordicts: the function is called on the first-level entry itself
            args = []
            for o in others:
                if isinstance(o, dict) and k in o:
                    x = o[k]
                    args.append(["td"] + [["l", i] for i in flat_ids(x)] if isinstance(x, dict) else ["l", x])
                elif opts["default"]:
                    args.append("dflt")
                else:
                    raise KeyMissing(pre + (k,))
            if first_leaf(v) in drop:
                continue
            key = [] if not opts["named"] else (list(pre) + [k] if opts["nested_keys"] else [k])
            res[k] = ["ap", key, ["td"] + [["l", i] for i in flat_ids(v)], args]
            continue
        if isinstance(v, dict):
            subs = []
            for o in others:
                if isinstance(o, dict) and k in o:
                    subs.append(o[k])
                elif opts["default"]:
                    subs.append({})
                else:
                    raise KeyMissing(pre + (k,))
            r = ref_apply(v, subs, opts, drop, pre + (k,))
            res[k] = r
        else:
            args = []
            for o in others:
                if isinstance(o, dict) and k in o:
                    x = o[k]
                    args.append(["td"] + [["l", i] for i in flat_ids(x)] if isinstance(x, dict) else ["l", x])
                elif opts["default"]:
                    args.append("dflt")
                else:
                    raise KeyMissing(pre + (k,))
            if v in drop:
                continue
            key = [] if not opts["named"] else (list(pre) + [k] if opts["nested_keys"] else [k])
            res[k] = ["ap", key, ["l", v], args]
    return res


def leaves_of_canon(c, pre=()):
    """canonical tree -> {path: descriptor}, plus the set of node paths"""
    leaves, nodes = {}, set()
    if c[0] != "n":
        return leaves, nodes
    nodes.add(pre)
    for k, v in c[2:]:
        if isinstance(v, list) and v and v[0] == "n":
            l2, n2 = leaves_of_canon(v, pre + (k,))
            leaves.update(l2)
            nodes |= n2
        else:
            leaves[pre + (k,)] = v
    return leaves, nodes


def flatten_ref(r, pre=()):
    out = {}
    for k, v in r.items():
        if isinstance(v, dict):
            out.update(flatten_ref(v, pre + (k,)))
        else:
            out[pre + (k,)] = v
    return out
