"""C03 — the streams of check_C03.py (see its docstring)."""
from __future__ import annotations

import itertools
import json
from pathlib import Path

import torch

import c03_gen as G
from common import VERIF, Infra, err_class, parse_sx, sx, time_limit

TL = 60.0  # generous: a slow box must end in exit 0 or 2, never in a VIOLATION


def ask_chunked(drv, reqs, budget=24000):
    """common.Driver.ask_many writes up to 2000 requests before reading: with long answers both pipe
    buffers fill and the two processes block on each other. Send batches that fit a pipe buffer."""
    out, cur, size = [], [], 0
    for r in reqs:
        if cur and size + len(r) + 1 > budget or len(cur) >= 60:
            out += drv.ask_many(cur)
            cur, size = [], 0
        cur.append(r)
        size += len(r) + 1
    if cur:
        out += drv.ask_many(cur)
    return out


# ----------------------------------------------------------------------------- small helpers
def shape_sx(tag, shape):
    return "(" + " ".join([tag] + [str(int(s)) for s in shape]) + ")"


def prov(shape):
    """provenance tensor: element = its own row-major offset"""
    return torch.arange(G.numel(shape), dtype=torch.long).reshape(list(shape))


def shares(a: torch.Tensor, b: torch.Tensor) -> bool:
    return a.untyped_storage().data_ptr() == b.untyped_storage().data_ptr()


def leaf_answer(src: torch.Tensor, res: torch.Tensor):
    bit = "na" if src.numel() == 0 else ("view" if shares(src, res) else "copy")
    return ["leaf", ["shape"] + list(res.shape), ["src"] + res.reshape(-1).tolist(), bit]


def fix_model_leaf(ans, src_numel):
    """the model cannot say anything about aliasing of an empty source"""
    if isinstance(ans, list) and len(ans) == 4 and ans[0] == "leaf" and src_numel == 0:
        return ans[:3] + ["na"]
    return ans


def outcome(ans):
    return ans[0] if isinstance(ans, list) else ans


def binary(ans):
    return "err" if outcome(ans) == "err" else "ok"


# ----------------------------------------------------------------------------- spec vs torch
def spec_cases(run):
    rng = run.rng
    cases = []
    n = 9000 if run.tier == "quick" else 60000
    for _ in range(n):
        dims = G.gen_bs(rng, max_rank=4 if rng.random() < 0.1 else 3)
        cases.append((dims, G.gen_index_adv(rng, dims) if rng.random() < 0.3 else G.gen_index(rng, dims)))
    # small exhaustive block: every shape of rank<=2 over {0,1,2,3} (quick) / rank<=3 (thorough), tuples of length <= 2 / 3 over the alphabet
    max_rank, max_len = (2, 2) if run.tier == "quick" else (3, 3)
    for dims in G.all_shapes(max_rank, (0, 1, 2, 3)):
        al = G.alphabet(dims)
        for it in al:
            cases.append((dims, ("single", it)))
        for L in range(0, max_len + 1):
            if run.tier == "quick" and L == 2 and len(dims) == 2 and 0 in dims:
                continue
            for tup in itertools.product(al, repeat=L):
                if sum(1 for t in tup if t == G.ELL) > 1:
                    continue
                cases.append((dims, ("tuple", list(tup))))
    if run.tier == "thorough":
        # tuples of length rank + 2 on two rank-2 shapes (every placement of two Nones / an Ellipsis around two consumed dims, overruns)
        for dims in ([2, 3], [3, 2]):
            al = G.alphabet(dims)
            for tup in itertools.product(al, repeat=4):
                if sum(1 for t in tup if t == G.ELL) > 1:
                    continue
                cases.append((dims, ("tuple", list(tup))))
    return cases


def torch_answer(dims, idx):
    x = prov(dims)
    try:
        with time_limit(TL):
            r = x[G.index_py(idx)]
    except TimeoutError:
        raise
    except Exception as e:
        return ["err", err_class(e)]
    return ["ok", leaf_answer(x, r)]


def spec_vs_torch(run, drv):
    cases = [c for c in spec_cases(run) if sum(1 for t in G.items_of(c[1]) if t == G.ELL) <= 1]
    reqs = [f"(c03.torch {shape_sx('shape', d)} {G.index_sx(i)})" for d, i in cases]
    answers = ask_chunked(drv, reqs)
    agree_cls = 0
    for (dims, idx), a in zip(cases, answers):
        m = parse_sx(a)
        t = torch_answer(dims, idx)
        if outcome(m) == "ok":
            m = ["ok", fix_model_leaf(m[1], G.numel(dims))]
        run.case(("spec", tuple(dims), G.index_sx(idx)), nontrivial=True)
        run.count("spec.stage", G.stage_of(idx))
        run.count("spec.outcome", outcome(t) if outcome(t) == "ok" else "err-" + t[1])
        if outcome(t) == "err" and outcome(m) == "err":
            agree_cls += (t[1] == m[1])
            run.corr("spec_vs_torch", None, "err", "err")
        else:
            run.corr("spec_vs_torch", {"dims": dims, "idx": G.index_json(idx)}, t, m)
    run.count("spec.errclass_agree", "same-class", agree_cls)
    run.sample({"stream": "spec_vs_torch", "dims": [2, 3, 4], "idx": "(:, [0,1], None, [0,1])",
                "model": drv.ask("(c03.torch (shape 2 3 4) (tuple (slice none none none) (list 0 1) none (list 0 1)))")})


# ----------------------------------------------------------------------------- helpers (pure functions)
def ix_from_py(o):
    """python object (as returned by convert_ellipsis_to_idx) -> item"""
    if o is None:
        return G.NONE
    if o is Ellipsis:
        return G.ELL
    if isinstance(o, bool):
        raise ValueError
    if isinstance(o, int):
        return ("int", o)
    if isinstance(o, slice):
        return ("slice", o.start, o.stop, o.step)
    if isinstance(o, list):
        return ("list", list(o))
    if isinstance(o, range):
        return ("range", o.start, o.stop, o.step)
    if isinstance(o, torch.Tensor):
        if o.dtype == torch.bool:
            return ("mask", list(o.shape), [int(b) for b in o.reshape(-1).tolist()])
        return ("tensor", list(o.shape), o.reshape(-1).tolist())
    raise ValueError(type(o))


def canon_index_obj(o):
    if isinstance(o, tuple):
        return ["tuple"] + [parse_sx(G.item_sx(ix_from_py(x))) for x in o]
    return ["single", parse_sx(G.item_sx(ix_from_py(o)))]


def helpers(run, drv):
    import tensordict.utils as U
    rng = run.rng
    n = 6000 if run.tier == "quick" else 40000
    cases = []
    for _ in range(n):
        bs = G.gen_bs(rng)
        cases.append((bs, G.gen_index_adv(rng, bs) if rng.random() < 0.3 else G.gen_index(rng, bs, p_bad=0.1, p_overrun=0.15)))
    for bs in G.all_shapes(2, (0, 2, 3)):
        al = G.alphabet(bs)
        for L in range(0, 3):
            for tup in itertools.product(al, repeat=L):
                cases.append((bs, ("tuple", list(tup))))
        for it in al:
            cases.append((bs, ("single", it)))
    r1 = ask_chunked(drv, [f"(c03.ell {len(bs)} {G.index_sx(i)})" for bs, i in cases])
    r2 = ask_chunked(drv, [f"(c03.bs {shape_sx('bs', bs)} {G.index_sx(i)})" for bs, i in cases])
    for (bs, idx), a1, a2 in zip(cases, r1, r2):
        py = G.index_py(idx)
        run.case(("helper", tuple(bs), G.index_sx(idx)))
        # convert_ellipsis_to_idx
        try:
            with time_limit(TL):
                c = U.convert_ellipsis_to_idx(py, torch.Size(bs))
            impl = ["ok", canon_index_obj(c)]
        except TimeoutError:
            raise
        except Exception as e:
            impl = ["err", err_class(e)]
        m = parse_sx(a1)
        if outcome(impl) == "err" and outcome(m) == "err":
            impl, m = "err", "err"
        run.corr("ellipsis", {"bs": bs, "idx": G.index_json(idx)}, impl, m)
        # _getitem_batch_size (on the raw index: the helper is also called with unconverted indices by other code paths)
        try:
            with time_limit(TL):
                b = U._getitem_batch_size(torch.Size(bs), py)
            impl = ["ok"] + list(b)
        except TimeoutError:
            raise
        except Exception as e:
            impl = ["err", err_class(e)]
        m = parse_sx(a2)
        if outcome(impl) == "err" and outcome(m) == "err":
            impl, m = "err", "err"
        run.corr("batch_size", {"bs": bs, "idx": G.index_json(idx)}, impl, m)


# ----------------------------------------------------------------------------- tensordicts
def gen_td_spec(rng, bs):
    """(bs, names, leaf feature shapes, nested[(extra, feats)])"""
    feats = [[]]                      # one leaf of exactly the batch shape: makes the leaves as strict as torch on the batch shape
    for _ in range(rng.choice([0, 1, 1, 2])):
        feats.append([rng.choice([1, 2, 3]) for _ in range(rng.choice([1, 1, 2]))])
    rng.shuffle(feats)
    nested = []
    if rng.random() < 0.35:
        extra = [rng.choice([1, 2])] if rng.random() < 0.5 else []
        nested.append((extra, [[]] + ([[2]] if rng.random() < 0.5 else [])))
    names = None
    if bs and rng.random() < 0.4:
        pool = ["a", "b", "c", "d"]
        names = [pool[i] if rng.random() < 0.8 else None for i in range(len(bs))]
    return {"bs": list(bs), "names": names, "feats": feats, "nested": nested}


def build_td(spec):
    from tensordict import TensorDict
    bs = spec["bs"]
    src = {}
    for k, f in enumerate(spec["feats"]):
        src[f"l{k}"] = prov(bs + f)
    for j, (extra, feats) in enumerate(spec["nested"]):
        # (a named parent refuses a longer-batched child without names: give the child the parent's names)
        nn = None if spec["names"] is None else list(spec["names"]) + [None] * len(extra)
        src[f"n{j}"] = TensorDict({f"m{k}": prov(bs + extra + f) for k, f in enumerate(feats)}, batch_size=bs + extra, names=nn)
    td = TensorDict(src, batch_size=bs, names=spec["names"])
    return td


def td_sx(spec):
    nm = "none" if spec["names"] is None else "(names " + " ".join("none" if n is None else n for n in spec["names"]) + ")"
    leaves = "(leaves" + "".join(" " + shape_sx("f", f) for f in spec["feats"]) + ")"
    nested = "(nested" + "".join(f" ({shape_sx('e', e)} (" + " ".join(shape_sx("f", f) for f in fs) + "))" for e, fs in spec["nested"]) + ")"
    return f"{shape_sx('bs', spec['bs'])} {nm} {leaves} {nested}"


def names_answer(td):
    n = td.names
    if n is None or all(x is None for x in n):
        return "none"
    return ["names"] + ["none" if x is None else x for x in n]


def impl_get(spec, idx, as_numpy=False):
    td = build_td(spec)
    try:
        with time_limit(TL):
            r = td[G.index_py(idx, as_numpy)]
    except TimeoutError:
        raise
    except Exception as e:
        return ["err", err_class(e)], td, None
    if r is td:
        return ["self"], td, r
    leaves = ["leaves"] + [leaf_answer(td.get(f"l{k}"), r.get(f"l{k}")) for k in range(len(spec["feats"]))]
    nested = ["nested"]
    for j, (extra, feats) in enumerate(spec["nested"]):
        sub = r.get(f"n{j}")
        nested.append([["bs"] + list(sub.batch_size), [leaf_answer(td.get((f"n{j}", f"m{k}")), sub.get(f"m{k}")) for k in range(len(feats))]])
    return ["ok", ["bs"] + list(r.batch_size), names_answer(r), leaves, nested], td, r


def fix_model_get(m, spec):
    if outcome(m) != "ok":
        return m
    bs = spec["bs"]
    leaves = ["leaves"] + [fix_model_leaf(l, G.numel(bs + f)) for l, f in zip(m[3][1:], spec["feats"])]
    nested = ["nested"]
    for nd, (extra, feats) in zip(m[4][1:], spec["nested"]):
        nested.append([nd[0], [fix_model_leaf(l, G.numel(bs + extra + f)) for l, f in zip(nd[1], feats)]])
    return ["ok", m[1], m[2], leaves, nested]


def pad_for_leaf(idx, nfeat):
    """the same index, addressed to a leaf with `nfeat` trailing feature dims: an Ellipsis must not swallow them"""
    py = G.index_py(idx)
    if idx[0] == "tuple" and any(it == G.ELL for it in idx[1]):
        return tuple(py) + (slice(None),) * nfeat
    if idx[0] == "single" and idx[1] == G.ELL:
        return (Ellipsis,) + (slice(None),) * nfeat
    return py


def classify_accept(spec, idx):
    """fingerprint of an index that torch rejects on the batch shape but the tensordict accepts"""
    if G.specified(idx) > len(spec["bs"]):
        kinds = sorted({G.kind_of(it) for it in G.items_of(idx)})
        return "too-many-indices:" + "+".join(kinds)
    return "accepts-rejected:" + "+".join(sorted({G.kind_of(it) for it in G.items_of(idx)}))


def classify_reject(spec, idx):
    items = G.items_of(idx)
    if any(it == G.ELL for it in items) and any(it[0] == "mask" and len(it[1]) >= 2 for it in items):
        return "rejects-accepted:mask2d+ellipsis"
    return "rejects-accepted:" + "+".join(sorted({G.kind_of(it) for it in items}))


def oracle_read(run, spec, idx, impl, td, r, site="getitem", as_numpy=False):
    """the property on the real code: torch on a proxy of the batch shape, torch on each leaf
    (the torch reference always uses the tensor rendering of the index)"""
    case = {"mode": "read", "td": spec, "idx": idx, "idx_str": G.index_json(idx)}
    if as_numpy:
        case["numpy"] = True
    bs = spec["bs"]
    py = G.index_py(idx)
    try:
        proxy = torch.zeros(bs)[py]
        ref = ["ok", list(proxy.shape)]
    except Exception as e:
        ref = ["err", err_class(e)]
    if ref[0] == "err":
        if outcome(impl) != "err":
            got = "self" if outcome(impl) == "self" else f"batch_size {impl[1][1:]}"
            run.oracle_fail(site, case, f"torch rejects this index on a tensor of the batch shape ({ref[1]}); the tensordict accepted it ({got})", classify_accept(spec, idx))
        else:
            run.oracle_ok(site)
        return
    if outcome(impl) == "err":
        run.oracle_fail(site, case, f"torch accepts this index on the batch shape (result {ref[1]}); the tensordict raised {impl[1]}", classify_reject(spec, idx))
        return
    res = td if r is td else r
    if list(res.batch_size) != ref[1]:
        run.oracle_fail(site, case, f"batch_size {list(res.batch_size)} but torch gives {ref[1]}", "batch-size:" + G.stage_of(idx))
        return
    probs = []
    keys = [((f"l{k}",), f) for k, f in enumerate(spec["feats"])]
    for j, (extra, feats) in enumerate(spec["nested"]):
        keys += [((f"n{j}", f"m{k}"), extra + f) for k, f in enumerate(feats)]
    for key, f in keys:
        src = td.get(key)
        want = src[pad_for_leaf(idx, len(f))]
        got = res.get(key)
        if got.shape != want.shape or not torch.equal(got, want):
            probs.append(f"{key}: shape {list(got.shape)} values {got.reshape(-1).tolist()[:12]} expected shape {list(want.shape)} values {want.reshape(-1).tolist()[:12]}")
        elif src.numel() > 0 and shares(src, got) != shares(src, want):
            probs.append(f"{key}: shares memory with the source = {shares(src, got)}, torch's result: {shares(src, want)}")
    for j, (extra, feats) in enumerate(spec["nested"]):
        sub = res.get(f"n{j}")
        if list(sub.batch_size) != ref[1] + extra:
            probs.append(f"nested n{j}: batch_size {list(sub.batch_size)} expected {ref[1] + extra}")
    if probs:
        run.oracle_fail(site, case, "; ".join(probs)[:600], "values:" + G.stage_of(idx))
    else:
        run.oracle_ok(site)


def getitem_cases(run):
    rng = run.rng
    cases = []
    n = 8000 if run.tier == "quick" else 50000
    for _ in range(n):
        bs = G.gen_bs(rng)
        cases.append((gen_td_spec(rng, bs), G.gen_index_adv(rng, bs) if rng.random() < 0.3 else G.gen_index(rng, bs)))
    # exhaustive block on a fixed container
    max_rank, max_len = (2, 2) if run.tier == "quick" else (3, 3)
    for bs in G.all_shapes(max_rank, (0, 2, 3) if run.tier == "quick" else (0, 1, 2, 3)):
        spec = {"bs": bs, "names": ["a", "b", "c"][:len(bs)] if bs else None, "feats": [[], [2]], "nested": [([2], [[]])] if len(bs) < 3 else []}
        al = G.alphabet(bs)
        for it in al:
            cases.append((spec, ("single", it)))
        for L in range(0, max_len + 1):
            for tup in itertools.product(al, repeat=L):
                if sum(1 for t in tup if t == G.ELL) > 1:
                    continue
                cases.append((spec, ("tuple", list(tup))))
    if run.tier == "thorough":
        bs = [2, 3]
        spec = {"bs": bs, "names": ["a", "b"], "feats": [[], [2]], "nested": [([2], [[]])]}
        al = G.alphabet(bs)
        for tup in itertools.product(al, repeat=4):
            if sum(1 for t in tup if t == G.ELL) > 1:
                continue
            cases.append((spec, ("tuple", list(tup))))
    return cases


def getitem(run, drv):
    cases = [c for c in getitem_cases(run) if sum(1 for t in G.items_of(c[1]) if t == G.ELL) <= 1]
    answers = ask_chunked(drv, [f"(c03.get {td_sx(spec)} {G.index_sx(idx)})" for spec, idx in cases])
    for (spec, idx), a in zip(cases, answers):
        m = fix_model_get(parse_sx(a), spec)
        impl, td, r = impl_get(spec, idx)
        run.case(("get", json.dumps(spec, sort_keys=True), G.index_sx(idx)))
        run.count("get.stage", G.stage_of(idx))
        run.count("get.form", idx[0])
        run.count("get.rank", len(spec["bs"]))
        run.count("get.outcome", outcome(impl) if outcome(impl) != "err" else "err-" + impl[1])
        for it in G.items_of(idx):
            run.count("get.item_kind", G.kind_of(it))
        if outcome(impl) == "ok" and isinstance(impl[2], list) and len(impl[2]) - 1 != len(impl[1]) - 1:
            # observation, not judged by C03 (the property text does not speak of names): incoherent number of dim names
            run.count("get.names_length_vs_batch_dims", "differs:" + G.stage_of(idx))
        if outcome(impl) == "err" and outcome(m) == "err":
            ok = run.corr("getitem", None, "err", "err")
        else:
            ok = run.corr("getitem", {"td": spec, "idx": G.index_json(idx), "idx_raw": idx}, impl, m)
        oracle_read(run, spec, idx, impl, td, r)
    run.sample({"stream": "getitem", "td": {"bs": [2, 3], "names": ["a", "b"], "feats": [[2], []]}, "idx": "(..., 0)",
                "model": drv.ask("(c03.get (bs 2 3) (names a b) (leaves (f 2) (f)) (nested) (tuple ell (int 0)))")})


# ----------------------------------------------------------------------------- placeholders filled in below
def setitem(run, drv):
    import c03_write
    c03_write.setitem(run, drv)


def extended(run, drv):
    import c03_write
    c03_write.setcoll(run, drv)
    c03_write.setcoll_nested(run, drv)
    c03_write.extended(run, drv)


def witnesses(run, drv):
    import c03_write
    c03_write.witnesses(run, drv)


def corpus(run, drv):
    d = VERIF / "corpus" / "C03"
    if not d.exists():
        return
    for p in sorted(d.glob("*.json")):
        replay(run, drv, p, site="corpus")


def replay(run, drv, path, site="replay"):
    data = json.loads(Path(path).read_text())
    cases = data.get("cases") or [f["case"] for f in data.get("failures", [])]
    import c03_write

    def tup(idx):
        if idx[0] == "single":
            return ("single", tuple(idx[1]) if not isinstance(idx[1], tuple) else idx[1])
        return ("tuple", [tuple(i) for i in idx[1]])
    for c in cases:
        if not isinstance(c, dict) or "idx" not in c:
            continue
        idx = tup(c["idx"])
        spec = c["td"]
        spec["nested"] = [tuple(n) for n in spec.get("nested", [])]
        if c.get("mode") == "write":
            c03_write.oracle_write(run, spec, idx, c["value"], site=site)
        elif c.get("mode") in (None, "read"):
            impl, td, r = impl_get(spec, idx, as_numpy=bool(c.get("numpy")))
            oracle_read(run, spec, idx, impl, td, r, site=site, as_numpy=bool(c.get("numpy")))
        run.case(("replay", json.dumps(c, sort_keys=True, default=str)))
