"""C09 streams: correspondence (model vs implementation) and the per-key torch oracle."""
from __future__ import annotations

import inspect
import itertools
import warnings

import torch

import c09_lib as L
from common import Infra, err_class, parse_sx, sx, time_limit


warnings.filterwarnings("ignore", message=".*degrees of freedom.*")


class Ctx:
    def __init__(self, run, drv):
        self.run, self.drv, self.rng = run, drv, run.rng
        self.quick = run.tier == "quick"
        self.table = L.foreach_table()
        self.pending = []     # (request, callback) pairs, flushed in batches through the driver

    def n(self, quick, thorough):
        return quick if self.quick else thorough


# =========================================================================== shapes: expand_as_right, _maybe_broadcast_other

def _shapes(max_rank, dims):
    out = []
    for r in range(max_rank + 1):
        out += [list(s) for s in itertools.product(dims, repeat=r)]
    return out


def stream_expand_as_right(ctx: Ctx):
    run, drv = ctx.run, ctx.drv
    from tensordict import TensorDict
    from tensordict.utils import expand_as_right
    dims = (1, 2, 3)
    ts = _shapes(2, dims)
    dests = _shapes(3, dims)
    reqs, cases = [], []
    for t in ts:
        for d in dests:
            reqs.append(sx("c09.expand_as_right", t, d))
            cases.append((t, d))
    answers = drv.ask_many(reqs)
    for (t, d), ans in zip(cases, answers):
        src = torch.arange(max(1, int(torch.tensor(t).prod())) if t else 1).reshape(t)
        try:
            r = expand_as_right(src, torch.empty(d))
            impl = ["ok", ["idx"] + r.reshape(-1).tolist()] if list(r.shape) == d else ["badshape", list(r.shape)]
        except Exception as e:  # noqa: BLE001
            impl = ["err", err_class(e)]
        run.case(("ear", tuple(t), tuple(d)), nontrivial=len(t) > 0 and len(d) > len(t))
        run.count("expand_as_right.rank", f"{len(t)}->{len(d)}")
        run.corr("expand_as_right", [t, d], impl, parse_sx(ans))
        # oracle: left alignment, i.e. torch broadcasting after padding the operand with trailing 1s
        try:
            exp = src.reshape(list(t) + [1] * (len(d) - len(t))).expand(d).reshape(-1).tolist() if len(d) >= len(t) else None
        except Exception:  # noqa: BLE001
            exp = None
        if exp is None:
            if impl[0] == "ok":
                run.oracle_fail("expand_as_right", [t, d], "accepted an operand that cannot be aligned from the left", "ear:accepts")
            else:
                run.oracle_ok("expand_as_right")
        elif impl[0] != "ok":
            # the code is stricter than torch only for dims that are neither equal nor 1: those cannot broadcast either
            run.oracle_fail("expand_as_right", [t, d], f"rejected a left-broadcastable operand: {impl}", "ear:rejects")
        elif impl[1][1:] != exp:
            run.oracle_fail("expand_as_right", [t, d], "values are not the left-aligned broadcast", "ear:values")
        else:
            run.oracle_ok("expand_as_right")
    # composite: batch x operand shape x feature shape through `td + tensor`
    batches = _shapes(2, dims)
    oshapes = _shapes(3, dims) if not ctx.quick else _shapes(2, dims) + [[2, 1, 3], [3, 2, 3], [1, 2, 3], [2, 2, 1]]
    feats = [[], [2]]
    reqs, cases = [], []
    for b in batches:
        for o in oshapes:
            if not o:
                continue
            for f in feats:
                reqs.append(sx("c09.bcast", b, o, f))
                cases.append((b, o, f))
    answers = drv.ask_many(reqs)
    for (b, o, f), ans in zip(cases, answers):
        numel = 1
        for s in o:
            numel *= s
        other = torch.arange(numel).reshape(o)
        td = TensorDict({"x": torch.zeros(b + f, dtype=torch.int64)}, batch_size=b)
        try:
            with time_limit(180):
                r = td + other
            impl = ["ok", ["batch"] + list(r.batch_size), ["idx"] + r["x"].reshape(-1).tolist()]
        except TimeoutError as e:
            raise Infra(f"implementation call timed out: {e}")
        except Exception as e:  # noqa: BLE001
            impl = ["err", err_class(e)]
        run.case(("bcast", tuple(b), tuple(o), tuple(f)), nontrivial=True)
        run.count("bcast.kind", "same" if o == b else ("more_dims" if len(o) > len(b) else "fewer_or_ones"))
        run.corr("maybe_broadcast_other", [b, o, f], impl, parse_sx(ans))
        try:
            bs = list(torch.broadcast_shapes(tuple(b), tuple(o)))
            exp = (torch.zeros(bs + f, dtype=torch.int64) + other.expand(bs).reshape(bs + [1] * len(f))).reshape(-1).tolist()
        except Exception:  # noqa: BLE001
            bs, exp = None, None
        if exp is None:
            run.oracle_ok("tensor_broadcast") if impl[0] == "err" else run.oracle_fail(
                "tensor_broadcast", [b, o, f], "accepted a tensor that does not broadcast against the batch dims", "bcast:accepts")
        elif impl[0] != "ok":
            run.oracle_fail("tensor_broadcast", [b, o, f], f"raised {impl} for a tensor that broadcasts against the batch dims", "bcast:rejects")
        elif impl[1][1:] != bs or impl[2][1:] != exp:
            run.oracle_fail("tensor_broadcast", [b, o, f], f"batch {impl[1][1:]} (expected {bs}) or values differ from left broadcasting", "bcast:values")
        else:
            run.oracle_ok("tensor_broadcast")
    run.sample({"stream": "maybe_broadcast_other", "case": [[2, 3], [3], [2]], "model": drv.ask(sx("c09.bcast", [2, 3], [3], [2]))})


# =========================================================================== operand generation shared by the pairing streams

BATCHES = [(2, 3), (2, 3), (3,), (2, 1), ()]


def gen_self(ctx, kind, min_leaves=1):
    rng = ctx.rng
    batch = rng.choice(BATCHES)
    k = rng.randint(min_leaves, 5)
    paths = rng.sample(L.KEY_POOL, k)
    order = list(paths)
    rng.shuffle(order)
    leaves = L.gen_leaves(rng, paths, batch, kind)
    return batch, order, leaves


def gen_other_td(ctx, self_paths, batch, kind, mode):
    """operand tensordict: same keys / missing / extra / both, leaves inserted in an independently shuffled order"""
    rng = ctx.rng
    paths = list(self_paths)
    if mode in ("td_missing", "td_both") and len(paths) >= 1:
        drop = rng.sample(paths, rng.randint(1, max(1, len(paths) // 2)))
        paths = [p for p in paths if p not in drop]
    if mode in ("td_extra", "td_both"):
        paths += rng.sample(L.EXTRA_POOL, rng.randint(1, 2))
    if mode == "td_empty":
        paths = []
    order = list(paths)
    rng.shuffle(order)
    leaves = L.gen_leaves(rng, paths, batch, kind)
    return order, leaves


def gen_tensor_operand(ctx, batch, kind, mode):
    rng = ctx.rng
    if mode == "t0":
        return L.gen_vals(rng, (), kind)
    if mode == "t_batch":
        return L.gen_vals(rng, tuple(batch), kind)
    # broadcastable against the batch dims
    cands = []
    b = list(batch)
    for i in range(len(b)):
        s = list(b)
        s[i] = 1
        cands.append(s)
    if len(b) >= 2:
        cands.append(b[1:])            # fewer dims (right aligned inside the batch dims)
        cands.append([1] * len(b))
    cands.append([2] + b)              # one more leading dim: self is expanded
    cands = [c for c in cands if c != b and len(c) > 0]
    if not cands:
        return L.gen_vals(rng, tuple(batch), kind)
    return L.gen_vals(rng, tuple(rng.choice(cands)), kind)


def scalar_for(ctx, kind):
    rng = ctx.rng
    if kind == "bool":
        return rng.random() < 0.5
    if kind in ("int", "smallint", "posint"):
        return rng.randint(1, 3)
    if kind == "pow2":
        return float(2 ** rng.randint(-1, 2))
    return float(rng.randint(-3, 3))


def leaf_dict(td):
    return L.td_leaves(td)


def canon_result(kind, leaves=None, bs=None, err=None):
    if kind == "err":
        return ["err", err]
    return ["ok", ["bs"] + list(bs), L.canon_kv(leaves)]


def bcast_env(ctx, batch, tensor, self_leaves, inplace=False):
    """what the model says a tensor operand of ndim>0 becomes for every leaf (through c09.bcast / c09.bcast_inplace)"""
    out_l, out_s = {}, {}
    bs = None
    flat = tensor.reshape(-1)
    for p, leaf in self_leaves.items():
        feat = list(L.FEAT[p])
        a = parse_sx(ctx.drv.ask(sx("c09.bcast_inplace" if inplace else "c09.bcast", list(batch), list(tensor.shape), feat)))
        if a[0] == "err":
            return ("err", a[1])
        bs = a[1][1:]
        idx = torch.tensor(a[2][1:], dtype=torch.long)
        out_s[p] = flat[idx].reshape(bs + feat)
        out_l[p] = leaf.expand(bs + feat)
    return ("ok", bs, out_l, out_s)


def oracle_tensor_operand(batch, tensor, leaf, feat):
    bs = list(torch.broadcast_shapes(tuple(batch), tuple(tensor.shape)))
    return bs, leaf.expand(bs + list(feat)), tensor.expand(bs).reshape(bs + [1] * len(feat))


# =========================================================================== binary arithmetic / logical ops and operators

def _binary_ops(ctx):
    """(name, value kind for self, kind for other, accepts default, in-place name or None)"""
    tab = ctx.table
    ops = []
    for name in L.BINARY_INT:
        ops.append((name, "int", "int"))
    ops.append(("div", "float", "pow2"))
    ops.append(("pow", "posint", "smallint"))
    for name in ("bitwise_and", "logical_and"):
        ops.append((name, "bool", "bool"))
    out = []
    import tensordict.base as B
    for name, sk, ok in ops:
        if name not in tab and not hasattr(B.TensorDictBase, name):
            ctx.run.notes.append(f"binary op {name} no longer found by reflection")
            continue
        sig = inspect.signature(getattr(B.TensorDictBase, name))
        out.append({"name": name, "self_kind": sk, "other_kind": ok, "default": "default" in sig.parameters,
                    "inplace": name + "_" if hasattr(B.TensorDictBase, name + "_") else None})
    return out


DUNDERS_BINARY = {  # dunder -> (value kinds, model mode, accepted operand kinds)
    "__add__": ("int", "int", "out"), "__radd__": ("int", "int", "rout"), "__sub__": ("int", "int", "out"),
    "__rsub__": ("int", "int", "rout"), "__mul__": ("int", "int", "out"), "__rmul__": ("int", "int", "rout"),
    "__truediv__": ("float", "pow2", "out"), "__rtruediv__": ("pow2", "float", "rout"), "__pow__": ("posint", "smallint", "out"),
    "__and__": ("bool", "bool", "out"), "__rand__": ("bool", "bool", "rout"),
    "__iadd__": ("int", "int", "inplace"), "__isub__": ("int", "int", "inplace"), "__imul__": ("int", "int", "inplace"),
    "__itruediv__": ("float", "pow2", "inplace"), "__ipow__": ("posint", "smallint", "inplace"),
}

OTHER_MODES_OUT = ["td_same", "td_same", "td_same", "td_missing", "td_extra", "td_both", "scalar", "t0", "t_batch", "t_bcast", "td_empty", "td_bcast"]
OTHER_MODES_INPLACE = ["td_same", "td_same", "td_same", "td_missing", "td_extra", "td_both", "scalar", "t0", "t_batch", "t_bcast"]


def wrap_container(kind, td):
    """the same content as another container kind: a tensorclass whose fields are the first-level keys / row 0 of a parent"""
    if kind == "tensorclass":
        from typing import Any
        from tensordict import tensorclass
        cls = tensorclass(type("C09TC", (), {"__annotations__": {k: Any for k in td.keys()}}))
        return cls._from_tensordict(td)
    if kind == "sub_td":
        was_locked = td.is_locked
        base = td.unlock_() if was_locked else td
        parent = torch.stack([base, base.apply(torch.zeros_like)], 0)
        if was_locked:
            base.lock_()
            parent.lock_()
        return parent._get_sub_tensordict(0)
    if kind == "params":
        from tensordict import TensorDictParams
        return TensorDictParams(td.unlock_() if td.is_locked else td, no_convert=True)
    if kind == "nested_lazy":
        # every first-level nested tensordict that holds something becomes a lazy stack of its rows (same content, same names)
        from tensordict import LazyStackedTensorDict, TensorDictBase
        if td.batch_dims == 0:
            return td
        was_locked = td.is_locked
        if was_locked:
            td.unlock_()
        for k in list(td.keys()):
            v = td._get_str(k, None)
            if isinstance(v, TensorDictBase) and len(list(v.keys(True, True))) > 0:
                nm = v.names[0] if v._has_names() else None
                td._set_str(k, LazyStackedTensorDict(*[m.clone() for m in v.unbind(0)], stack_dim=0, stack_dim_name=nm), inplace=False, validated=True)
        if was_locked:
            td.lock_()
        return td
    raise ValueError(kind)


def run_binary_case(ctx, name, ref, self_kind, other_kind, mode, other_mode, dflt_mode, site, container=None):
    """one case: build operands, ask the model, call the implementation, compare, run the oracle."""
    run, rng = ctx.run, ctx.rng
    batch, s_order, s_leaves = gen_self(ctx, self_kind)
    lock_s, lock_o = rng.random() < 0.4, rng.random() < 0.4
    inplace = mode == "inplace"
    if inplace:
        lock_s = rng.random() < 0.3
    self_td = L.build_td({p: v.clone() for p, v in s_leaves.items()}, s_order, batch, lock=lock_s)
    s_dfs = L.dfs_order(s_order)
    other = None
    o_leaves, o_dfs, tensor = {}, [], None
    o_batch = batch
    if other_mode == "td_bcast":
        # tensordict operand whose batch size broadcasts against self's (`_maybe_broadcast_other` expands both)
        if len(batch) == 0:
            other_mode = "td_same"
        else:
            o_batch = tuple(1 if rng.random() < 0.6 else b for b in batch)
            if o_batch == tuple(batch):
                o_batch = (1,) + tuple(batch[1:])
    if other_mode.startswith("td_"):
        o_order, o_leaves = gen_other_td(ctx, s_dfs, o_batch, other_kind, "td_same" if other_mode == "td_bcast" else other_mode)
        o_dfs = L.dfs_order(o_order)
        other = L.build_td(o_leaves, o_order, o_batch, lock=lock_o)
        if other_mode == "td_bcast":
            o_leaves = {p: v.expand(tuple(batch) + L.FEAT[p]) for p, v in o_leaves.items()}
        o_sx = ["td", L.paths_sx(o_dfs)]
    elif other_mode == "scalar":
        other = scalar_for(ctx, other_kind)
        o_sx = ["sc"]
    else:
        tensor = gen_tensor_operand(ctx, batch, other_kind, other_mode)
        other = tensor
        o_sx = ["sc"]
    dflt = None
    if dflt_mode == "inter":
        dflt = "intersection"
    elif dflt_mode == "val":
        dflt = L.gen_vals(rng, (), other_kind if other_kind != "pow2" else "pow2")
    case = {"op": name, "mode": mode, "batch": list(batch), "self": [".".join(p) for p in s_dfs],
            "other": other_mode, "other_keys": [".".join(p) for p in o_dfs], "default": dflt_mode,
            "other_shape": list(tensor.shape) if tensor is not None else None, "locked": [lock_s, lock_o]}
    nontrivial = (other_mode.startswith("td_") and len(o_dfs) >= 2 and [p for p in o_dfs if p in s_leaves] != [p for p in s_dfs if p in o_leaves]) \
        or (tensor is not None and tensor.ndim > 0)
    run.case((site, name, mode, other_mode, dflt_mode, tuple(s_dfs), tuple(o_dfs), tuple(batch), str(case["other_shape"])), nontrivial=nontrivial)
    run.count(site + ".other", other_mode)
    run.count(site + ".default", dflt_mode)
    run.count(site + ".op", name)
    # `alpha=` of add / sub (and in-place forms): a scalar keyword handed to torch unchanged for every key
    extra_kw = {}
    if name in ("add", "sub", "add_", "sub_") and rng.random() < 0.25:
        extra_kw = {"alpha": 2}
        base_ref = ref
        ref = lambda x, y, _f=base_ref: _f(x, y, alpha=2)  # noqa: E731
        run.count(site + ".kwarg", "alpha")

    # ---- model
    ans = ctx.drv.ask(sx("c09.binop", "inplace" if inplace else "out", L.paths_sx(s_dfs), o_sx, None if dflt_mode == "none" else dflt_mode))
    env = {("l", 0): s_leaves, ("l", 1): o_leaves, ("sc", 1): other, "d": dflt if isinstance(dflt, torch.Tensor) else None}
    exp_bs = list(batch)
    per_key = None
    model = None
    if tensor is not None and tensor.ndim > 0:
        b = bcast_env(ctx, batch, tensor, s_leaves, inplace)
        if b[0] == "err":
            model = ["err", b[1]]
        else:
            exp_bs = b[1]
            env[("l", 0)] = b[2]
            per_key = lambda i, path, bb=b: bb[3][path]  # noqa: E731
    if model is None:
        try:
            m = L.model_kv(ans, env, ref, per_key)
            model = canon_result("err", err=m[1]) if m[0] == "err" else canon_result("ok", m[1], exp_bs)
        except Exception as e:  # noqa: BLE001  torch itself rejects the operands the model pairs
            model = ["ref-undefined", err_class(e)]

    # ---- implementation
    if container is not None:
        self_td = wrap_container(container, self_td)
        case["container"] = container
        run.count(site + ".container", container)

    def call():
        if name.startswith("__"):
            return getattr(self_td, name)(other)
        if dflt is not None:
            return getattr(self_td, name)(other, default=dflt, **extra_kw)
        return getattr(self_td, name)(other, **extra_kw)
    r = L.impl_call(call)
    if r[0] == "ok" and lock_s and not inplace:
        r2 = L.impl_call(call)    # memoised _items_list of a locked operand: second call must agree
    else:
        r2 = None
    if r[0] == "err":
        impl = ["err", r[1]]
    else:
        res = self_td if inplace else r[1]
        if inplace and r[1] is not self_td:
            impl = ["not-self"]
        elif not hasattr(res, "batch_size"):
            impl = ["not-a-td", type(res).__name__]
        else:
            impl = canon_result("ok", leaf_dict(res), res.batch_size)
            if r2 is not None and (r2[0] != "ok" or canon_result("ok", leaf_dict(r2[1]), r2[1].batch_size) != impl):
                impl = ["second-call-differs"]
    non_fused_empty = name in ("bitwise_and", "logical_and", "__and__", "__rand__") and dflt_mode == "inter" and not (set(s_leaves) & set(o_leaves))
    if model[0] == "ref-undefined":
        run.count(site + ".skipped", "torch rejects operand types")
    elif non_fused_empty:
        # these three do not go through torch._foreach_*: on an empty operand list they return None where the fused ops raise
        run.count(site + ".skipped", "non-fused op, empty intersection")
    elif container == "nested_lazy":
        pass        # the plain model does not describe a nested lazy stack (known findings): oracle only
    else:
        run.corr(site, case, impl, model)

    # ---- oracle (per key torch, independent of the model)
    exp = None        # ("ok", leaves, bs) | ("raise",) | None (no expectation)
    fp_kind = other_mode
    try:
        if other_mode.startswith("td_"):
            sk, ok_ = set(s_leaves), set(o_leaves)
            if inplace:
                if not sk <= ok_:
                    exp = ("raise",)
                elif ok_ - sk:
                    exp = ("raise",)     # keys missing on self's side: no documented default for the in-place forms
                else:
                    exp = ("ok", {k: ref(s_leaves[k], o_leaves[k]) for k in sk}, list(batch))
            elif dflt_mode == "none":
                exp = ("raise",) if sk != ok_ else ("ok", {k: ref(s_leaves[k], o_leaves[k]) for k in sk}, list(batch))
            elif dflt_mode == "inter":
                common = sk & ok_
                exp = ("ok", {k: ref(s_leaves[k], o_leaves[k]) for k in common}, list(batch)) if common else None
            else:
                union = sk | ok_
                if ok_:
                    exp = ("ok", {k: ref(s_leaves.get(k, dflt), o_leaves.get(k, dflt)) for k in union}, list(batch))
        elif other_mode in ("scalar", "t0"):
            exp = ("ok", {k: ref(v, other) for k, v in s_leaves.items()}, list(batch))
        else:
            out, bs = {}, None
            for k, v in s_leaves.items():
                bs, lv, ov = oracle_tensor_operand(batch, tensor, v, L.FEAT[k])
                out[k] = ref(lv, ov)
            exp = ("ok", out, bs)
            if inplace and bs != list(batch):
                exp = None
    except Exception:  # noqa: BLE001  torch gives nothing for these operands: nothing to compare with
        exp = None
    if exp is None:
        run.count(site + ".oracle_skipped", other_mode)
    elif exp[0] == "raise":
        if impl[0] == "err":
            run.oracle_ok(site)
        else:
            run.oracle_fail(site, case, "key sets differ and no default was given, but the call returned a result", f"{name}:{fp_kind}:no-raise")
    else:
        want = canon_result("ok", exp[1], exp[2])
        if impl[0] == "err":
            run.oracle_fail(site, case, f"raised {r[2] if r[0] == 'err' else impl} where torch gives a value for every key", f"{name}:{fp_kind}:raises:{impl[1]}")
        elif impl != want:
            run.oracle_fail(site, case, f"result differs from the per-key torch op: got {str(impl)[:200]} expected {str(want)[:200]}", f"{name}:{fp_kind}:values")
        else:
            run.oracle_ok(site)
    return case, impl, model


def stream_binary(ctx: Ctx):
    run, rng = ctx.run, ctx.rng
    ops = _binary_ops(ctx)
    run.count("reflection", "foreach_methods", len(ctx.table))
    per = ctx.n(80, 400)
    sample_done = False
    for op in ops:
        ref = L.ref_op(op["name"])
        for _ in range(per):
            om = rng.choice(OTHER_MODES_OUT)
            if op["name"] in ("maximum", "minimum") and om == "scalar":
                om = "t0"       # torch.maximum has no Python-scalar overload
            dm = "none"
            if op["default"] and om.startswith("td_") and rng.random() < 0.45:
                dm = rng.choice(["inter", "val"])
            c = run_binary_case(ctx, op["name"], ref, op["self_kind"], op["other_kind"], "out", om, dm, "binary")
            if not sample_done and om == "td_same" and len(c[0]["self"]) >= 3:
                run.sample({"stream": "binary", "case": c[0], "model==impl": c[1] == c[2]})
                sample_done = True
        if op["inplace"]:
            for _ in range(per // 2):
                om = rng.choice(OTHER_MODES_INPLACE)
                if op["name"] in ("maximum", "minimum") and om == "scalar":
                    om = "t0"
                run_binary_case(ctx, op["inplace"], ref, op["self_kind"], op["other_kind"], "inplace", om, "none", "binary_inplace")
    # operators
    import tensordict.base as B
    per = ctx.n(40, 200)
    for dn, (sk, ok, mode) in DUNDERS_BINARY.items():
        if not hasattr(B.TensorDictBase, dn):
            run.notes.append(f"operator {dn} not found")
            continue
        ref = L.ref_op(dn)
        for _ in range(per):
            if mode == "rout":
                om = rng.choice(["scalar", "t0", "t_batch", "t_bcast"]) if dn != "__rand__" else rng.choice(["scalar", "t0", "td_same"])
            elif mode == "inplace":
                om = rng.choice(OTHER_MODES_INPLACE)
            else:
                om = rng.choice(OTHER_MODES_OUT)
            run_binary_case(ctx, dn, ref, sk, ok, "inplace" if mode == "inplace" else "out", om, "none",
                            "binary_inplace" if mode == "inplace" else "binary")


# =========================================================================== ternary ops (lerp / addcdiv / addcmul)

def _tern_ref(name):
    base = getattr(torch.Tensor, name)
    return lambda x, a, b: base(x, a, b)


TERN = {  # name -> (self kind, operand-1 kind, operand-2 kind, operand-2 may be a scalar / 0-d tensor)
    "lerp": ("float", "float", "weight", True),
    "addcmul": ("int", "int", "int", False),
    "addcdiv": ("float", "float", "pow2", False),
}
TERN_MODES = ["td_same"] * 8 + ["td_missing", "td_extra", "td_both", "td_empty"]


def run_ternary_case(ctx, name, inplace, container=None):
    run, rng = ctx.run, ctx.rng
    sk, k1, k2, scalar2 = TERN[name]
    ref = _tern_ref(name)
    tern_kw = {}
    if name in ("addcmul", "addcdiv") and rng.random() < 0.3:
        tern_kw = {"value": 2 if name == "addcmul" else 0.5}
        base = getattr(torch.Tensor, name)
        ref = lambda x, a, b, _v=tern_kw["value"]: base(x, a, b, value=_v)  # noqa: E731
        run.count("ternary.kwarg", "value")
    batch, s_order, s_leaves = gen_self(ctx, sk)
    lock_s = rng.random() < 0.3
    self_td = L.build_td({p: v.clone() for p, v in s_leaves.items()}, s_order, batch, lock=lock_s)
    s_dfs = L.dfs_order(s_order)
    # tensor operands of ndim>0 go through _maybe_broadcast_other (out-of-place only): both slots, or one slot next to a
    # tensordict / scalar operand
    tmode = rng.choice(["none"] * 6 + ["both", "first", "second"]) if (not inplace and len(batch) > 0) else "none"
    ops, sxs, leaves, dfs, modes = [], [], [], [], []
    for slot, kind in ((1, k1), (2, k2)):
        if tmode == "both" or (tmode == "first" and slot == 1) or (tmode == "second" and slot == 2):
            t = gen_tensor_operand(ctx, batch, kind, rng.choice(["t_batch", "t_bcast"]))
            ops.append(t); sxs.append(["sc"]); leaves.append({}); dfs.append([]); modes.append("tensor")
        elif slot == 2 and scalar2 and rng.random() < 0.5:
            v = rng.choice([0.0, 0.25, 0.5, 1.0])
            if rng.random() < 0.5:
                v = torch.tensor(v, dtype=torch.float64)
                modes.append("t0")
            else:
                modes.append("scalar")
            ops.append(v); sxs.append(["sc"]); leaves.append({}); dfs.append([])
        else:
            m = rng.choice(TERN_MODES)
            o_order, o_leaves = gen_other_td(ctx, s_dfs, batch, kind, m)
            ops.append(L.build_td(o_leaves, o_order, batch, lock=rng.random() < 0.3))
            d = L.dfs_order(o_order)
            sxs.append(["td", L.paths_sx(d)]); leaves.append(o_leaves); dfs.append(d); modes.append(m)
    case = {"op": name + ("_" if inplace else ""), "batch": list(batch), "self": [".".join(p) for p in s_dfs],
            "o1": modes[0], "o1_keys": [".".join(p) for p in dfs[0]], "o2": modes[1], "o2_keys": [".".join(p) for p in dfs[1]],
            "shapes": [list(o.shape) if isinstance(o, torch.Tensor) else None for o in ops], "locked": lock_s}
    site = "ternary_inplace" if inplace else "ternary"
    if container is not None:
        site = "nested_lazy" if container == "nested_lazy" else "ternary_containers"
        case["container"] = container
    nontrivial = any(m.startswith("td_") and len(d) >= 2 and [p for p in d if p in s_leaves] != [p for p in s_dfs if p in lv]
                     for m, d, lv in zip(modes, dfs, leaves)) or "tensor" in modes
    run.case((site, name, tuple(modes), tuple(s_dfs), tuple(map(tuple, dfs)), tuple(batch), str(case["shapes"])), nontrivial=nontrivial)
    run.count(site + ".operands", "+".join(modes))
    # model
    ans = ctx.drv.ask(sx("c09.tern", "inplace" if inplace else "out", L.paths_sx(s_dfs), sxs[0], sxs[1]))
    env = {("l", 0): s_leaves, ("l", 1): leaves[0], ("l", 2): leaves[1], ("sc", 1): ops[0], ("sc", 2): ops[1], "d": None}
    exp_bs, per_key, model = list(batch), None, None
    if "tensor" in modes:
        # _maybe_broadcast_other(op, 2): one common broadcast shape for self and both tensors
        try:
            bs = list(torch.broadcast_shapes(tuple(batch), *[tuple(o.shape) for o in ops if isinstance(o, torch.Tensor)]))
        except Exception:  # noqa: BLE001
            bs = None
        if bs is None:
            model = ["err", "runtime"]
        else:
            exp_bs = bs
            env[("l", 0)] = {p: v.expand(bs + list(L.FEAT[p])) for p, v in s_leaves.items()}
            for side in (1, 2):
                env[("l", side)] = {p: v.expand(bs + list(L.FEAT[p])) for p, v in leaves[side - 1].items()}
            tabs = {}
            for i, o in enumerate(ops, 1):
                tabs[i] = {}
                if not (isinstance(o, torch.Tensor) and o.ndim):
                    for p in s_leaves:
                        tabs[i][p] = o
                    continue
                for p in s_leaves:
                    a = parse_sx(ctx.drv.ask(sx("c09.bcast", bs, list(o.shape), list(L.FEAT[p]))))
                    idx = torch.tensor(a[2][1:], dtype=torch.long)
                    tabs[i][p] = o.reshape(-1)[idx].reshape(bs + list(L.FEAT[p]))
            per_key = lambda i, path: tabs[i][path]  # noqa: E731
    if model is None:
        try:
            m = L.model_kv(ans, env, ref, per_key)
            model = canon_result("err", err=m[1]) if m[0] == "err" else canon_result("ok", m[1], exp_bs)
        except Exception as e:  # noqa: BLE001
            model = ["ref-undefined", err_class(e)]
    # implementation
    if container is not None:
        self_td = wrap_container(container, self_td)
        run.count(site + ".container", container)
    r = L.impl_call(lambda: getattr(self_td, name + ("_" if inplace else ""))(ops[0], ops[1], **tern_kw))
    if r[0] == "err":
        impl = ["err", r[1]]
    else:
        res = self_td if inplace else r[1]
        impl = ["not-self"] if (inplace and r[1] is not self_td) else canon_result("ok", leaf_dict(res), res.batch_size)
    if model[0] != "ref-undefined" and container != "nested_lazy":
        run.corr(site, case, impl, model)
    # oracle
    exp = None
    try:
        if "tensor" in modes:
            bs = list(torch.broadcast_shapes(tuple(batch), *[tuple(o.shape) for o in ops if isinstance(o, torch.Tensor)]))
            ks = set(s_leaves)
            if any(m.startswith("td_") and set(lv) != ks for m, lv in zip(modes, leaves)):
                exp = ("raise",)
            else:
                out = {}
                for k, v in s_leaves.items():
                    f = list(L.FEAT[k])
                    args_ = []
                    for m, lv, o in zip(modes, leaves, ops):
                        if m.startswith("td_"):
                            args_.append(lv[k].expand(bs + f))
                        elif isinstance(o, torch.Tensor) and o.ndim:
                            args_.append(o.expand(bs).reshape(bs + [1] * len(f)))
                        else:
                            args_.append(o)
                    out[k] = ref(v.expand(bs + f), *args_)
                exp = ("ok", out, bs)
        else:
            ks = set(s_leaves)
            bad = any(m.startswith("td_") and set(lv) != ks for m, lv in zip(modes, leaves))
            if bad:
                exp = ("raise",)
            else:
                exp = ("ok", {k: ref(s_leaves[k], *[lv[k] if m.startswith("td_") else o for m, lv, o in zip(modes, leaves, ops)]) for k in ks}, list(batch))
    except Exception:  # noqa: BLE001
        exp = None
    fp = f"{name}{'_' if inplace else ''}:{'+'.join(modes)}"
    if exp is None:
        run.count(site + ".oracle_skipped", "+".join(modes))
    elif exp[0] == "raise":
        run.oracle_ok(site) if impl[0] == "err" else run.oracle_fail(site, case, "key sets differ but the call returned a result", fp + ":no-raise")
    else:
        want = canon_result("ok", exp[1], exp[2])
        if impl[0] == "err":
            run.oracle_fail(site, case, f"raised {r[2] if r[0] == 'err' else impl} where torch gives a value for every key", fp + f":raises:{impl[1]}")
        elif impl != want:
            run.oracle_fail(site, case, f"result differs from the per-key torch op (operands paired by position?): got {str(impl)[:160]} expected {str(want)[:160]}", fp + ":values")
        else:
            run.oracle_ok(site)
    return case, impl, model


def stream_ternary(ctx: Ctx):
    import tensordict.base as B
    done = False
    for name in TERN:
        if name not in ctx.table:
            ctx.run.notes.append(f"ternary op {name} no longer found by reflection")
            continue
        for inplace in (False, True):
            if inplace and not hasattr(B.TensorDictBase, name + "_"):
                continue
            for _ in range(ctx.n(120, 600)):
                c = run_ternary_case(ctx, name, inplace)
                if not done and c[0]["o1"] == "td_same" and len(c[0]["self"]) >= 3:
                    ctx.run.sample({"stream": "ternary", "case": c[0], "model==impl": c[1] == c[2]})
                    done = True
    # the defect of the pinned tree (positional pairing), as the model of the OLD code predicts it: replay on the implementation
    from tensordict import TensorDict
    a = TensorDict({"x": torch.tensor([1.0, 2.0]), "y": torch.tensor([10.0, 20.0])}, [2])
    b = TensorDict({"y": torch.tensor([100.0, 200.0]), "x": torch.tensor([7.0, 8.0])}, [2])
    old = parse_sx(ctx.drv.ask(sx("c09.tern", "pos", [["x"], ["y"]], ["td", [["y"], ["x"]]], ["sc"])))
    new = parse_sx(ctx.drv.ask(sx("c09.tern", "out", [["x"], ["y"]], ["td", [["y"], ["x"]]], ["sc"])))
    got = a.lerp(b, 0.5)
    pairs_x = torch.equal(got["x"], torch.lerp(a["x"], b["x"], torch.tensor(0.5)))
    ctx.run.case(("ternary_witness",))
    ctx.run.corr("ternary_witness", "lerp witness of DESIGN §7 row 11", ["keyed" if pairs_x else "positional"],
                 ["keyed" if new[1][1][2][2] == ["x"] else "positional"])
    ctx.run.notes.append(f"old (positional) model pairs x with {old[1][1][2]} ; repaired model pairs x with {new[1][1][2]}")
    if not pairs_x:
        ctx.run.oracle_fail("ternary", {"op": "lerp", "self": ["x", "y"], "o1_keys": ["y", "x"]}, "a.lerp(b, .5) mixes x and y when b was built {y, x}", "lerp:witness:values")
    else:
        ctx.run.oracle_ok("ternary")


# =========================================================================== comparisons and | ^ (tensordict/_td.py)

CMP_MODES = ["td_same", "td_same", "td_same", "dict_same", "td_missing", "td_extra", "td_both", "dict_extra", "scalar", "t0", "t_batch", "t_bcast"]


def nested_dict(leaves, order):
    d = {}
    for p in order:
        cur = d
        for s in p[:-1]:
            cur = cur.setdefault(s, {})
        cur[p[-1]] = leaves[p]
    return d


def run_compare_case(ctx, name, kind, container=None, site="compare"):
    run, rng = ctx.run, ctx.rng
    ref = L.ref_op(name)
    batch, s_order, s_leaves = gen_self(ctx, kind)
    lock_s = rng.random() < 0.3
    self_td = L.build_td(s_leaves, s_order, batch, lock=lock_s)
    s_dfs = L.dfs_order(s_order)
    om = rng.choice(CMP_MODES)
    o_leaves, o_dfs, tensor = {}, [], None
    if om.startswith("td_") or om.startswith("dict_"):
        o_order, o_leaves = gen_other_td(ctx, s_dfs, batch, kind, "td_" + om.split("_")[1])
        # a comparison result mixes equal and different entries: copy some of self's values
        for p in o_leaves:
            if p in s_leaves and rng.random() < 0.5:
                o_leaves[p] = s_leaves[p].clone()
        o_dfs = L.dfs_order(o_order)
        other = nested_dict(o_leaves, o_order) if om.startswith("dict_") else L.build_td(o_leaves, o_order, batch, lock=rng.random() < 0.3)
        o_sx = ["td", L.paths_sx(o_dfs)]
    elif om == "scalar":
        other = scalar_for(ctx, kind); o_sx = ["sc"]
    else:
        tensor = gen_tensor_operand(ctx, batch, kind, om); other = tensor; o_sx = ["sc"]
    case = {"op": name, "batch": list(batch), "self": [".".join(p) for p in s_dfs], "other": om,
            "other_keys": [".".join(p) for p in o_dfs], "other_shape": list(tensor.shape) if tensor is not None else None, "locked": lock_s}
    nontrivial = (len(o_dfs) >= 2 and [p for p in o_dfs if p in s_leaves] != [p for p in s_dfs if p in o_leaves]) or (tensor is not None and tensor.ndim > 0)
    run.case((site, name, om, tuple(s_dfs), tuple(o_dfs), tuple(batch), str(case["other_shape"])), nontrivial=nontrivial)
    run.count(site + ".other", om)
    ans = ctx.drv.ask(sx("c09.cmp", L.paths_sx(s_dfs), o_sx))
    env = {("l", 0): s_leaves, ("l", 1): o_leaves, ("sc", 1): other, "d": None}
    exp_bs, per_key, model = list(batch), None, None
    if tensor is not None and tensor.ndim > 0:
        b = bcast_env(ctx, batch, tensor, s_leaves)
        if b[0] == "err":
            model = ["err", b[1]]
        else:
            exp_bs = b[1]; env[("l", 0)] = b[2]
            per_key = lambda i, path, bb=b: bb[3][path]  # noqa: E731
    if model is None:
        try:
            m = L.model_kv(ans, env, ref, per_key)
            model = canon_result("err", err=m[1]) if m[0] == "err" else canon_result("ok", m[1], exp_bs)
        except Exception as e:  # noqa: BLE001
            model = ["ref-undefined", err_class(e)]
    if container is not None:
        self_td = wrap_container(container, self_td)
        case["container"] = container
        run.count(site + ".container", container)
    r = L.impl_call(lambda: getattr(self_td, name)(other))
    if r[0] == "err":
        impl = ["err", r[1]]
    elif not hasattr(r[1], "batch_size"):
        impl = ["not-a-td", repr(r[1])[:40]]
    else:
        impl = canon_result("ok", leaf_dict(r[1]), r[1].batch_size)
    if model[0] != "ref-undefined" and container != "nested_lazy":
        run.corr(site, case, impl, model)
    exp = None
    try:
        if o_leaves or om.startswith(("td_", "dict_")):
            exp = ("raise",) if set(o_leaves) != set(s_leaves) else ("ok", {k: ref(s_leaves[k], o_leaves[k]) for k in s_leaves}, list(batch))
        elif om in ("scalar", "t0"):
            exp = ("ok", {k: ref(v, other) for k, v in s_leaves.items()}, list(batch))
        else:
            out, bs = {}, None
            for k, v in s_leaves.items():
                bs, lv, ov = oracle_tensor_operand(batch, tensor, v, L.FEAT[k])
                out[k] = ref(lv, ov)
            exp = ("ok", out, bs)
    except Exception:  # noqa: BLE001
        exp = None
    fp = f"{name}:{om}"
    if exp is None:
        run.count(site + ".oracle_skipped", om)
    elif exp[0] == "raise":
        run.oracle_ok(site) if impl[0] == "err" else run.oracle_fail(site, case, "key sets differ but the comparison returned a result", fp + ":no-raise")
    else:
        want = canon_result("ok", exp[1], exp[2])
        if impl[0] == "err":
            run.oracle_fail(site, case, f"raised {r[2]} where torch gives a value for every key", fp + f":raises:{impl[1]}")
        elif impl != want:
            run.oracle_fail(site, case, f"differs from the per-key torch comparison: got {str(impl)[:160]} expected {str(want)[:160]}", fp + ":values")
        else:
            run.oracle_ok(site)


def stream_compare(ctx: Ctx):
    from tensordict import TensorDict
    for name in L.COMPARE:
        if name not in TensorDict.__dict__:
            ctx.run.notes.append(f"{name} not defined on TensorDict any more")
        for _ in range(ctx.n(100, 500)):
            run_compare_case(ctx, name, ctx.rng.choice(["smallint", "smallint", "bool"]))
    for name in L.BITWISE_CMP_STYLE:
        for _ in range(ctx.n(80, 400)):
            run_compare_case(ctx, name, ctx.rng.choice(["smallint", "bool"]))


# =========================================================================== unary ops

def stream_unary(ctx: Ctx):
    run, rng = ctx.run, ctx.rng
    import tensordict.base as B
    names = [n for n, info in ctx.table.items() if info["nargs"] == 0 and not n.endswith("_") and n in L.UNARY_SAFE_DOMAIN]
    unknown = [n for n, info in ctx.table.items() if info["nargs"] == 0 and not n.endswith("_") and n not in L.UNARY_SAFE_DOMAIN and not n.startswith("_")
               and n != "norm"]      # norm(): 0-d result per leaf, checked by the extended oracle
    if unknown:
        run.notes.append(f"unary fused methods without a value domain in c09_lib.UNARY_SAFE_DOMAIN (tested on 'any'): {unknown}")
    names += [n for n in unknown if hasattr(torch.Tensor, n) and n not in ("norm", "zero_grad", "clone")]
    dunders = ["__neg__", "__abs__", "__invert__"]
    for name in names + dunders:
        for inplace in ((False, True) if hasattr(B.TensorDictBase, name + "_") and not name.startswith("__") else (False,)):
            for _ in range(ctx.n(12, 60)):
                kind = {"__invert__": "bool", "__neg__": "int", "__abs__": "int"}.get(name) or L.UNARY_SAFE_DOMAIN.get(name, "any")
                ref = L.ref_op(name)
                batch, s_order, s_leaves = gen_self(ctx, kind)
                lock_s = (not inplace) and rng.random() < 0.4
                self_td = L.build_td({p: v.clone() for p, v in s_leaves.items()}, s_order, batch, lock=lock_s)
                s_dfs = L.dfs_order(s_order)
                case = {"op": name + ("_" if inplace else ""), "batch": list(batch), "self": [".".join(p) for p in s_dfs], "locked": lock_s}
                run.case(("unary", case["op"], tuple(s_dfs), tuple(batch)), nontrivial=len(s_dfs) >= 2)
                run.count("unary.op", case["op"])
                ans = ctx.drv.ask(sx("c09.unop", L.paths_sx(s_dfs)))
                m = L.model_kv(ans, {("l", 0): s_leaves, "d": None}, ref)
                model = canon_result("err", err=m[1]) if m[0] == "err" else canon_result("ok", m[1], batch)
                r = L.impl_call(lambda: getattr(self_td, name + ("_" if inplace else ""))())
                if r[0] == "err":
                    impl = ["err", r[1]]
                else:
                    res = self_td if inplace else r[1]
                    impl = ["not-self"] if (inplace and r[1] is not self_td) else canon_result("ok", leaf_dict(res), res.batch_size)
                run.corr("unary", case, impl, model)
                want = canon_result("ok", {k: ref(v) for k, v in s_leaves.items()}, batch)
                if impl != want:
                    run.oracle_fail("unary", case, f"differs from torch.{name} per key: {str(impl)[:200]}", f"{case['op']}:values" if impl[0] == "ok" else f"{case['op']}:raises")
                else:
                    run.oracle_ok("unary")


# =========================================================================== reductions

RED = {  # front-end -> (tupleOk, callOnNested, fixedBatch, value kind, accepts keepdim)
    "sum": (True, True, False, "int", True), "nansum": (True, True, False, "float", True),
    "mean": (True, True, False, "float", True), "nanmean": (True, True, False, "float", True),
    "std": (True, True, False, "float", True), "var": (True, True, False, "float", True),
    "prod": (False, True, False, "smallint", False),      # keepdim of prod is post-processed by the front-end (oracle only)
    "amin": (False, False, False, "int", True), "amax": (False, False, False, "int", True),
    "min": (False, False, False, "int", True), "max": (False, False, False, "int", True),
    "cummin": (False, False, True, "int", False), "cummax": (False, False, True, "int", False),
}
RED_BATCHES = [(2, 3), (3,), (2, 1, 3), (1, 2), ()]
NAMES = ["p", "q", "r"]


def dim_spellings(ndim, tuple_ok):
    out = [("nodef", None)]
    for d in range(-ndim - 1, ndim + 1):
        out.append((["int", d], d))
    if tuple_ok:
        out.append(("none", "NONE"))
        for r in (1, 2, 3):
            for t in itertools.permutations(range(ndim), r):
                out.append((["tuple"] + list(t), tuple(t)))
        if ndim >= 2:
            out.append((["tuple", -1, 0], (-1, 0)))
            out.append((["tuple", 0, ndim], (0, ndim)))
    out.append(("feature", "feature"))
    return out


def _red_values(x):
    if isinstance(x, tuple) and hasattr(x, "values"):
        return x.values
    return x


def red_canon(res):
    """canonical form of a reduction result (tensordict): batch, names, leaves, nested batch sizes"""
    from tensordict import TensorDictBase
    nested = sorted((".".join(k) if isinstance(k, tuple) else k, list(v.batch_size),
                     [str(x) for x in (v.names if v._has_names() else [None] * v.batch_dims)])
                    for k, v in res.items(True, False) if isinstance(v, TensorDictBase))
    names = list(res.names) if res._has_names() else None
    return ["ok", ["bs"] + list(res.batch_size), ["names", names], L.canon_kv(leaf_dict(res)), ["nested"] + [list(x) for x in nested]]


def run_reduction_case(ctx, name, batch, names, spelling, keep, container=None):
    run = ctx.run
    tok, con, fb, kind, accepts_keep = RED[name]
    dim_sx, dim_py = spelling
    paths = [("a",), ("b",), ("n", "x"), ("n", "y")]
    leaves = L.gen_leaves(ctx.rng, paths, batch, kind)
    td = L.build_td(leaves, paths, batch, names=names, lock=ctx.rng.random() < 0.3)
    kw = {}
    if dim_py is not None:
        kw["dim"] = None if dim_py == "NONE" else dim_py
    if keep != "nodef":
        kw["keepdim"] = keep
    if name in ("min", "max", "cummin", "cummax"):
        kw["return_indices"] = False
    if name in ("cummin", "cummax") and "dim" not in kw:
        return
    case = {"op": name, "batch": list(batch), "names": names, "dim": str(kw.get("dim", "absent")), "keepdim": str(keep)}
    run.case(("reduction" if container is None else "reduction_containers", name, tuple(batch), str(names), str(dim_sx), str(keep)), nontrivial=dim_py is not None)
    run.count("reduction.dim", dim_sx if isinstance(dim_sx, str) else dim_sx[0])
    run.count("reduction.keepdim", str(keep))
    run.count("reduction.op", name)
    # ---- model: metadata from Lean, leaf values from torch with the arguments the model says each leaf receives
    ans = parse_sx(ctx.drv.ask(sx("c09.reduce", tok, con, fb, list(batch), names if names is not None else None,
                                  dim_sx if not isinstance(dim_sx, str) else (None if dim_sx == "none" else dim_sx),
                                  keep if keep != "nodef" else "nodef")))
    if ans[0] == "err":
        model = ["err", ans[1]]
    else:
        m_bs = ans[1][1:]
        m_names = None if ans[2] == "nonames" else ans[2][1:]
        leaf = ans[3]
        try:
            out = {}
            for p, v in leaves.items():
                fn = getattr(v, name)
                lk = {}
                if leaf[0] in ("all", "dimnone", "dims") and leaf[-1] != "nodef":
                    lk["keepdim"] = leaf[-1] == "true"
                if leaf[0] == "all":
                    r = fn(**lk)
                elif leaf[0] == "dimnone":
                    r = fn(dim=None, **lk)
                elif leaf[0] == "dims":
                    ds = leaf[1]
                    r = fn(dim=tuple(ds) if tok else ds[0], **lk)
                else:
                    vv = v.flatten(len(batch), -1) if v.ndim > len(batch) else v.unsqueeze(-1)
                    r = getattr(vv, name)(dim=-1)
                out[p] = _red_values(r)
            model = ["ok", ["bs"] + m_bs, ["names", m_names], L.canon_kv(out),
                     ["nested", ["n", m_bs, [str(x) for x in (m_names if m_names is not None else [None] * len(m_bs))]]]]   # nested results carry the root's names
        except Exception as e:  # noqa: BLE001  torch rejects the call the model (and the code) makes on a leaf
            model = ["err", err_class(e)]
    # ---- implementation
    site = "reduction" if container is None else ("nested_lazy" if container == "nested_lazy" else "reduction_containers")
    if container is not None:
        td = wrap_container(container, td)
        case["container"] = container
        run.count(site + ".container", container)
    r = L.impl_call(lambda: getattr(td, name)(**kw))
    if r[0] == "ok" and container == "tensorclass":
        from tensordict import is_tensorclass
        if is_tensorclass(r[1]):
            r = (r[0], r[1]._tensordict) + tuple(r[2:])
    if r[0] == "err":
        impl = ["err", r[1]]
    elif not hasattr(r[1], "batch_size"):
        impl = ["not-a-td", type(r[1]).__name__]
    else:
        impl = red_canon(r[1])
        if not con and impl[2][1] is not None:
            pass
    # nested batch sizes and nested dim names (= the root's) are part of the comparison
    if container != "nested_lazy":
        run.corr(site, case, impl, model)
    # ---- oracle: torch on every leaf over the batch dims named by the user, batch size = what torch does to the batch shape
    exp = None
    nd = len(batch)
    try:
        if dim_py is None:
            if keep is True:
                exp = None          # torch has no reduce-all-with-keepdim for most ops
            else:
                exp = ("ok", {p: _red_values(getattr(v, name)()) for p, v in leaves.items()}, [])
        elif dim_py == "NONE":
            k = keep is True
            exp = ("ok", {p: _red_values(getattr(v, name)(dim=None, keepdim=k)) for p, v in leaves.items()},
                   [1] * nd if k else [])
        elif dim_py == "feature":
            if keep is True:
                exp = ("raise",)
            elif not con:
                exp = None
            else:
                out = {}
                for p, v in leaves.items():
                    vv = v.flatten(nd, -1) if v.ndim > nd else v.unsqueeze(-1)
                    out[p] = _red_values(getattr(vv, name)(dim=-1))
                exp = ("ok", out, list(batch))
        else:
            ds = [dim_py] if isinstance(dim_py, int) else list(dim_py)
            if any(d >= nd or d < -nd for d in ds):
                exp = ("raise",)
            else:
                nds = [d % nd for d in ds]
                k = keep is True
                out = {}
                for p, v in leaves.items():
                    if name in ("cummin", "cummax"):
                        out[p] = _red_values(getattr(v, name)(dim=nds[0]))
                    else:
                        out[p] = _red_values(getattr(v, name)(dim=tuple(nds) if tok else nds[0], keepdim=k))
                if fb:
                    bs = list(batch)
                else:
                    bs = [1 if i in nds else b for i, b in enumerate(batch)] if k else [b for i, b in enumerate(batch) if i not in nds]
                exp = ("ok", out, bs)
    except Exception:  # noqa: BLE001
        exp = None
    fp = f"{name}:dim={dim_sx if isinstance(dim_sx, str) else dim_sx[0]}:keepdim={keep}:names={'y' if names else 'n'}"
    if exp is None:
        run.count(site + ".oracle_skipped", str(dim_sx if isinstance(dim_sx, str) else dim_sx[0]))
    elif exp[0] == "raise":
        run.oracle_ok(site) if impl[0] == "err" else run.oracle_fail(site, case, "an invalid dim was accepted", fp + ":no-raise")
    elif impl[0] != "ok":
        run.oracle_fail(site, case, f"raised {r[2] if r[0] == 'err' else impl} where torch reduces every leaf", fp + ":raises")
    else:
        want_leaves = L.canon_kv(exp[1])
        coherent = all(list(v.shape[:len(r[1].batch_size)]) == list(r[1].batch_size) for v in leaf_dict(r[1]).values())
        names_ok = (not r[1]._has_names()) or len(r[1].names) == len(r[1].batch_size)
        if impl[3] != want_leaves:
            run.oracle_fail(site, case, "leaf values differ from the torch reduction over the batch dims", fp + ":values")
        elif impl[1][1:] != exp[2] or not coherent:
            run.oracle_fail(site, case, f"batch size {impl[1][1:]} (expected {exp[2]}) does not describe the reduced leaves", fp + ":batch")
        elif not names_ok:
            run.oracle_fail(site, case, f"{len(r[1].names)} names for {len(r[1].batch_size)} batch dims", fp + ":names")
        else:
            # the nested tensordicts of the result carry the root's dim names (their batch dims are the root's)
            from tensordict import TensorDictBase
            root_names = list(r[1].names) if r[1]._has_names() else [None] * len(r[1].batch_size)
            bad_nested = [k for k, v in r[1].items(True, is_leaf=lambda cls: False) if isinstance(v, TensorDictBase)
                          and (list(v.names) if v._has_names() else [None] * len(v.batch_size))[:len(root_names)] != root_names]
            if bad_nested:
                run.oracle_fail(site, case, f"nested result {bad_nested[0]} has dim names {r[1].get(bad_nested[0]).names} under a root named {root_names}",
                                fp + ":nested-names")
            else:
                run.oracle_ok(site)
    return case, impl, model


def stream_reductions(ctx: Ctx):
    run, rng = ctx.run, ctx.rng
    import tensordict.base as B
    done = False
    for name, (tok, con, fb, kind, accepts_keep) in RED.items():
        if not hasattr(B.TensorDictBase, name):
            run.notes.append(f"reduction {name} not found")
            continue
        combos = []
        for batch in RED_BATCHES:
            for sp in dim_spellings(len(batch), tok):
                for keep in (("nodef", True, False) if accepts_keep else ("nodef",)):
                    for names in (None, NAMES[:len(batch)]):
                        if names == [] and names is not None and False:
                            continue
                        combos.append((batch, names, sp, keep))
        if ctx.quick:
            combos = rng.sample(combos, min(len(combos), 200))
        for batch, names, sp, keep in combos:
            if names is not None and len(batch) == 0:
                names = None
            c = run_reduction_case(ctx, name, batch, names, sp, keep)
            if c and not done and c[0]["names"] and c[0]["dim"] not in ("absent", "feature") and c[1][0] == "ok":
                run.sample({"stream": "reduction", "case": c[0], "impl_batch_names": c[1][1:3], "model_batch_names": c[2][1:3]})
                done = True


# =========================================================================== extended domain: per-key torch oracle only

def _check_td(ctx, site, case, fp, res_call, expected, exp_bs=None):
    """compare an implementation result with {path: tensor} computed by torch per key"""
    run = ctx.run
    r = L.impl_call(res_call)
    if expected is None:
        run.count(site + ".oracle_skipped", fp)
        return
    if expected == "raise":
        run.oracle_ok(site) if r[0] == "err" else run.oracle_fail(site, case, "expected an exception (key sets differ / invalid argument)", fp + ":no-raise")
        return
    if r[0] == "err":
        run.oracle_fail(site, case, f"raised {r[2]} where torch gives a value for every key", fp + f":raises:{r[1]}")
        return
    res = r[1]
    try:
        if hasattr(res, "to_tensordict") and not type(res).__name__ == "TensorDict":
            res = res.to_tensordict()
        got = L.canon_kv(leaf_dict(res))
    except Exception as e:  # noqa: BLE001
        run.oracle_fail(site, case, f"result cannot be read: {e}", fp + ":unreadable")
        return
    if got != L.canon_kv(expected):
        run.oracle_fail(site, case, f"differs from the per-key torch op: got {str(got)[:200]} expected {str(L.canon_kv(expected))[:200]}", fp + ":values")
    elif exp_bs is not None and list(res.batch_size) != list(exp_bs):
        run.oracle_fail(site, case, f"batch size {list(res.batch_size)} expected {list(exp_bs)}", fp + ":batch")
    else:
        run.oracle_ok(site)


def _make_tc():
    from tensordict import tensorclass

    @tensorclass
    class C09Pair:
        a: torch.Tensor
        b: torch.Tensor
    return C09Pair


def extended_oracle(ctx: Ctx):
    run, rng = ctx.run, ctx.rng
    from tensordict import LazyStackedTensorDict, TensorDict, lazy_stack
    n = ctx.n(60, 300)
    # ---- lazy stacks: members built with different insertion orders; dense operands permuted
    for it in range(n):
        kind = rng.choice(["int", "int", "bool"])
        paths = rng.sample(L.KEY_POOL, rng.randint(1, 4))
        inner = rng.choice([(3,), (2,), ()])
        nmem = rng.randint(1, 3)
        members, mleaves = [], []
        for i in range(nmem):
            lv = L.gen_leaves(rng, paths, inner, kind)
            order = list(paths); rng.shuffle(order)
            members.append(L.build_td(lv, order, inner)); mleaves.append(lv)
        sdim = rng.randint(0, len(inner))
        lz = lazy_stack(members, sdim)
        dense = {p: torch.stack([m[p] for m in mleaves], sdim) for p in paths}
        batch = list(lz.batch_size)
        o_order = list(paths); rng.shuffle(o_order)
        o_leaves = L.gen_leaves(rng, paths, batch, kind)
        other = L.build_td(o_leaves, o_order, batch)
        if rng.random() < 0.5:
            other = lazy_stack(list(other.unbind(sdim)), sdim)
        ops = [("add", torch.add), ("mul", torch.mul), ("sub", torch.sub), ("__eq__", torch.eq), ("__ge__", torch.ge)] if kind == "int" else \
              [("logical_and", torch.logical_and), ("__or__", torch.bitwise_or), ("__xor__", torch.bitwise_xor), ("__ne__", torch.ne)]
        name, tf = rng.choice(ops)
        case = {"container": "lazy_stack", "op": name, "batch": batch, "keys": [".".join(p) for p in paths], "stack_dim": sdim, "other_lazy": isinstance(other, LazyStackedTensorDict)}
        run.case(("lazy", name, tuple(paths), tuple(batch), sdim, it))
        run.count("container.kind", "lazy_stack")
        _check_td(ctx, "container", case, f"lazy:{name}:{'lazy' if case['other_lazy'] else 'dense'}-other", lambda: getattr(lz, name)(other),
                  {p: tf(dense[p], o_leaves[p]) for p in paths}, batch)
        sc = scalar_for(ctx, kind)
        name2, tf2 = rng.choice(ops[:3] if kind == "int" else ops[1:3])
        try:
            want = {p: getattr(dense[p], name2)(sc) for p in paths}
        except Exception:  # noqa: BLE001  torch has no such overload
            want = None
        _check_td(ctx, "container", dict(case, op=name2, other="scalar"), f"lazy:{name2}:scalar", lambda: getattr(lz, name2)(sc), want, batch)
        if kind == "int":
            _check_td(ctx, "container", dict(case, op="neg"), "lazy:neg", lambda: lz.neg(), {p: -dense[p] for p in paths}, batch)
            if batch:
                d = rng.randrange(len(batch))
                _check_td(ctx, "container", dict(case, op="sum", dim=d), "lazy:sum", lambda: lz.sum(dim=d), {p: dense[p].sum(d) for p in paths},
                          [b for i, b in enumerate(batch) if i != d])
    # ---- two lazy stacks of the same batch size stacked along different dims
    for it in range(ctx.n(6, 30)):
        k = rng.choice([2, 3])
        A = {("a",): L.gen_vals(rng, (k, k), "int"), ("b",): L.gen_vals(rng, (k, k, 2), "int")}
        Bv = {("a",): L.gen_vals(rng, (k, k), "int"), ("b",): L.gen_vals(rng, (k, k, 2), "int")}
        lz0 = lazy_stack([L.build_td({p: v[i] for p, v in A.items()}, list(A), (k,)) for i in range(k)], 0)
        lz1 = lazy_stack([L.build_td({p: v[:, j] for p, v in Bv.items()}, list(Bv), (k,)) for j in range(k)], 1)
        name, tf = rng.choice([("add", torch.add), ("mul", torch.mul), ("__eq__", torch.eq)])
        case = {"container": "lazy_stack", "op": name, "batch": [k, k], "stack_dims": [0, 1]}
        run.case(("lazy_stackdims", name, k, it))
        run.count("container.kind", "lazy_stack(different stack dims)")
        _check_td(ctx, "container", case, f"lazy:{name}:stackdim-mismatch", lambda: getattr(lz0, name)(lz1), {p: tf(A[p], Bv[p]) for p in A}, [k, k])
    # ---- comparison operators across container kinds, with ties (reflected operators must be the mirror, not the inverse)
    try:
        TCc = _make_tc()
    except Exception:  # noqa: BLE001
        TCc = None
    kinds = ["dense", "lazy0", "lazy1"] + (["tc"] if TCc is not None else [])

    def wrap(kind, vals, batch):
        td = L.build_td(vals, [("a",), ("b",)] if rng.random() < 0.5 else [("b",), ("a",)], batch)
        if kind == "dense":
            return td
        if kind.startswith("lazy"):
            d = int(kind[-1])
            return lazy_stack([m.clone() for m in td.unbind(d)], d)
        return TCc(a=vals[("a",)], b=vals[("b",)], batch_size=list(batch))
    cmp_ops = [("__eq__", torch.eq), ("__ne__", torch.ne), ("__ge__", torch.ge), ("__gt__", torch.gt), ("__le__", torch.le), ("__lt__", torch.lt)]
    pairs = [(x, y) for x in kinds for y in kinds if not (x == "dense" and y == "dense")]
    for it in range(ctx.n(3, 12)):
        for lk, rk in pairs:
            batch = (2, 3)
            lv = {("a",): L.gen_vals(rng, batch, "smallint"), ("b",): L.gen_vals(rng, batch + (2,), "smallint").double()}
            rv = {("a",): L.gen_vals(rng, batch, "smallint"), ("b",): L.gen_vals(rng, batch + (2,), "smallint").double()}
            lhs, rhs = wrap(lk, lv, batch), wrap(rk, rv, batch)
            for name, tf in cmp_ops:
                case = {"op": name, "lhs": lk, "rhs": rk, "batch": list(batch)}
                run.case(("container_cmp", name, lk, rk, it))
                run.count("container.kind", f"cmp:{lk}-vs-{rk}")
                _check_td(ctx, "container", case, f"cmp:{name}:{lk}-vs-{rk}", lambda: getattr(lhs, name)(rhs),
                          {k: tf(lv[k], rv[k]) for k in lv}, batch)
    # ---- tensorclass
    try:
        TC = _make_tc()
    except Exception as e:  # noqa: BLE001
        TC = None
        run.notes.append(f"tensorclass unavailable: {e}")
    if TC is not None:
        for it in range(n):
            batch = rng.choice([(2, 3), (3,)])
            la = {("a",): L.gen_vals(rng, batch, "int"), ("b",): L.gen_vals(rng, tuple(batch) + (2,), "int")}
            lb = {("a",): L.gen_vals(rng, batch, "int"), ("b",): L.gen_vals(rng, tuple(batch) + (2,), "int")}
            x = TC(a=la[("a",)], b=la[("b",)], batch_size=list(batch))
            ykind = rng.choice(["tc", "td_perm", "scalar", "tensor"])
            if ykind == "tc":
                y = TC(b=lb[("b",)], a=lb[("a",)], batch_size=list(batch)); yl = lb
            elif ykind == "td_perm":
                y = L.build_td(lb, [("b",), ("a",)], batch); yl = lb
            elif ykind == "scalar":
                y = rng.randint(1, 4); yl = {k: y for k in la}
            else:
                t = L.gen_vals(rng, batch, "int"); y = t
                yl = {("a",): t, ("b",): t.unsqueeze(-1)}
            name, tf = rng.choice([("add", torch.add), ("mul", torch.mul), ("sub", torch.sub), ("__eq__", torch.eq), ("__lt__", torch.lt), ("maximum", None)])
            if name == "maximum":
                if ykind == "scalar":
                    continue
                tf = torch.maximum
            case = {"container": "tensorclass", "op": name, "batch": list(batch), "other": ykind}
            run.case(("tc", name, ykind, tuple(batch), it))
            run.count("container.kind", "tensorclass")
            _check_td(ctx, "container", case, f"tc:{name}:{ykind}", lambda: getattr(x, name)(y),
                      {k: tf(la[k], torch.as_tensor(yl[k])) for k in la}, batch)
    # ---- clamp(td, td) and where(cond, td): others matched by key through apply
    for it in range(n):
        batch, s_order, s_leaves = gen_self(ctx, "int", min_leaves=2)
        s_dfs = L.dfs_order(s_order)
        td = L.build_td(s_leaves, s_order, batch, lock=rng.random() < 0.3)
        lo_order, lo = gen_other_td(ctx, s_dfs, batch, "int", "td_same")
        hi_order, hi = gen_other_td(ctx, s_dfs, batch, "int", "td_same")
        hi = {p: torch.maximum(hi[p], lo[p]) for p in hi}
        case = {"op": "clamp", "batch": list(batch), "self": [".".join(p) for p in s_dfs], "min_keys": [".".join(p) for p in L.dfs_order(lo_order)]}
        run.case(("clamp", tuple(s_dfs), tuple(lo_order), tuple(hi_order), tuple(batch)))
        _check_td(ctx, "ternary", case, "clamp:td+td", lambda: td.clamp(L.build_td(lo, lo_order, batch), L.build_td(hi, hi_order, batch)),
                  {p: s_leaves[p].clamp(lo[p], hi[p]) for p in s_leaves}, batch)
        if len(batch):
            cond = L.gen_vals(rng, batch, "bool")
            o_order, o_leaves = gen_other_td(ctx, s_dfs, batch, "int", "td_same")
            case = {"op": "where", "batch": list(batch), "self": [".".join(p) for p in s_dfs], "other_keys": [".".join(p) for p in L.dfs_order(o_order)]}
            run.case(("where", tuple(s_dfs), tuple(o_order), tuple(batch)))
            _check_td(ctx, "ternary", case, "where:td", lambda: td.where(cond, L.build_td(o_leaves, o_order, batch)),
                      {p: torch.where(cond.reshape(list(batch) + [1] * len(L.FEAT[p])), s_leaves[p], o_leaves[p]) for p in s_leaves}, batch)
    # ---- tensordict operand whose batch size broadcasts against self's
    for it in range(n):
        batch = (2, 3)
        paths = rng.sample(L.KEY_POOL, rng.randint(1, 4))
        s_leaves = L.gen_leaves(rng, paths, batch, "int")
        td = L.build_td(s_leaves, paths, batch)
        ob = rng.choice([(1, 3), (2, 1), (1, 1)])
        o_order = list(paths); rng.shuffle(o_order)
        o_leaves = {p: L.gen_vals(rng, tuple(ob) + L.FEAT[p], "int") for p in paths}
        other = L.build_td(o_leaves, o_order, ob)
        name, tf = rng.choice([("add", torch.add), ("mul", torch.mul), ("__eq__", torch.eq)])
        case = {"op": name, "batch": list(batch), "other_batch": list(ob), "keys": [".".join(p) for p in paths]}
        run.case(("td_bcast", name, tuple(paths), ob, it))
        _check_td(ctx, "binary", case, f"{name}:td_broadcast", lambda: getattr(td, name)(other),
                  {p: tf(s_leaves[p], o_leaves[p].expand(list(batch) + list(L.FEAT[p]))) for p in paths}, batch)
    # ---- reduce=True, all / any / logsumexp, prod(keepdim), min/max(return_indices)
    for it in range(n):
        batch = rng.choice([(2, 3), (3,), (2, 1, 3)])
        paths = [("a",), ("b",), ("n", "x")]
        feat = rng.choice([(), (2,)])
        leaves = {p: L.gen_vals(rng, tuple(batch) + feat, "smallint") for p in paths}     # same feature shape: cat along a batch dim is defined
        order = list(paths); rng.shuffle(order)
        td = L.build_td(leaves, order, batch)
        nd = len(batch)
        name = rng.choice(["sum", "prod", "amax", "amin"])
        mode = rng.choice(["all", "feature", "dim"])
        case = {"op": name, "reduce": True, "mode": mode, "batch": list(batch), "feat": list(feat)}
        run.case(("reduce_true", name, mode, tuple(batch), feat, it))
        r = None
        if mode == "all":
            r = L.impl_call(lambda: getattr(td, name)(reduce=True))
            want = getattr(torch.cat([v.reshape(-1) for v in leaves.values()]), name)()
        elif mode == "feature":
            r = L.impl_call(lambda: getattr(td, name)(dim="feature", reduce=True))
            want = getattr(torch.cat([v.reshape(list(batch) + [-1]) for v in leaves.values()], -1), name)(dim=-1)
        else:
            d = rng.randrange(-nd, nd)
            case["dim"] = d
            r = L.impl_call(lambda: getattr(td, name)(dim=d, reduce=True))
            want = getattr(torch.cat([v for v in leaves.values()], d % nd), name)(dim=d % nd)
        if r[0] == "err":
            run.oracle_fail("reduction", case, f"reduce=True raised {r[2]}", f"{name}:reduce:{mode}:raises")
        elif not isinstance(r[1], torch.Tensor) or L.canon_tensor(r[1]) != L.canon_tensor(want):
            run.oracle_fail("reduction", case, f"reduce=True differs from the reduction of the concatenated leaves: {L.canon_tensor(r[1]) if isinstance(r[1], torch.Tensor) else type(r[1])}", f"{name}:reduce:{mode}:values")
        else:
            run.oracle_ok("reduction")
        # all / any
        bl = {p: L.gen_vals(rng, tuple(batch) + feat, "bool") for p in paths}
        tb = L.build_td(bl, order, batch)
        d = rng.randrange(-nd, nd)
        for nm in ("all", "any"):
            run.case(("allany", nm, tuple(batch), d, it))
            _check_td(ctx, "reduction", {"op": nm, "dim": d, "batch": list(batch)}, f"{nm}:dim", lambda: getattr(tb, nm)(dim=d),
                      {p: getattr(v, nm)(dim=d % nd) for p, v in bl.items()}, [b for i, b in enumerate(batch) if i != d % nd])
            r = L.impl_call(lambda: getattr(tb, nm)())
            want = getattr(torch.cat([v.reshape(-1) for v in bl.values()]), nm)().item()
            if r[0] != "ok" or bool(r[1]) != want:
                run.oracle_fail("reduction", {"op": nm, "batch": list(batch)}, f"{nm}() = {r[1] if r[0] == 'ok' else r}", f"{nm}:nodim:values")
            else:
                run.oracle_ok("reduction")
        # logsumexp over batch dims (float: exact same torch call per leaf)
        fl = {p: L.gen_vals(rng, tuple(batch) + feat, "any") for p in paths}
        tf_ = L.build_td(fl, order, batch)
        k = rng.random() < 0.5
        dd = rng.choice([d, tuple(range(nd)), None])
        nds = tuple(range(nd)) if dd is None else ((dd % nd,) if isinstance(dd, int) else dd)
        run.case(("logsumexp", tuple(batch), str(dd), k, it))
        _check_td(ctx, "reduction", {"op": "logsumexp", "dim": str(dd), "keepdim": k, "batch": list(batch)}, "logsumexp",
                  lambda: tf_.logsumexp(dim=dd, keepdim=k), {p: torch.logsumexp(v, dim=nds, keepdim=k) for p, v in fl.items()},
                  [1 if i in nds else b for i, b in enumerate(batch)] if k else [b for i, b in enumerate(batch) if i not in nds])
        # prod(dim, keepdim=True) (front-end post-processing) and min/max with indices
        pd = rng.randrange(-nd, nd)
        run.case(("prod_keepdim", tuple(batch), pd, it))
        _check_td(ctx, "reduction", {"op": "prod", "dim": pd, "keepdim": True, "batch": list(batch)}, "prod:keepdim",
                  lambda: td.prod(dim=pd, keepdim=True), {p: v.prod(dim=pd % nd, keepdim=True) for p, v in leaves.items()},
                  [1 if i == pd % nd else b for i, b in enumerate(batch)])
        nm = rng.choice(["min", "max", "cummin", "cummax"])
        r = L.impl_call(lambda: getattr(td, nm)(dim=pd))
        run.case(("minmax_indices", nm, tuple(batch), pd, it))
        if r[0] == "err":
            run.oracle_fail("reduction", {"op": nm, "dim": pd, "batch": list(batch)}, f"raised {r[2]}", f"{nm}:indices:raises")
        else:
            try:
                gv, gi = leaf_dict(r[1].values), leaf_dict(r[1].indices)
                ok = all(torch.equal(gv[p], getattr(v, nm)(dim=pd % nd).values) and torch.equal(gi[p], getattr(v, nm)(dim=pd % nd).indices) for p, v in leaves.items())
            except Exception:  # noqa: BLE001
                ok = False
            run.oracle_ok("reduction") if ok else run.oracle_fail("reduction", {"op": nm, "dim": pd, "batch": list(batch)}, "values/indices differ from torch per key", f"{nm}:indices:values")
    # ---- norm(): fused, one 0-d result per leaf, batch_size []
    for it in range(ctx.n(10, 60)):
        batch, s_order, s_leaves = gen_self(ctx, "float")
        td = L.build_td(s_leaves, s_order, batch, lock=rng.random() < 0.3)
        run.case(("norm", tuple(s_order), tuple(batch)))
        _check_td(ctx, "unary", {"op": "norm", "batch": list(batch), "self": [".".join(p) for p in L.dfs_order(s_order)]}, "norm",
                  lambda: td.norm(), {p: v.norm() for p, v in s_leaves.items()}, [])
    # ---- dict operand of an arithmetic method: torch gives nothing for (tensor, dict); the code must not return garbage
    td = L.build_td({("a",): torch.tensor([1, 2, 3])}, [("a",)], (3,))
    r = L.impl_call(lambda: td + {"a": torch.tensor([1, 1, 1])})
    run.case(("dict_arith",))
    if r[0] == "ok" and (not hasattr(r[1], "batch_size") or not torch.equal(r[1]["a"], torch.tensor([2, 3, 4]))):
        run.oracle_fail("binary", {"op": "__add__", "other": "dict"}, "td + dict returned something else than the keyed sum", "__add__:dict:values")
    else:
        run.oracle_ok("binary")


# =========================================================================== reduce=True (modelled)

def stream_reduce_true(ctx: Ctx):
    run, rng = ctx.run, ctx.rng
    names = ["sum", "nansum", "prod", "amax", "amin", "max", "min", "mean", "nanmean", "std", "var"]
    import tensordict.base as B
    names = [n for n in names if "reduce" in inspect.signature(getattr(B.TensorDictBase, n)).parameters]
    for it in range(ctx.n(400, 2400)):
        name = rng.choice(names)
        batch = rng.choice([(2, 3), (3,), (2, 1, 3)])
        nd = len(batch)
        spell = rng.choice(["nodef", "nodef", "feature", "feature", "int", "int", "tuple", "none"])
        paths = [("a",), ("b",), ("n", "x")]
        order = list(paths); rng.shuffle(order)
        kind = "smallint" if name in ("sum", "prod", "amax", "amin", "max", "min") else "float"
        if spell in ("nodef", "feature"):
            # leaves with DIFFERENT numbers of elements: reducing leaf by leaf and combining is not the reduction of all values
            feats = {p: f for p, f in zip(paths, rng.sample([(), (2,), (3,), (2, 2), (1,)], 3))}
        else:
            f0 = rng.choice([(), (2,)])
            feats = {p: f0 for p in paths}
        leaves = {p: L.gen_vals(rng, tuple(batch) + feats[p], kind) for p in paths}
        if name in ("nansum", "nanmean") and rng.random() < 0.7:
            for p in paths:     # a different number of NaNs in every leaf
                flat_ = leaves[p].reshape(-1)
                for i in rng.sample(range(flat_.numel()), rng.randint(0, max(0, flat_.numel() - 1))):
                    flat_[i] = float("nan")
        td = L.build_td(leaves, order, batch, lock=rng.random() < 0.3)
        dfs = L.dfs_order(order)
        feat = feats[paths[0]]
        keep = rng.choice(["nodef", "nodef", True, False]) if name not in ("prod",) else "nodef"
        kw = {"reduce": True}
        if spell == "nodef":
            dim_sx = "nodef"
        elif spell == "feature":
            dim_sx = "feature"; kw["dim"] = "feature"
        elif spell == "none":
            dim_sx = None; kw["dim"] = None
        elif spell == "int":
            d = rng.randint(-nd - 1, nd); dim_sx = ["int", d]; kw["dim"] = d
        else:
            t = tuple(rng.sample(range(-nd, nd), rng.randint(1, min(2, nd))))
            if len({x % nd for x in t}) < len(t) or name in ("prod", "max", "min"):
                continue
            dim_sx = ["tuple"] + list(t); kw["dim"] = t
        if keep != "nodef":
            kw["keepdim"] = keep
        # keyword arguments of the torch reduction must reach it on the reduce=True path too
        xkw = {}
        if name in ("std", "var") and rng.random() < 0.5:
            xkw = {"correction": rng.choice([0, 2])}
        elif name in ("sum", "prod", "mean", "nansum", "nanmean") and rng.random() < 0.3:
            xkw = {"dtype": torch.float64 if kind == "smallint" else torch.float32}
        kw.update(xkw)
        case = {"op": name, "batch": list(batch), "feats": {".".join(p): list(f) for p, f in feats.items()}, "order": [".".join(p) for p in dfs],
                "dim": str(kw.get("dim", "absent")), "keepdim": str(keep), "kwargs": str(xkw)}
        run.case(("reduce_true", name, tuple(batch), str(feats), str(dim_sx), str(keep), tuple(dfs), str(xkw)), nontrivial=True)
        if xkw:
            run.count("reduce_true.kwarg", list(xkw)[0])
        run.count("reduce_true.dim", spell)
        ans = parse_sx(ctx.drv.ask(sx("c09.reduce_true", list(batch), dim_sx, keep if keep != "nodef" else "nodef")))
        vals = [leaves[p] for p in dfs]          # `_values_list(True, True)` order
        try:
            if ans[0] == "err":
                model = ["err", ans[1]]
            elif ans[1] == "flatall":
                model = ["ok", _canon_any(getattr(torch, name)(torch.cat([v.contiguous().flatten() for v in vals], 0), **xkw))]
            elif ans[1] == "feature":
                vv = [(v.flatten(nd, -1) if v.ndim > nd else v.unsqueeze(-1)) for v in vals]
                model = ["ok", _canon_any(getattr(torch, name)(torch.cat(vv, -1), dim=-1, keepdim=False, **xkw))]
            else:
                _, c, ds, single, kd = ans[1]
                k2 = {} if kd == "nodef" else {"keepdim": kd == "true"}
                model = ["ok", _canon_any(getattr(torch, name)(torch.cat(vals, c), dim=(ds[0] if single == "true" else tuple(ds)), **k2, **xkw))]
        except Exception as e:  # noqa: BLE001  torch rejects the call the model (and the code) makes
            model = ["err", err_class(e)]
        r = L.impl_call(lambda: getattr(td, name)(**kw))
        impl = ["err", r[1]] if r[0] == "err" else ["ok", _canon_any(r[1])]
        run.corr("reduce_true", case, impl, model)
        # oracle, independent of the model: torch on the concatenation of ALL values (no dim) / of the flattened features
        if spell in ("nodef", "feature") and keep is not True:
            try:
                if spell == "nodef":
                    want = getattr(torch, name)(torch.cat([v.reshape(-1) for v in leaves.values()]), **xkw)
                else:
                    want = getattr(torch, name)(torch.cat([v.reshape(list(batch) + [-1]) for v in leaves.values()], -1), dim=-1, **xkw)
                want = _canon_any(want)
            except Exception:  # noqa: BLE001
                want = None
            if want is None:
                run.count("reduce_true.oracle_skipped", spell)
            elif impl[0] != "ok":
                run.oracle_fail("reduction", case, f"reduce=True raised {r[2] if r[0] == 'err' else impl}", f"{name}:reduce:{spell}:raises")
            elif not _close(impl[1][1] if impl[1][0] == "tuple" else impl[1], want[1] if want[0] == "tuple" else want):
                # (for min/max only the values are compared: indices into the concatenation depend on the concatenation order)
                run.oracle_fail("reduction", case, f"reduce=True gives {str(impl[1])[:120]}, torch on all the values gives {str(want)[:120]}", f"{name}:reduce:{spell}:values")
            else:
                run.oracle_ok("reduction")


def _canon_any(x):
    """tensor, or a (values, indices) named tuple"""
    if isinstance(x, torch.Tensor):
        return L.canon_tensor(x)
    if isinstance(x, tuple) and hasattr(x, "values"):
        return ["tuple", L.canon_tensor(x.values), L.canon_tensor(x.indices)]
    return ["py", type(x).__name__]


def _close(a, b):
    """canonical tensors equal up to a relative 1e-9 on floats (the concatenation order of the oracle may differ)"""
    if a == b:
        return True
    if a[0] == "tuple" or b[0] == "tuple" or a[:2] != b[:2]:
        return False
    for x, y in zip(a[2], b[2]):
        if x == y:
            continue
        if isinstance(x, str) or isinstance(y, str):
            return False
        if abs(x - y) > 1e-9 * max(1.0, abs(x), abs(y)):
            return False
    return True


# =========================================================================== container matrix (oracle only)

def container_matrix(ctx: Ctx):
    """every container kind x {unary, scalar / tensor / same-kind tensordict operand, in-place, reductions (per entry and
    reduce=True), all/any}: per-key torch on the dense values; leaves have different feature shapes"""
    run, rng = ctx.run, ctx.rng
    from tensordict import TensorDict, lazy_stack
    from tensordict.nn import TensorDictParams
    site = "container"
    kinds = ["lazy0", "lazy1", "sub_td", "params", "nested_lazy"]
    feats = {("a",): (), ("b",): (2,), ("n", "x"): (3,), ("n", "y"): ()}

    def make(kind, vals, batch):
        order = list(vals)
        rng.shuffle(order)
        td = L.build_td({p: v.clone() for p, v in vals.items()}, order, batch)
        if kind == "lazy0":
            return lazy_stack([m.clone() for m in td.unbind(0)], 0)
        if kind == "lazy1":
            return lazy_stack([m.clone() for m in td.unbind(1)], 1)
        if kind == "sub_td":
            big = L.build_td({p: torch.cat([v, v + 1000], 0) for p, v in vals.items()}, order, (2 * batch[0],) + tuple(batch[1:]))
            return big._get_sub_tensordict(slice(0, batch[0]))
        if kind == "params":
            return TensorDictParams(td, no_convert=True)
        if kind == "nested_lazy":      # a plain tensordict whose nested entry "n" is a lazy stack
            n = td.get("n")
            td2 = td.exclude("n")
            td2["n"] = lazy_stack([m.clone() for m in n.unbind(0)], 0)
            return td2
        return td
    n_it = ctx.n(4, 25)
    for it in range(n_it):
        for kind in kinds:
            batch = (2, 3)
            fl = kind == "params" or rng.random() < 0.5
            vals = {p: (L.gen_vals(rng, batch + f, "float") if fl else L.gen_vals(rng, batch + f, "smallint")) for p, f in feats.items()}
            base = {"container": kind, "batch": list(batch), "float": fl}

            def chk(label, call, expected, bs=batch):
                run.case(("container_matrix", kind, label, it))
                run.count("container.kind", f"matrix:{kind}")
                with torch.no_grad():
                    _check_td(ctx, site, dict(base, op=label), f"matrix:{kind}:{label}", call, expected, bs)

            def chk_tensor(label, call, want):
                run.case(("container_matrix", kind, label, it))
                run.count("container.kind", f"matrix:{kind}")
                with torch.no_grad():
                    r = L.impl_call(call)
                fp = f"matrix:{kind}:{label}"
                if want is None:
                    run.count("container.oracle_skipped", fp)
                elif r[0] == "err":
                    run.oracle_fail(site, dict(base, op=label), f"raised {r[2]}", fp + f":raises:{r[1]}")
                elif not isinstance(r[1], torch.Tensor) or not _close(L.canon_tensor(r[1]), L.canon_tensor(want)):
                    run.oracle_fail(site, dict(base, op=label), f"got {L.canon_tensor(r[1]) if isinstance(r[1], torch.Tensor) else type(r[1])}, torch on all values gives {L.canon_tensor(want)}", fp + ":values")
                else:
                    run.oracle_ok(site)
            c = make(kind, vals, batch)
            chk("neg", lambda: c.neg(), {p: -v for p, v in vals.items()})
            chk("abs", lambda: abs(c), {p: v.abs() for p, v in vals.items()})
            chk("mul_scalar", lambda: c * 3, {p: v * 3 for p, v in vals.items()})
            chk("rsub_scalar", lambda: 2 - c, {p: 2 - v for p, v in vals.items()})
            t = L.gen_vals(rng, batch, "float" if fl else "smallint")
            chk("add_tensor", lambda: c + t, {p: v + t.reshape(batch + (1,) * (v.ndim - 2)) for p, v in vals.items()})
            ovals = {p: (L.gen_vals(rng, batch + f, "float") if fl else L.gen_vals(rng, batch + f, "smallint")) for p, f in feats.items()}
            if kind not in ("nested_lazy",):
                o = make(kind if kind != "params" else "dense", ovals, batch)
                chk("sub_same_kind", lambda: c - o, {p: vals[p] - ovals[p] for p in vals})
                chk("maximum_same_kind", lambda: c.maximum(o), {p: torch.maximum(vals[p], ovals[p]) for p in vals})
            if kind not in ("params",):
                c2 = make(kind, vals, batch)
                chk("iadd_scalar", lambda: c2.add_(5), {p: v + 5 for p, v in vals.items()})
                c3 = make(kind, vals, batch)
                chk("mul__tensor", lambda: c3.mul_(t), {p: v * t.reshape(batch + (1,) * (v.ndim - 2)) for p, v in vals.items()})
            # reductions per entry
            d = rng.choice([0, 1, -1, -2])
            chk(f"sum(dim)", lambda: c.sum(dim=d), {p: v.sum(d % 2) for p, v in vals.items()}, [b for i, b in enumerate(batch) if i != d % 2])
            chk(f"amax(dim,keepdim)", lambda: c.amax(dim=d, keepdim=True), {p: v.amax(d % 2, keepdim=True) for p, v in vals.items()},
                [1 if i == d % 2 else b for i, b in enumerate(batch)])
            if fl:
                chk("mean(feature)", lambda: c.mean(dim="feature"), {p: (v.flatten(2, -1) if v.ndim > 2 else v.unsqueeze(-1)).mean(-1) for p, v in vals.items()}, batch)
            # reduce=True over leaves of different sizes
            allv = torch.cat([v.reshape(-1) for v in vals.values()])
            chk_tensor("sum(reduce)", lambda: c.sum(reduce=True), allv.sum())
            chk_tensor("amax(reduce)", lambda: c.amax(reduce=True), allv.amax())
            if fl:
                chk_tensor("mean(reduce)", lambda: c.mean(reduce=True), allv.mean())
                chk_tensor("std(reduce)", lambda: c.std(reduce=True), allv.std())
                featcat = torch.cat([v.reshape(list(batch) + [-1]) for v in vals.values()], -1)
                chk_tensor("mean(feature,reduce)", lambda: c.mean(dim="feature", reduce=True), featcat.mean(-1))
            # reduce=True with an explicit batch dim / torch keyword arguments (leaves of one shape so that they concatenate)
            svals = {p: L.gen_vals(rng, batch + (2,), "float") for p in feats}
            cs = make(kind, svals, batch)
            chk_tensor("sum(dim,reduce)", lambda: cs.sum(dim=d, reduce=True), torch.cat(list(svals.values()), d % 2).sum(d % 2))
            chk_tensor("amax(dim,reduce,keepdim)", lambda: cs.amax(dim=d, reduce=True, keepdim=True), torch.cat(list(svals.values()), d % 2).amax(d % 2, keepdim=True))
            chk_tensor("std(reduce,correction=0)", lambda: cs.std(reduce=True, correction=0), torch.cat([v.reshape(-1) for v in svals.values()]).std(correction=0))
            chk_tensor("var(dim,reduce,correction=0)", lambda: cs.var(dim=d, reduce=True, correction=0), torch.cat(list(svals.values()), d % 2).var(d % 2, correction=0))
            # all / any
            bvals = {p: v > 0 for p, v in vals.items()}
            cb = make(kind if kind != "params" else "dense", bvals, batch)
            chk("any(dim)", lambda: cb.any(dim=d), {p: v.any(d % 2) for p, v in bvals.items()}, [b for i, b in enumerate(batch) if i != d % 2])
            r = L.impl_call(lambda: cb.all())
            run.case(("container_matrix", kind, "all()", it))
            want = all(bool(v.all()) for v in bvals.values())
            if r[0] != "ok" or bool(r[1]) != want:
                run.oracle_fail(site, dict(base, op="all()"), f"all() = {r[1] if r[0] == 'ok' else r[2]} expected {want}", f"matrix:{kind}:all():values")
            else:
                run.oracle_ok(site)


# =========================================================================== lazy stacks as operands (modelled)

def stream_lazy_binary(ctx: Ctx):
    """self is a lazy stack; the operand is a lazy stack along the same dim, a lazy stack along the other dim, a regular
    tensordict, a batch-shaped tensor or a scalar. Model: Model/C09KV.lazyBinopRepaired (members keyed (i, key))."""
    run, rng = ctx.run, ctx.rng
    from tensordict import LazyStackedTensorDict, lazy_stack
    ops = [("add", False), ("mul", False), ("sub", False), ("maximum", False), ("add_", True), ("mul_", True), ("sub_", True)]
    for it in range(ctx.n(300, 1500)):
        name, inplace = rng.choice(ops)
        ref = L.ref_op(name)
        batch = rng.choice([(2, 3), (2, 2), (3, 2)])
        d = rng.choice([0, 1])
        n = batch[d]
        paths = rng.sample(L.KEY_POOL, rng.randint(1, 4))
        dense_s = L.gen_leaves(rng, paths, batch, "int")
        # members, each inserted in its own order; half of the stacks carry dim names (members and stack dim)
        named = rng.random() < 0.5
        mem_orders, members = [], []
        for i in range(n):
            o = list(paths); rng.shuffle(o)
            mem_orders.append(L.dfs_order(o))
            members.append(L.build_td({p: dense_s[p].select(d, i).clone() for p in paths}, o, tuple(b for j, b in enumerate(batch) if j != d),
                                      names=[NAMES[j] for j in range(len(batch)) if j != d] if named else None))
        lz = LazyStackedTensorDict(*members, stack_dim=d, stack_dim_name=NAMES[d]) if named else lazy_stack(members, d)
        okind = rng.choice(["same", "same", "otherdim", "dense", "dense", "tensor", "scalar"])
        if name in ("maximum",) and okind == "scalar":
            okind = "tensor"
        rel = rng.choice(["same", "same", "same", "missing", "extra"]) if okind in ("same", "otherdim", "dense") else "same"
        o_paths = list(paths)
        if rel == "missing" and len(o_paths) > 1:
            o_paths = o_paths[:-1]
        elif rel == "missing":
            rel = "same"
        if rel == "extra":
            o_paths = o_paths + [rng.choice(L.EXTRA_POOL)]
        dense_o, other, o_sx, tensor = {}, None, None, None
        if okind in ("same", "otherdim", "dense"):
            dense_o = L.gen_leaves(rng, o_paths, batch, "int")
            oo = list(o_paths); rng.shuffle(oo)
            if okind == "dense":
                other = L.build_td(dense_o, oo, batch)
            else:
                dd = d if okind == "same" else 1 - d
                oms = []
                for i in range(batch[dd]):
                    o2 = list(o_paths); rng.shuffle(o2)
                    oms.append(L.build_td({p: dense_o[p].select(dd, i).clone() for p in o_paths}, o2, tuple(b for j, b in enumerate(batch) if j != dd)))
                other = lazy_stack(oms, dd)
            keys_sx = L.paths_sx(L.dfs_order(oo))
            o_sx = ["same", [keys_sx for _ in range(n)]] if okind == "same" else ["split", [["td", keys_sx] for _ in range(n)]]
        elif okind == "tensor":
            tensor = L.gen_vals(rng, batch, "int")
            other = tensor
            o_sx = ["split", [["sc"] for _ in range(n)]]
        else:
            other = rng.randint(1, 3)
            o_sx = ["sc"]
        case = {"op": name, "batch": list(batch), "stack_dim": d, "members": [[".".join(p) for p in mo] for mo in mem_orders],
                "other": okind, "keys": rel, "other_keys": [".".join(p) for p in o_paths] if dense_o else None, "named": named}
        run.case(("lazy_binary", name, okind, rel, tuple(batch), d, tuple(map(tuple, mem_orders)), named), nontrivial=okind != "scalar")
        run.count("lazy_binary.other", f"{okind}:{rel}")
        ans = parse_sx(ctx.drv.ask(sx("c09.lazy_binop", "inplace" if inplace else "out", [L.paths_sx(mo) for mo in mem_orders], o_sx, None)))
        # ---- model evaluated with torch
        if ans[0] == "err":
            model = ["err", ans[1]]
        else:
            try:
                mem_out = []
                for i, m in enumerate(ans[1:]):
                    out = {}
                    for ent in m:
                        path = tuple(ent[0])

                        def ev(t, i=i, path=path):
                            if t[0] == "l":
                                side, key = t[1], tuple(str(x) for x in t[2])
                                j, pth = int(key[0]), key[1:]
                                src = dense_s if side == 0 else dense_o
                                return src[pth].select(d, j)
                            if t[0] == "sc":
                                if tensor is not None:
                                    sl = tensor.select(d, i)
                                    return sl.reshape(list(sl.shape) + [1] * len(L.FEAT[path]))
                                return other
                            return ref(*[ev(x) for x in t[1:]])
                        out[path] = ev(ent[1])
                    mem_out.append(L.canon_kv(out))
                model = ["ok", mem_out]
            except Exception as e:  # noqa: BLE001
                model = ["ref-undefined", err_class(e)]
        r = L.impl_call(lambda: getattr(lz, name)(other))
        if r[0] == "err":
            impl = ["err", r[1]]
        else:
            res = lz if inplace else r[1]
            if inplace and r[1] is not lz:
                impl = ["not-self"]
            elif not isinstance(res, LazyStackedTensorDict) or res.stack_dim != d:
                impl = ["not-a-lazy-stack", type(res).__name__]
            else:
                impl = ["ok", [L.canon_kv(leaf_dict(m)) for m in res.tensordicts]]
        if model[0] != "ref-undefined":
            run.corr("lazy_binary", case, impl, model)
        # ---- oracle on the dense values
        if okind in ("same", "otherdim", "dense"):
            if set(o_paths) != set(paths):
                run.oracle_ok("container") if impl[0] == "err" else run.oracle_fail(
                    "container", case, "key sets differ but the call returned a result", f"lazyop:{name}:{okind}:no-raise")
                continue
            want = {p: ref(dense_s[p], dense_o[p]) for p in paths}
        elif okind == "tensor":
            want = {p: ref(dense_s[p], tensor.reshape(list(batch) + [1] * len(L.FEAT[p]))) for p in paths}
        else:
            want = {p: ref(dense_s[p], other) for p in paths}
        if impl[0] != "ok":
            run.oracle_fail("container", case, f"raised / wrong type: {r[2] if r[0] == 'err' else impl}", f"lazyop:{name}:{okind}:raises")
        else:
            res = lz if inplace else r[1]
            got = {p: res.get(p if len(p) > 1 else p[0]) for p in paths}
            if L.canon_kv(got) != L.canon_kv(want):
                run.oracle_fail("container", case, "values differ from the per-key torch op on the stacked entries", f"lazyop:{name}:{okind}:values")
            elif named and list(res.names) != list(lz.names):
                run.oracle_fail("container", case, f"the result's dim names {list(res.names)} are not self's {list(lz.names)}", f"lazyop:{name}:{okind}:names")
            else:
                run.oracle_ok("container")


# =========================================================================== clamp / where (modelled)

def stream_clamp_where(ctx: Ctx):
    run, rng = ctx.run, ctx.rng
    # ---- clamp(min, max)
    for it in range(ctx.n(350, 2000)):
        batch, s_order, s_leaves = gen_self(ctx, "int")
        s_dfs = L.dfs_order(s_order)
        td = L.build_td(s_leaves, s_order, batch, lock=rng.random() < 0.3)
        kinds = rng.choice([("td", "td"), ("td", "td"), ("td", "td"), ("none", "td"), ("td", "none"), ("sc", "sc"), ("none", "sc"), ("sc", "none"),
                            ("t0", "t0"), ("tn", "tn"), ("td", "sc"), ("sc", "td"), ("none", "tn")])
        if len(batch) == 0:
            kinds = tuple("t0" if k == "tn" else k for k in kinds)
        bounds, sxs, bleaves = [], [], []
        for side, kd in enumerate(kinds, 1):
            if kd == "none":
                bounds.append(None); sxs.append(None); bleaves.append({})
            elif kd == "td":
                mode = rng.choice(["td_same", "td_same", "td_same", "td_missing", "td_extra"])
                o_order, o_leaves = gen_other_td(ctx, s_dfs, batch, "int", mode)
                bounds.append(L.build_td(o_leaves, o_order, batch, lock=rng.random() < 0.3))
                sxs.append(["td", L.paths_sx(L.dfs_order(o_order))]); bleaves.append(o_leaves)
            elif kd == "sc":
                bounds.append(rng.randint(-20, 20)); sxs.append(["sc"]); bleaves.append({})
            elif kd == "t0":
                bounds.append(L.gen_vals(rng, (), "int")); sxs.append(["sc"]); bleaves.append({})
            else:
                bounds.append(L.gen_vals(rng, tuple(batch), "int")); sxs.append(["sc"]); bleaves.append({})
        case = {"op": "clamp", "batch": list(batch), "self": [".".join(p) for p in s_dfs], "min": kinds[0], "max": kinds[1],
                "min_keys": [".".join(p) for p in bleaves[0]], "max_keys": [".".join(p) for p in bleaves[1]]}
        run.case(("clamp", kinds, tuple(s_dfs), tuple(bleaves[0]), tuple(bleaves[1]), tuple(batch), it), nontrivial=True)
        run.count("clamp.bounds", "+".join(kinds))
        ans = parse_sx(ctx.drv.ask(sx("c09.clamp", L.paths_sx(s_dfs), sxs[0], sxs[1])))

        def operand(side, path):
            b = bounds[side - 1]
            if isinstance(b, torch.Tensor) and b.ndim:
                return b.reshape(list(b.shape) + [1] * len(L.FEAT[path]))
            return b
        if ans[0] == "err":
            model = ["err", ans[1]]
        else:
            try:
                out = {}
                for ent in ans[1:]:
                    path = tuple(ent[0])

                    def ev(t, path=path):
                        if t[0] == "l":
                            src = s_leaves if t[1] == 0 else bleaves[t[1] - 1]
                            return src[tuple(t[2])]
                        if t[0] == "sc":
                            return None if t[1] == 0 else operand(t[1], path)
                        args = t[1:]
                        if args[0][0] == "sc" and args[0][1] == 91:
                            return torch.clamp_max(ev(args[1]), ev(args[2]))
                        if args[0][0] == "sc" and args[0][1] == 92:
                            return torch.clamp_min(ev(args[1]), ev(args[2]))
                        x, lo, hi = [ev(a) for a in args]
                        return x.clamp(lo, hi)
                    out[path] = ev(ent[1])
                model = canon_result("ok", out, batch)
            except Exception as e:  # noqa: BLE001
                model = ["ref-undefined", err_class(e)]
        r = L.impl_call(lambda: td.clamp(bounds[0], bounds[1]))
        impl = ["err", r[1]] if r[0] == "err" else (canon_result("ok", leaf_dict(r[1]), r[1].batch_size) if hasattr(r[1], "batch_size") else ["not-a-td"])
        if model[0] != "ref-undefined":
            run.corr("clamp", case, impl, model)
        # oracle: torch.clamp per key with the bounds' entries under the same key (only when every bound has every key of self)
        try:
            if all(k in ("td",) for k in kinds) and all(set(bl) >= set(s_leaves) for bl in bleaves):
                want = {p: torch.clamp(v, bleaves[0][p], bleaves[1][p]) for p, v in s_leaves.items()}
            elif "td" not in kinds and not (kinds[0] == "none" and kinds[1] == "none"):
                want = {p: torch.clamp(v, operand(1, p), operand(2, p)) for p, v in s_leaves.items()}
            else:
                want = None
        except Exception:  # noqa: BLE001
            want = None
        if want is None:
            run.count("clamp.oracle_skipped", "+".join(kinds))
        elif impl[0] != "ok":
            run.oracle_fail("ternary", case, f"raised {r[2] if r[0] == 'err' else impl} where torch.clamp gives a value for every key", f"clamp:{'+'.join(kinds)}:raises")
        elif impl != canon_result("ok", want, batch):
            run.oracle_fail("ternary", case, "differs from torch.clamp(x, lower, upper) per key (mind lower > upper)", f"clamp:{'+'.join(kinds)}:values")
        else:
            run.oracle_ok("ternary")
    # ---- where(condition, other_td, pad=…)
    for it in range(ctx.n(250, 1500)):
        batch, s_order, s_leaves = gen_self(ctx, "int")
        if len(batch) == 0:
            continue
        s_dfs = L.dfs_order(s_order)
        td = L.build_td(s_leaves, s_order, batch, lock=rng.random() < 0.3)
        mode = rng.choice(["td_same", "td_same", "td_missing", "td_extra", "td_both"])
        o_order, o_leaves = gen_other_td(ctx, s_dfs, batch, "int", mode)
        o_dfs = L.dfs_order(o_order)
        other = L.build_td(o_leaves, o_order, batch)
        pad = rng.choice([None, None, 7])
        cond = L.gen_vals(rng, tuple(batch), "bool")
        case = {"op": "where", "batch": list(batch), "self": [".".join(p) for p in s_dfs], "other": mode, "other_keys": [".".join(p) for p in o_dfs], "pad": pad}
        run.case(("where", mode, tuple(s_dfs), tuple(o_dfs), tuple(batch), str(pad), it), nontrivial=True)
        run.count("where.other", f"{mode}:pad={pad}")
        ans = parse_sx(ctx.drv.ask(sx("c09.where", L.paths_sx(s_dfs), L.paths_sx(o_dfs), "pad" if pad is not None else None)))
        if ans[0] == "err":
            model = ["err", ans[1]]
        else:
            out = {}
            for ent in ans[1:]:
                path = tuple(ent[0])
                t = ent[1]
                cexp = cond.reshape(list(batch) + [1] * len(L.FEAT[path]))

                def ev(a, cexp=cexp):
                    if a[0] == "l":
                        return (s_leaves if a[1] == 0 else o_leaves)[tuple(a[2])]
                    if a[1] == 7:
                        return cexp
                    if a[1] == 8:
                        return ~cexp
                    return torch.tensor(pad, dtype=torch.int64)
                c, x, y = [ev(a) for a in t[1:]]
                out[path] = torch.where(c, x, y)
            model = canon_result("ok", out, batch)
        r = L.impl_call(lambda: td.where(cond, other, pad=pad))
        impl = ["err", r[1]] if r[0] == "err" else canon_result("ok", leaf_dict(r[1]), r[1].batch_size)
        run.corr("where", case, impl, model)
        if set(o_leaves) == set(s_leaves):
            want = {p: torch.where(cond.reshape(list(batch) + [1] * len(L.FEAT[p])), v, o_leaves[p]) for p, v in s_leaves.items()}
            if impl != canon_result("ok", want, batch):
                run.oracle_fail("ternary", case, "differs from torch.where(cond, self[k], other[k]) per key", "where:td:values")
            else:
                run.oracle_ok("ternary")
        elif pad is None:
            run.oracle_ok("ternary") if impl[0] == "err" else run.oracle_fail("ternary", case, "key sets differ, no pad, but no exception", "where:td:no-raise")


# =========================================================================== reduce=True without dim: value level

def stream_reduce_all(ctx: Ctx):
    """td.<op>(reduce=True) against Model/C09KV.reduceAll: exact integer / NaN values, leaves of different sizes and NaN counts"""
    run, rng = ctx.run, ctx.rng
    import tensordict.base as B
    names = [n for n in ("sum", "nansum", "prod", "mean", "nanmean", "amax", "amin")
             if "reduce" in inspect.signature(getattr(B.TensorDictBase, n)).parameters]
    for it in range(ctx.n(250, 2500)):
        name = rng.choice(names)
        batch = rng.choice([(2,), (3,), (2, 2), (1,)])
        paths = [("a",), ("b",), ("n", "x"), ("n", "m", "y")][: rng.randint(1, 4)]
        order = list(paths); rng.shuffle(order)
        feats = {p: rng.choice([(), (2,), (3,), (1,), (2, 2)]) for p in paths}
        leaves, sent = {}, {}
        for p in paths:
            shape = tuple(batch) + feats[p]
            n = 1
            for s in shape:
                n *= s
            pool = [-2, -1, 1, 2] if name == "prod" else [-4, -3, -2, -1, 0, 1, 2, 3, 4, 5]
            vals = [float(rng.choice(pool)) for _ in range(n)]
            if name != "prod" or n <= 12:
                pass
            if rng.random() < (0.6 if name in ("nansum", "nanmean") else 0.15):
                for i in rng.sample(range(n), rng.randint(0, n)):
                    vals[i] = float("nan")
            leaves[p] = torch.tensor(vals, dtype=torch.float64 if name == "prod" else torch.float32).reshape(shape)
            sent[p] = ["nan" if v != v else int(v) for v in vals]
        td = L.build_td(leaves, order, batch, lock=rng.random() < 0.2)
        dfs = L.dfs_order(order)
        case = {"op": name, "batch": list(batch), "order": [".".join(p) for p in dfs], "leaves": {".".join(p): sent[p] for p in dfs}}
        run.case(("reduce_all", name, tuple(batch), str(case["leaves"])), nontrivial=True)
        run.count("reduce_all.op", name)
        run.count("reduce_all.nleaves", len(paths))
        ans = parse_sx(ctx.drv.ask(sx("c09.reduce_all", name, [[list(p), sent[p]] for p in dfs])))
        if ans[0] == "err":
            model, want = ["err"], None
        elif ans[0] == "nan":
            model, want = ["nan"], None
        elif ans[0] == "int":
            model, want = ["num", str(int(ans[1]))], float(int(ans[1]))
        else:
            model, want = ["num", f"{int(ans[1])}/{int(ans[2])}"], int(ans[1]) / int(ans[2])
        r = L.impl_call(lambda: getattr(td, name)(reduce=True))
        if r[0] == "err":
            impl = ["err"]
        else:
            x = r[1]
            if not isinstance(x, torch.Tensor) or x.ndim != 0:
                impl = ["not-a-scalar", str(type(x).__name__), str(getattr(x, "shape", None))]
            else:
                x = float(x)
                if x != x:
                    impl = ["nan"]
                elif want is not None and abs(x - want) <= 1e-5 * max(1.0, abs(want)):
                    impl = model
                else:
                    impl = ["num", repr(x)]
        run.corr("reduce_all", case, impl, model)


# =========================================================================== other container kinds against the SAME model

def stream_binary_containers(ctx: Ctx):
    """a tensorclass / a sub-tensordict as self of the fused binary ops, in-place forms and operators: same Lean model, same oracle"""
    run, rng = ctx.run, ctx.rng
    ops = _binary_ops(ctx)
    per = ctx.n(12, 80)
    for kind in ("tensorclass", "sub_td", "params"):
        for op in ops:
            ref = L.ref_op(op["name"])
            for _ in range(per):
                om = rng.choice(OTHER_MODES_OUT)
                if op["name"] in ("maximum", "minimum") and om == "scalar":
                    om = "t0"
                dm = "none"
                if op["default"] and om.startswith("td_") and rng.random() < 0.45:
                    dm = rng.choice(["inter", "val"])
                    if kind == "tensorclass" and om in ("td_extra", "td_both"):
                        dm = "inter"     # a tensorclass cannot hold entries that are not fields of its class: default=<value> raises ValueError by design
                run_binary_case(ctx, op["name"], ref, op["self_kind"], op["other_kind"], "out", om, dm, "binary_containers", container=kind)
            if op["inplace"]:
                for _ in range(per // 2):
                    om = rng.choice(OTHER_MODES_INPLACE)
                    if op["name"] in ("maximum", "minimum") and om == "scalar":
                        om = "t0"
                    run_binary_case(ctx, op["inplace"], ref, op["self_kind"], op["other_kind"], "inplace", om, "none", "binary_containers", container=kind)
        # lerp / addcmul / addcdiv and their in-place forms
        for name in TERN:
            for _ in range(ctx.n(10, 60)):
                run_ternary_case(ctx, name, rng.random() < 0.4, container=kind)
        # reduction front-ends (batch size, names, nested names, what torch is asked for every leaf)
        import tensordict.base as B
        for name, (tok, con, fb, rkind, accepts_keep) in RED.items():
            if not hasattr(B.TensorDictBase, name):
                continue
            for _ in range(ctx.n(6, 40)):
                batch = rng.choice(RED_BATCHES)
                sp = rng.choice(dim_spellings(len(batch), tok))
                keep = rng.choice(("nodef", True, False) if accepts_keep else ("nodef",))
                names = rng.choice((None, NAMES[:len(batch)])) if len(batch) else None
                run_reduction_case(ctx, name, batch, names, sp, keep, container=kind)
        # the comparison operators (`_td.py`) with the same containers as self
        for name in L.COMPARE + L.BITWISE_CMP_STYLE:
            for _ in range(ctx.n(8, 60)):
                run_compare_case(ctx, name, rng.choice(["smallint", "bool"]), container=kind, site="compare_containers")


# =========================================================================== comparisons with a lazy stack on the left

_CMP_REF = {"__eq__": torch.eq, "__ne__": torch.ne, "__ge__": torch.ge, "__gt__": torch.gt, "__le__": torch.le, "__lt__": torch.lt}
_CMP_REFLECTED = {"__eq__": "__eq__", "__ne__": "__ne__", "__ge__": "__le__", "__gt__": "__lt__", "__le__": "__ge__", "__lt__": "__gt__"}


def stream_lazy_compare(ctx: Ctx):
    """lazy_stack <cmp> other against Model/C09KV.lazyCmp: tensorclass operands are evaluated on their side with the REFLECTED
    operator (tied values tell the reflection from the inverse), collections are unbound along self's stack dim"""
    run, rng = ctx.run, ctx.rng
    from typing import Any
    from tensordict import LazyStackedTensorDict, is_tensorclass, lazy_stack, tensorclass
    for it in range(ctx.n(300, 2400)):
        name = rng.choice(list(_CMP_REF))
        ref, rref = _CMP_REF[name], _CMP_REF[_CMP_REFLECTED[name]]
        batch = rng.choice([(2, 3), (2, 2), (3, 2)])
        d = rng.choice([0, 1])
        n = batch[d]
        paths = rng.sample(L.KEY_POOL, rng.randint(1, 4))

        def tied(ps):
            return {p: torch.tensor([rng.choice([0, 1, 1, 2]) for _ in range(int(torch.tensor(tuple(batch) + L.FEAT[p]).prod()))],
                                    dtype=torch.int64).reshape(tuple(batch) + L.FEAT[p]) for p in ps}
        dense_s = tied(paths)
        mem_orders, members = [], []
        for i in range(n):
            o = list(paths); rng.shuffle(o)
            mem_orders.append(L.dfs_order(o))
            members.append(L.build_td({p: dense_s[p].select(d, i).clone() for p in paths}, o, tuple(b for j, b in enumerate(batch) if j != d)))
        lz = lazy_stack(members, d)
        okind = rng.choice(["tc", "tc", "dense", "dense", "dict", "lazy_same", "lazy_other", "scalar", "t0", "bad", "shape"])
        rel = rng.choice(["same", "same", "same", "missing", "extra"]) if okind in ("dense", "lazy_same", "lazy_other") else "same"
        o_paths = list(paths)
        if rel == "missing" and len(o_paths) > 1:
            o_paths = o_paths[:-1]
        elif rel == "missing":
            rel = "same"
        if rel == "extra":
            o_paths = o_paths + [rng.choice(L.EXTRA_POOL)]
        dense_o, other, o_sx = {}, None, None
        if okind in ("tc", "dense", "dict", "lazy_same", "lazy_other"):
            dense_o = tied(o_paths)
            oo = list(o_paths); rng.shuffle(oo)
            o_dfs = L.dfs_order(oo)
            if okind == "dense":
                other = L.build_td(dense_o, oo, batch)
            elif okind == "dict":
                other = L.build_td(dense_o, oo, batch).to_dict()
            elif okind == "tc":
                td_o = L.build_td(dense_o, oo, batch)
                cls = tensorclass(type("C09CmpTC", (), {"__annotations__": {k: Any for k in td_o.keys()}}))
                other = cls._from_tensordict(td_o)
            else:
                dd = d if okind == "lazy_same" else 1 - d
                oms = []
                for i in range(batch[dd]):
                    o2 = list(o_paths); rng.shuffle(o2)
                    oms.append(L.build_td({p: dense_o[p].select(dd, i).clone() for p in o_paths}, o2, tuple(b for j, b in enumerate(batch) if j != dd)))
                other = lazy_stack(oms, dd)
            o_sx = ["tc", L.paths_sx(o_dfs)] if okind == "tc" else ["coll", [L.paths_sx(o_dfs) for _ in range(n)]]
        elif okind == "scalar":
            other = rng.choice([0, 1, 2]); o_sx = ["sc"]
        elif okind == "t0":
            other = torch.tensor(rng.choice([0, 1, 2])); o_sx = ["sc"]
        elif okind == "bad":
            other = "not an operand"; o_sx = ["bad"]
        else:
            ob = (batch[1] + 1, batch[0]) if True else batch
            other = L.build_td({p: torch.ones(tuple(ob) + L.FEAT[p], dtype=torch.int64) for p in paths}, list(paths), ob)
            o_sx = ["shape"]
        case = {"op": name, "batch": list(batch), "stack_dim": d, "members": [[".".join(p) for p in mo] for mo in mem_orders],
                "other": okind, "keys": rel, "other_keys": [".".join(p) for p in o_paths] if dense_o else None}
        run.case(("lazy_compare", name, okind, rel, tuple(batch), d, tuple(map(tuple, mem_orders)), str({".".join(p): v.flatten().tolist() for p, v in dense_s.items()})),
                 nontrivial=okind not in ("bad", "shape"))
        run.count("lazy_compare.other", f"{okind}:{rel}")
        run.count("lazy_compare.op", name)
        has_default = name in ("__eq__", "__ne__")      # `==` / `!=` answer False / True for an operand that is not comparable
        ans = parse_sx(ctx.drv.ask(sx("c09.lazy_cmp", [L.paths_sx(mo) for mo in mem_orders], o_sx, has_default)))

        def ev(t, i):
            if t[0] == "l":
                side, key = int(t[1]), tuple(str(x) for x in t[2])
                if side == 0:
                    return dense_s[key[1:]].select(d, int(key[0]))
                if okind == "tc":
                    return dense_o[key]
                return dense_o[key[1:]].select(d, int(key[0]))
            if t[0] == "sc":
                return other
            args = t[1:]
            if args and args[0][0] == "sc" and int(args[0][1]) == 93:
                return rref(ev(args[1], i), ev(args[2], i))
            if args and args[0][0] == "sc" and int(args[0][1]) == 94:
                return torch.stack([ev(a, i) for a in args[1:]], d)
            return ref(ev(args[0], i), ev(args[1], i))
        if ans[0] == "err":
            model = ["err", ans[1]]
        else:
            try:
                if ans[1][0] == "default":
                    model = ["ok", "default", name == "__ne__"]
                elif ans[1][0] == "members":
                    model = ["ok", "members", [L.canon_kv({tuple(ent[0]): ev(ent[1], i) for ent in m}) for i, m in enumerate(ans[1][1:])]]
                else:
                    model = ["ok", "dense", L.canon_kv({tuple(ent[0]): ev(ent[1], 0) for ent in ans[1][1]})]
            except Exception as e:  # noqa: BLE001
                model = ["ref-undefined", err_class(e)]
        r = L.impl_call(lambda: getattr(lz, name)(other))
        if r[0] == "err":
            impl = ["err", r[1]]
        else:
            res = r[1]
            if isinstance(res, bool):
                impl = ["ok", "default", res]
            elif is_tensorclass(res):
                impl = ["ok", "dense", L.canon_kv(leaf_dict(res._tensordict))]
            elif isinstance(res, LazyStackedTensorDict) and res.stack_dim == d:
                impl = ["ok", "members", [L.canon_kv(leaf_dict(m)) for m in res.tensordicts]]
            elif hasattr(res, "batch_size"):
                impl = ["ok", "dense", L.canon_kv(leaf_dict(res))]
            else:
                impl = ["not-a-collection", type(res).__name__]
        if model[0] != "ref-undefined":
            run.corr("lazy_compare", case, impl, model)
        # ---- oracle: the comparison of the stacked entries, whatever the container kinds
        if okind == "bad" and has_default:
            run.oracle_ok("container") if impl == ["ok", "default", name == "__ne__"] else run.oracle_fail(
                "container", case, f"`lazy {name} <str>` should be {name == '__ne__'}, got {str(impl)[:80]}", f"lazycmp:{name}:bad:default")
            continue
        if okind in ("bad", "shape"):
            run.oracle_ok("container") if impl[0] == "err" else run.oracle_fail(
                "container", case, "an operand that cannot be compared was accepted", f"lazycmp:{name}:{okind}:no-raise")
            continue
        if dense_o and set(o_paths) != set(paths):
            run.oracle_ok("container") if impl[0] == "err" else run.oracle_fail(
                "container", case, "key sets differ but the comparison returned a result", f"lazycmp:{name}:{okind}:no-raise")
            continue
        want = {p: ref(dense_s[p], dense_o[p] if dense_o else other) for p in paths}
        if impl[0] != "ok":
            run.oracle_fail("container", case, f"raised / wrong type: {r[2] if r[0] == 'err' else impl}", f"lazycmp:{name}:{okind}:raises")
        else:
            res = r[1]
            got = {p: res.get(p if len(p) > 1 else p[0]) for p in paths}
            if L.canon_kv(got) != L.canon_kv(want):
                run.oracle_fail("container", case, "values differ from the comparison of the stacked entries", f"lazycmp:{name}:{okind}:values")
            else:
                run.oracle_ok("container")


# =========================================================================== a plain tensordict holding NESTED lazy stacks (oracle only)

def stream_nested_lazy(ctx: Ctx):
    """self = a plain tensordict whose nested tensordicts are lazy stacks of their rows: same content as the dense one, so the
    per-key torch oracle of every stream applies unchanged (site `nested_lazy`; the repo is frozen: defects are known findings)"""
    run, rng = ctx.run, ctx.rng
    ops = _binary_ops(ctx)
    for op in ops:
        ref = L.ref_op(op["name"])
        for _ in range(ctx.n(10, 60)):
            om = rng.choice(OTHER_MODES_OUT)
            if op["name"] in ("maximum", "minimum") and om == "scalar":
                om = "t0"
            dm = "none"
            if op["default"] and om.startswith("td_") and rng.random() < 0.45:
                dm = rng.choice(["inter", "val"])
            run_binary_case(ctx, op["name"], ref, op["self_kind"], op["other_kind"], "out", om, dm, "nested_lazy", container="nested_lazy")
        if op["inplace"]:
            for _ in range(ctx.n(5, 30)):
                om = rng.choice(OTHER_MODES_INPLACE)
                if op["name"] in ("maximum", "minimum") and om == "scalar":
                    om = "t0"
                run_binary_case(ctx, op["inplace"], ref, op["self_kind"], op["other_kind"], "inplace", om, "none", "nested_lazy", container="nested_lazy")
    for name in TERN:
        for _ in range(ctx.n(12, 60)):
            run_ternary_case(ctx, name, rng.random() < 0.4, container="nested_lazy")
    for name in L.COMPARE + L.BITWISE_CMP_STYLE:
        for _ in range(ctx.n(10, 60)):
            run_compare_case(ctx, name, rng.choice(["smallint", "bool"]), container="nested_lazy", site="nested_lazy")
    import tensordict.base as B
    for name, (tok, con, fb, rkind, accepts_keep) in RED.items():
        if not hasattr(B.TensorDictBase, name):
            continue
        for _ in range(ctx.n(8, 50)):
            batch = rng.choice([b for b in RED_BATCHES if len(b)])
            sp = rng.choice(dim_spellings(len(batch), tok))
            keep = rng.choice(("nodef", True, False) if accepts_keep else ("nodef",))
            names = rng.choice((None, NAMES[:len(batch)]))
            run_reduction_case(ctx, name, batch, names, sp, keep, container="nested_lazy")
    # always drawn (regression of fe7c14a repaired by f1678b9): NAMED tensordict x nested lazy stack x the reductions that run through
    # `_fast_apply` with a batch_size override and without call_on_nested, over every batch dim
    for name in ("amax", "amin", "min", "max", "cummin", "cummax"):
        if name not in RED or not hasattr(B.TensorDictBase, name):
            continue
        accepts_keep = RED[name][4]
        for batch in ((2, 3), (1, 2), (3,)):
            for d in range(-len(batch), len(batch)):
                keep = rng.choice(("nodef", True, False)) if accepts_keep else "nodef"
                run.count("nested_lazy.named_reduction", name)
                run_reduction_case(ctx, name, batch, NAMES[:len(batch)], (["int", d], d), keep, container="nested_lazy")
