"""C11 — in-memory serialisation round trips preserve content in every history (DESIGN §6 C11)."""
from __future__ import annotations

from common import Run, main_guard


def main():
    run = Run("C11")
    run.rule = ("layout: random dtype/shape mixes + every dtype after a 1-byte leaf; threaded writer: every order of <=4 tasks (sampled beyond); "
                "histories: random 1-7 op histories around consolidate, then pickle and deepcopy; trips: 16 container kinds x 16 serialisations; rebuild: nodes with 1-5 leaves of which several jagged nested tensors with/without lengths, lazy stacks of 1-30 members; "
                "a case is non-trivial if it is a distinct structure/history")
    run.trusted += [
        "Model/C11Consolidate.lean: hand transcription of _reduce_vals_and_metadata.add_single_value, consolidate (cat and threaded paths), "
        "_rebuild_tensordict_files_consolidated, _reduce_td/_consolidated_is_current (validated each run by the correspondence streams)",
        "harness/c11_gen.py (reflection on tensordict.utils dtype tables -> Gen/Dtypes.lean)",
        "torch view/copy semantics on bytes, pickle, json are torch's / CPython's",
    ]
    run.assumptions += ["devices: cpu / None only (no accelerator in the sandbox)", "all (sub-)tensordicts of the modelled histories share the batch dims"]
    from c12_fns import guarded_stream, hard_deadline, single_threaded_torch
    single_threaded_torch()
    quick = run.tier == "quick"
    import c11_gen
    try:
        c11_gen.regen()
    except Exception as e:  # noqa: BLE001
        run.proof_broken.append(f"generator:Dtypes:{type(e).__name__}:{e}")
    import c12_pins
    c12_pins.for_check(run, "C11")
    run.build_and_audit(["TdVerif.Props.C11"])
    drv = run.driver()
    import c11_hist
    import json
    import shutil
    from common import BUILD, VERIF
    scratch = BUILD / "tmp" / f"c11r_{run.seed}_{run.tier}"
    shutil.rmtree(scratch, ignore_errors=True)
    scratch.mkdir(parents=True, exist_ok=True)
    try:
        if run.replay:
            # ./check C11 --replay <file>: re-run the recorded failing histories
            rep = json.loads(open(run.replay).read())
            n = c11_hist.replay_histories(run, drv, [f.get("case") for f in rep.get("failures", [])] + [x.get("case") for v in rep.get("broken_correspondence", {}).values() for x in v], scratch)
            run.notes.append(f"replayed {n} recorded histories from {run.replay}")
            run.finish("proof")
        corpus = [json.loads(p.read_text()) for p in sorted((VERIF / "corpus" / "C11").glob("*.json"))]
        run.count("corpus.cases", len(corpus))
        c11_hist.replay_histories(run, drv, [c["case"] for c in corpus], scratch)
    finally:
        shutil.rmtree(scratch, ignore_errors=True)
    import c11_rebuild
    scratch.mkdir(parents=True, exist_ok=True)
    try:
        guarded_stream(run, "rebuild", c11_rebuild.run_rebuild, run, drv, scratch)
    finally:
        shutil.rmtree(scratch, ignore_errors=True)
    with hard_deadline(300 if quick else 1500, "layout + threaded writer"):
        guarded_stream(run, "layout", c11_hist.run_layout, run, drv)
    with hard_deadline(420 if quick else 2400, "histories"):
        guarded_stream(run, "histories", c11_hist.run_histories, run, drv)
    import c11_trips
    with hard_deadline(420 if quick else 3000, "trips (other processes in the thorough tier)"):
        guarded_stream(run, "trips", c11_trips.run_trips, run)
    with hard_deadline(300 if quick else 1500, "pytree / state_dict / to_dict"):
        guarded_stream(run, "pytree-statedict-todict", c11_trips.run_pytree, run, drv)
    import os
    if os.environ.get("VERIF_DEBUG"):
        from collections import Counter
        import sys
        for k, v in sorted(Counter((f["site"], f["fingerprint"]) for f in run.oracle_fails).items()):
            print("DEBUG fail", v, k, file=sys.stderr)
        seen = set()
        for f in run.oracle_fails:
            if (f["site"], f["fingerprint"]) not in seen:
                seen.add((f["site"], f["fingerprint"]))
                print("DEBUG first", f["site"], f["fingerprint"], "->", f["what"][:300], file=sys.stderr)
    run.finish("proof")


if __name__ == "__main__":
    main_guard(main)
