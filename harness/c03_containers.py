"""C03 — other container kinds as extended domain (property oracle only, not modelled): a tensorclass wrapping the tensordict
and a lazy stack of its slices along one batch dim. Same oracle as for plain tensordicts: torch on a proxy of the batch shape,
torch on every leaf, full content after a write.

Verdict domain: everything on the tensorclass; on the lazy stack READS with basic indices (ints, 0-d tensors, slices, None,
Ellipsis; two narrow known findings: empty selection, negative step). Lazy-stack writes and lazy-stack reads with index arrays
are a moving target owned by C08 (whose quantifier stops at one advanced item and collection values; `lazy[idx] = scalar` was
repaired on main by 955420a while this was written, exposing further classes): they are run through the same oracle but only
COUNTED (`ext.lazy.observed:<fingerprint>` in the evidence), so that the C03 verdict never depends on them."""
from __future__ import annotations

import json
import re

import torch

import c03_gen as G
import c03_streams as S
import c03_write as W
from common import err_class, time_limit

TL = S.TL
_TC = {}


def msg_key(e: BaseException) -> str:
    """exception type + the first words of its message with numbers and shapes blanked: a stable, narrow fingerprint"""
    m = re.sub(r"torch\.Size\(\[[^\]]*\]\)|\[[-0-9, ]*\]|-?\d+", "#", str(e))
    return type(e).__name__ + ":" + "-".join(re.findall(r"[A-Za-z_#]+", m)[:6])


def tc_class(n):
    """a tensorclass with n tensor fields l0..l{n-1}"""
    if n not in _TC:
        from tensordict import tensorclass
        ns = {"__annotations__": {f"l{k}": torch.Tensor for k in range(n)}}
        _TC[n] = tensorclass(type(f"TC{n}", (), ns))
    return _TC[n]


def build(kind, spec, rng):
    td = S.build_td(spec)
    if kind == "tensorclass":
        cls = tc_class(len(spec["feats"]))
        return cls(**{f"l{k}": td.get(f"l{k}") for k in range(len(spec["feats"]))}, batch_size=spec["bs"]), td
    from tensordict import LazyStackedTensorDict
    d = rng.randrange(len(spec["bs"]))
    return LazyStackedTensorDict.lazy_stack(list(td.unbind(d)), d), td


def leaf_of(obj, kind, k):
    return getattr(obj, f"l{k}") if kind == "tensorclass" else obj.get(f"l{k}")


class _Observe:
    """stands in for `run` outside the verdict domain: failures are counted, not judged"""
    def __init__(self, run):
        self.run = run

    def oracle_fail(self, site, case, what, fingerprint=None):
        self.run.count("ext.lazy.observed", fingerprint or site)

    def oracle_ok(self, site):
        self.run.count("ext.lazy.observed", "ok")


def containers(run, drv):
    real_run = run
    rng = run.rng
    n = 1200 if run.tier == "quick" else 8000
    for _ in range(n):
        kind = rng.choice(["tensorclass", "lazy"])
        bs = G.gen_bs(rng)
        if kind == "lazy":
            bs = [b for b in bs] or [2]
            if any(b == 0 for b in bs):
                continue
        idx = G.gen_index_adv(rng, bs) if rng.random() < 0.2 else G.gen_index(rng, bs, p_bad=0.04, p_overrun=0.04)
        if sum(1 for t in G.items_of(idx) if t == G.ELL) > 1:
            continue
        spec = S.gen_td_spec(rng, bs)
        spec["nested"], spec["names"] = [], None
        mode = rng.choice(["read", "read", "write"])
        site = f"ext-{kind}"
        adv = ":adv" if (kind == "lazy" and mode == "read" and G.stage_of(idx) != "stage1-basic") else ""
        judged = kind == "tensorclass" or (mode == "read" and not adv)
        run = real_run if judged else _Observe(real_run)
        real_run.count("ext.container", f"{kind}:{mode}{adv}:{'judged' if judged else 'observed'}")
        real_run.case(("container", kind, mode, json.dumps(spec, sort_keys=True), G.index_sx(idx)))
        case = {"mode": f"{kind}-{mode}", "td": spec, "idx": idx, "idx_str": G.index_json(idx)}
        py = G.index_py(idx)
        try:
            proxy = list(torch.zeros(bs)[py].shape)
        except Exception:
            proxy = None
        try:
            obj, td = build(kind, spec, rng)
        except Exception as e:          # building the container is not the subject
            real_run.count("ext.container", f"{kind}:unbuildable")
            continue
        if mode == "read":
            try:
                with time_limit(TL):
                    r = obj[py]
                    got = [leaf_of(r, kind, k) for k in range(len(spec["feats"]))]
                    got_bs = list(r.batch_size)
                ok = True
            except TimeoutError:
                raise
            except Exception as e:
                ok, what, key = False, f"{type(e).__name__}: {str(e)[:100]}", msg_key(e)
            if proxy is None:
                if ok:
                    run.oracle_fail(site, case, f"torch rejects this index on the batch shape; the {kind} accepted it (batch_size {got_bs})", f"{kind}:read{adv}:" + S.classify_accept(spec, idx))
                else:
                    run.oracle_ok(site)
                continue
            if not ok:
                run.oracle_fail(site, case, f"torch accepts this index on the batch shape (result {proxy}); the {kind} raised {what}", f"{kind}:read{adv}:raises:{key}")
                continue
            probs = []
            if got_bs != proxy:
                probs.append(f"batch_size {got_bs} but torch gives {proxy}")
            else:
                for k, f in enumerate(spec["feats"]):
                    want = td.get(f"l{k}")[S.pad_for_leaf(idx, len(f))]
                    if got[k].shape != want.shape or not torch.equal(got[k], want):
                        probs.append(f"l{k}: shape {list(got[k].shape)} {got[k].reshape(-1).tolist()[:10]} expected shape {list(want.shape)} {want.reshape(-1).tolist()[:10]}")
            if probs:
                run.oracle_fail(site, case, "; ".join(probs)[:400], f"{kind}:read{adv}:" + ("batch-size:" if probs[0].startswith("batch_size") else "values:") + G.stage_of(idx))
            else:
                run.oracle_ok(site)
        else:
            before = {k: td.get(f"l{k}").clone() for k in range(len(spec["feats"]))}
            try:
                with time_limit(TL):
                    obj[py] = -1
                    after = [leaf_of(obj, kind, k).clone() for k in range(len(spec["feats"]))]
                ok = True
            except TimeoutError:
                raise
            except Exception as e:
                ok, what, key = False, f"{type(e).__name__}: {str(e)[:100]}", msg_key(e)
            if proxy is None:
                if ok:
                    run.oracle_fail(site, case, f"torch rejects this index on the batch shape; the assignment on the {kind} was accepted", f"{kind}:write:" + S.classify_accept(spec, idx))
                else:
                    run.oracle_ok(site)
                continue
            if not ok:
                run.oracle_fail(site, case, f"torch accepts entry[idx] = -1 for every entry; the {kind} raised {what}", f"{kind}:write:raises:{key}")
                continue
            probs = []
            for k, f in enumerate(spec["feats"]):
                e = before[k].clone()
                e[S.pad_for_leaf(idx, len(f))] = -1
                if after[k].shape != e.shape or not torch.equal(after[k], e):
                    probs.append(f"l{k}: {after[k].reshape(-1).tolist()[:12]} expected {e.reshape(-1).tolist()[:12]}")
            if probs:
                run.oracle_fail(site, case, "; ".join(probs)[:400], f"{kind}:write:values:" + G.stage_of(idx))
            else:
                run.oracle_ok(site)
