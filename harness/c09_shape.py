"""C09: ast-shape obligations -- the statements Model/C09KV.lean and Model/C09Shape.lean transcribe are re-read from the
current source on every run; an edit is reported as a broken obligation even when no sampled input behaves differently."""
from __future__ import annotations

import ast

from common import REPO


def _cls(tree, name):
    return next((n for n in tree.body if isinstance(n, ast.ClassDef) and n.name == name), None)


def _fn(cls, name):
    return next((n for n in cls.body if isinstance(n, ast.FunctionDef) and n.name == name), None)


def check_fused(problems):
    """every fused (torch._foreach_*) method reads its own leaves with `_items_list/_values_list(True, True)` and every
    tensordict operand with `sorting_keys=keys`: pairing is by key, never by position (Model/C09KV.binop / ternop)"""
    tree = ast.parse((REPO / "tensordict" / "base.py").read_text())
    cls = _cls(tree, "TensorDictBase")
    n = 0
    for fn in cls.body:
        if not isinstance(fn, ast.FunctionDef):
            continue
        if not any(isinstance(x, ast.Call) and ast.unparse(x.func).startswith("torch._foreach_") for x in ast.walk(fn)):
            continue
        n += 1
        for x in ast.walk(fn):
            if isinstance(x, ast.Call) and isinstance(x.func, ast.Attribute) and x.func.attr in ("_items_list", "_values_list"):
                recv = ast.unparse(x.func.value)
                tail = ast.unparse(x)[len(recv):]
                if recv == "self":
                    ok = tail in ("._items_list(True, True)", "._values_list(True, True)", "._items_list(True, True, collapse=True)")
                else:
                    ok = tail in ("._items_list(True, True, sorting_keys=keys)", "._items_list(True, True, sorting_keys=keys, default=default)")
                if not ok:
                    problems.append(f"TensorDictBase.{fn.name}: `{recv}{tail}` does not pair the operand's entries by key with self's")
        # the re-alignment of self's values to the operand's key order whenever a default is given (binop with default)
        uses_default = [x for x in ast.walk(fn) if isinstance(x, ast.Call) and "default=default" in ast.unparse(x) and ast.unparse(x.func).endswith("._items_list")]
        tests = [x for x in ast.walk(fn) if isinstance(x, (ast.If, ast.IfExp)) and "default" in ast.unparse(x.test)]
        if uses_default:
            want_body = ["as_dict = dict(zip(keys, vals))", "vals = [as_dict.get(key, default) for key in new_keys]", "keys = new_keys"]
            if len(tests) != 1 or ast.unparse(tests[0].test) != "default is not None" or [ast.unparse(b) for b in tests[0].body] != want_body:
                problems.append(f"TensorDictBase.{fn.name}: self's values are no longer re-aligned to the operand's key order whenever default is given")
        for x in ast.walk(fn):
            if isinstance(x, ast.For) and f"{ast.unparse(x.target)} in {ast.unparse(x.iter)}" not in ("val in vals", "(key, val) in zip(keys, vals)"):
                problems.append(f"TensorDictBase.{fn.name}: unexpected loop `for {ast.unparse(x.target)} in {ast.unparse(x.iter)}` over the fused lists")
    helper = _fn(cls, "_inplace_tensor_operand")
    if helper is None:
        problems.append("TensorDictBase._inplace_tensor_operand: not found")
    else:
        body = [ast.unparse(x) for x in helper.body if not (isinstance(x, ast.Expr) and isinstance(x.value, ast.Constant))]
        want = ["if isinstance(other, torch.Tensor) and other.ndim:\n    other = other.expand(self.batch_size)\n    return [expand_as_right(other, val) for val in vals]", "return other"]
        if body != want:
            problems.append(f"TensorDictBase._inplace_tensor_operand: changed: {body}")
    if n < 40:
        problems.append(f"only {n} fused methods found on TensorDictBase (the reader no longer recognises them)")


def check_clamp(problems):
    tree = ast.parse((REPO / "tensordict" / "base.py").read_text())
    fn = _fn(_cls(tree, "TensorDictBase"), "clamp")
    if fn is None:
        problems.append("TensorDictBase.clamp: not found")
        return
    lambdas = sorted(ast.unparse(x) for x in ast.walk(fn) if isinstance(x, ast.Lambda))
    want = sorted(["lambda x, low, high: x.clamp(low, high)", "lambda x: x.clamp(min, max)",
                   "lambda x, y, low, high: torch.clamp(x, low, high, out=y)", "lambda x, y: torch.clamp(x, min, max, out=y)"])
    if lambdas != want:
        problems.append(f"TensorDictBase.clamp: the per-entry functions changed: {lambdas}")
    rets = sorted(ast.unparse(x.value) for x in ast.walk(fn) if isinstance(x, ast.Return) and x.value is not None)
    want = sorted(["self.clamp_max(max)", "self.clamp_min(min)", "self._fast_apply(lambda x, low, high: x.clamp(low, high), min, max, default=None)",
                   "self._fast_apply(lambda x: x.clamp(min, max))", "out.update(result)"])
    if rets != want:
        problems.append(f"TensorDictBase.clamp: the return statements changed: {rets}")
    tests = [ast.unparse(x.test) for x in fn.body if isinstance(x, ast.If)]
    if "is_tc_min ^ is_tc_max" not in tests:
        problems.append("TensorDictBase.clamp: mixed tensordict / non-tensordict bounds are no longer rejected up front")


def check_reduce_true(problems):
    tree = ast.parse((REPO / "tensordict" / "_td.py").read_text())
    fn = _fn(_cls(tree, "TensorDict"), "_cast_reduction")
    if fn is None:
        problems.append("TensorDict._cast_reduction: not found")
        return
    top = next((x for x in fn.body if isinstance(x, ast.If) and ast.unparse(x.test) == "further_reduce"), None)
    if top is None:
        problems.append("TensorDict._cast_reduction: no `if further_reduce:` branch")
        return
    br = next((x for x in top.body if isinstance(x, ast.If) and ast.unparse(x.test) == "dim is NO_DEFAULT"), None)
    if br is None:
        problems.append("TensorDict._cast_reduction: no `if dim is NO_DEFAULT:` branch under further_reduce")
        return
    body = [ast.unparse(x) for x in br.body]
    want = ["agglomerate = [val.contiguous().flatten() for val in self._values_list(True, True, is_leaf=_NESTED_TENSORS_AS_LISTS)]",
            "agglomerate = torch.cat(agglomerate, dim=0)", "return getattr(torch, reduction_name)(agglomerate, **kwargs)"]
    if body != want:
        problems.append(f"TensorDict._cast_reduction: reduce=True without dim is no longer ONE reduction of the concatenation of all values: {body}")
    other = [ast.unparse(x) for x in ast.walk(ast.Module(body=br.orelse, type_ignores=[])) if isinstance(x, ast.Return)]
    if other != ["return getattr(torch, reduction_name)(agglomerate, dim=dim, **kwargs)"]:
        problems.append(f"TensorDict._cast_reduction: reduce=True with a dim no longer ends in one reduction of the concatenation: {other}")
    cats = [ast.unparse(x) for x in ast.walk(ast.Module(body=br.orelse, type_ignores=[])) if isinstance(x, ast.Call) and ast.unparse(x.func) == "torch.cat"]
    if cats != ["torch.cat(agglomerate, dim=cat_dim)"]:
        problems.append(f"TensorDict._cast_reduction: concatenation along the reduced batch dim changed: {cats}")


def check_broadcast(problems):
    tree = ast.parse((REPO / "tensordict" / "utils.py").read_text())
    fn = next((n for n in tree.body if isinstance(n, ast.FunctionDef) and n.name == "expand_as_right"), None)
    if fn is None:
        problems.append("utils.expand_as_right: not found")
        return
    tests = [ast.unparse(x.test) for x in fn.body if isinstance(x, ast.If)]
    if "dest.ndimension() < tensor.ndimension()" not in tests:
        problems.append("utils.expand_as_right: the rank test changed")
    srcs = ast.unparse(fn)
    if "tensor.shape[i] != dest.shape[i] and tensor.shape[i] != 1" not in srcs:
        problems.append("utils.expand_as_right: the per-dim compatibility test changed")


def check_lazy_cmp(problems):
    """a lazy stack facing an operand it cannot split evaluates the REFLECTED comparison on the operand's side"""
    tree = ast.parse((REPO / "tensordict" / "_lazy.py").read_text())
    cls = _cls(tree, "LazyStackedTensorDict")
    refl = {"__ge__": "__le__", "__gt__": "__lt__", "__le__": "__ge__", "__lt__": "__gt__", "__eq__": "__eq__", "__ne__": "__ne__"}
    for name, want in refl.items():
        fn = _fn(cls, name)
        if fn is None:
            problems.append(f"LazyStackedTensorDict.{name}: not found")
            continue
        calls = [x for x in ast.walk(fn) if isinstance(x, ast.Call) and ast.unparse(x.func) == "self._dispatch_comparison"]
        if len(calls) != 1:
            problems.append(f"LazyStackedTensorDict.{name}: no longer a single _dispatch_comparison call")
            continue
        args = [ast.unparse(a) for a in calls[0].args]
        if args != ["other", repr(name), repr(want)]:
            problems.append(f"LazyStackedTensorDict.{name}: dispatches {args} instead of (other, {name!r}, {want!r})")


CHECKS = [("source-shape:LazyStackedTensorDict comparisons reflect correctly", check_lazy_cmp), ("source-shape:fused ops pair operands by key", check_fused), ("source-shape:TensorDictBase.clamp", check_clamp),
          ("source-shape:TensorDict._cast_reduction(reduce=True)", check_reduce_true), ("source-shape:utils.expand_as_right", check_broadcast)]


def source_shape(run):
    for name, fn in CHECKS:
        problems = []
        try:
            fn(problems)
        except Exception as e:  # noqa: BLE001   a source this reader cannot parse is a broken tie, not a pass
            problems.append(f"{name}: reader failed: {type(e).__name__}: {e}")
        run.obligations.append(name)
        if problems:
            for pb in problems[:6]:
                run.proof_broken.append("source-shape:" + pb)
        else:
            run.discharged.append(name)
        run.count("source_shape", name.split(":", 1)[1] + (":ok" if not problems else ":broken"))
