"""C02 — shape operations act as on a tensor of batch shape (DESIGN §6 C02)."""
from __future__ import annotations

import json
import zlib

from common import VERIF, Run, main_guard, parse_sx, sx
import c02_lib as L


def fix(ans):
    """parse_sx gives a bare list for '(self)' etc.; nothing to normalise except empty lists"""
    return ans


def one_case(run, drv_reqs, spec, op, stream, spelling=0, lock=False):
    drv_reqs.append((stream, spec, op, spelling, lock))


def ask_chunked(drv, lines, max_bytes=30000):
    """Driver.ask_many writes up to 2000 lines before reading: with long lines both pipes fill up and
    the two processes deadlock.  Keep every write below the pipe capacity."""
    out, cur, size = [], [], 0
    for l in lines:
        if cur and size + len(l) + 1 > max_bytes:
            out += drv.ask_many(cur)
            cur, size = [], 0
        cur.append(l)
        size += len(l) + 1
    if cur:
        out += drv.ask_many(cur)
    return out


def flush(run, drv, reqs):
    """run the queued cases: model through the driver (batched), implementation, oracle"""
    lines = [f"(c02.td {L.op_sx(op)} {L.spec_sx(spec)})" for (_, spec, op, _, _) in reqs]
    answers = ask_chunked(drv, lines)
    for (stream, spec, op, spelling, lock), line, ans in zip(reqs, lines, answers):
        try:
            td = L.build(spec)
            if lock:
                td.lock_()
        except Exception as e:  # noqa: BLE001
            # a coherent TensorDict of provenance leaves must be constructible: this is a failure of the library, not of the harness
            run.oracle_fail("shape_op", {"td": L.spec_sx(spec)}, f"constructing the input tensordict raised {type(e).__name__}: {str(e)[:120]}", "build:raises")
            continue
        src_before = L.meta_canon(td)
        impl, raw = L.run_impl(td, op, spelling)
        model = parse_sx(ans)
        case = {"op": list(op), "td": L.spec_sx(spec), "spelling": spelling, "locked": lock}
        if impl[0] != "err" or impl[1] != "timeout":
            # every shape op is out of place: the SOURCE keeps its batch size, names (own list!), keys, leaves — whatever the outcome
            src_after = L.meta_canon(td)
            if src_after != src_before:
                run.oracle_fail("shape_op", case, f"the source tensordict was modified by the op: {src_after} (before: {src_before})"[:600],
                                f"{op[0]}:source-modified")
        key = (op[0], json.dumps(op[1:], default=str), L.spec_sx(spec))
        run.case(key, nontrivial=True)
        run.count("op", op[0])
        run.count("rank", len(spec[1]))
        run.count("spelling", ["method-varargs", "method-list/kw-dim", "method-size/dims-kw", "torch-function", "method-keywords/expand_as", "defaults"][spelling])
        run.count("outcome", impl[0] if impl[0] != "err" else "err:" + impl[1])
        run.count("named", spec[2] is not None)
        run.count("nested", any(e[0] == "node" for _, e in spec[3]))
        same = run.corr(stream, case, impl, model)
        if zlib.crc32(line.encode()) % 5 == 0 and not (impl[0] == "err" and impl[1] == "timeout"):
            # tensorclass container: the same call on a tensorclass holding the same tree must give the model's answer too
            run.corr("tc:" + stream.split(":", 1)[-1], dict(case, container="tc"), L.run_impl_tc(spec, op, spelling, lock), model)
        ok = L.oracle(run, spec, td, op, impl, raw)
        if not same and ok:
            # model and code differ but the property's oracle accepts the code's answer: the model is off
            run.count("corr_diff_but_oracle_ok", op[0])
        if lock and impl[0] in ("ok", "oks"):
            rs = list(raw) if isinstance(raw, (tuple, list)) else [raw]
            # split/chunk/unbind of a locked (not shared/memmap) tensordict return unlocked views: not part of C02
            run.count("locked_result", all(r.is_locked for r in rs))
    reqs.clear()


def spec_stream(run, drv, shapes, ops_for):
    """the torch *spec* (Model/C02Tensor.lean) against torch itself, on plain provenance tensors"""
    reqs, cases = [], []
    for shape in shapes:
        for op in ops_for(shape):
            reqs.append(f"(c02.torch {L.op_sx(op)} ({' '.join(map(str, shape))}))")
            cases.append((shape, op))
    for (shape, op), ans in zip(cases, ask_chunked(drv, reqs)):
        want = L.torch_answer(op, shape)
        run.corr("spec:" + op[0], {"shape": list(shape), "op": list(op)}, want, parse_sx(ans))
        run.count("spec.outcome", want[0] if want[0] != "err" else "err:" + want[1])


def grid_ops(shape):
    """every argument of the property's quantifier for one shape (used exhaustively on small ranks)"""
    import itertools
    n = len(shape)
    dims = list(range(-n - 1, n + 1))
    out = []
    for d in dims:
        out += [("squeeze", d), ("unsqueeze", d), ("unbind", d)]
        out += [("unsqueeze", -n - 2), ("unsqueeze", n + 1)] if d == dims[0] else []
        for e in dims:
            out += [("transpose", d, e), ("flatten", d, e)]
        for k in range(-1, 5):
            out += [("split", k, d), ("chunk", k, d)]
        dd = d + n if d < 0 else d
        if 0 <= dd < n:
            size = shape[dd]
            for sz in [(), (size,), (-1,), (1, size), (size, 1), (-1, 1), (1, -1), (-1, -1), (2, -1), (size, -1), (0, -1), (-1, 0), (2, 2), (-2,), (1, 1, size)]:
                out.append(("unflatten", d, sz))
            for sl in [(), (size,), (0, size), (size, 0), (1, size - 1) if size else (0, 0), (size + 1,), (size, 1), (-1, size + 1), (1,) * size if size else (0,)]:
                out.append(("splitlist", tuple(sl), d))
        else:
            out += [("unflatten", d, (1,)), ("splitlist", (1,), d)]
    out.append(("squeeze", None))
    for r in range(0, n + 2):
        for p in itertools.product(range(-n, n + 1), repeat=r):
            if r >= 3 and len(set(x % max(n, 1) for x in p)) < r - 1:
                continue
            out.append(("permute", tuple(p)))
    total = L.numel(shape)
    cand = sorted({-1, 0, 1, 2, 3, 4, 6, total})
    for r in range(0, 3):
        for t in itertools.product(cand, repeat=r):
            out.append(("view", tuple(t)))
            out.append(("reshape", tuple(t)))
    for lead in range(0, 2):
        for t in itertools.product((-1, 0, 1, 2, 3), repeat=n + lead):
            out.append(("expand", tuple(t)))
    if n:
        out.append(("expand", tuple(shape[1:])))
    return out


def main():
    run = Run("C02")
    run.rule = ("modelled domain: plain TensorDict over batch shapes of rank 0..4 with dims in {0,1,2,3}, 0-3 provenance (arange) leaves with 0-2 feature dims "
                "(occasionally a zero-sized feature dim), optionally one nested tensordict with a 1-2 dims longer batch, named/unnamed, locked/unlocked; "
                "ops permute/transpose/squeeze(dim|None)/unsqueeze/flatten/unflatten/view/reshape/expand/unbind/split(int|list)/chunk with valid arguments (75%) "
                "and malformed ones (25%: out-of-range and negative dims, short/duplicate permutations, wrong products, several -1, oversize/negative split sizes); "
                "every call in one of 6 spellings (method varargs / list / Size|dims= / torch.<op>(td, …) / method keywords, expand_as / defaulted arguments); "
                "a case is distinct if (op, args, tree) is new. spec stream: the Lean rendering of torch vs torch itself on provenance tensors.")
    run.trusted += [
        "Model/C02Tensor.lean = our rendering of torch's shape ops as coordinate maps and of torch's argument checks; validated each run against torch 2.14 on provenance tensors (stream spec:*), not proved",
        "Model/C02Td.lean = hand transcription of tensordict/_td.py and base.py shape ops (batch-size/names arithmetic + the leaf call), validated each run against the working tree on structured inputs (streams td:*)",
        "values inside leaves are computed by torch in the implementation; what is modelled is which torch call with which arguments on which operand, and the metadata beside it",
    ]
    run.assumptions += [
        "leaves of the input are contiguous and coherent with the batch size (prefix property of C01)",
        "lazy stacks / tensorclasses / out= variants are exercised by the oracle only (extended domain), not modelled",
    ]
    import c02_gen
    try:
        c02_gen.regenerate()
        for k in c02_gen.changed_since_pin():
            run.notes.append(f"transcribed source changed since it was pinned: {k} (re-read the model against it, then c02_gen.py --repin)")
    except c02_gen.Untranslatable as e:
        run.proof_broken.append(f"translator:C02Src:{e}")
    run.trusted.append("harness/c02_gen.py (AST hashes of the transcribed functions; `transcribed_sources_unchanged` compares them with Model/C02Pins.lean on every run)")
    run.build_and_audit(["TdVerif.Props.C02"])
    drv = run.driver()
    rng = run.rng
    quick = run.tier == "quick"

    # ---- corpus (minimised past failures) first
    corpus = VERIF / "corpus" / "C02"
    reqs = []
    if corpus.exists():
        for p in sorted(corpus.glob("*.json")):
            c = json.loads(p.read_text())
            spec = eval(c["spec"], {"__builtins__": {}}, {})  # noqa: S307 - our own file, tuples only
            one_case(run, reqs, spec, tuple(tuple(x) if isinstance(x, list) else x for x in c["op"]), "td:corpus")
    flush(run, drv, reqs)

    # ---- 1. spec vs torch
    small = L.all_shapes(2) + [(1, 1, 1), (2, 1, 3), (0, 2, 1), (3, 2, 2), (1, 2, 1, 3)]
    if quick:
        sample = [()] + rng.sample(small[1:], 9)
        spec_stream(run, drv, sample, lambda s: rng.sample(grid_ops(s), min(260, len(grid_ops(s)))))
    else:
        spec_stream(run, drv, L.all_shapes(3) + [(1, 2, 1, 3), (2, 0, 1, 2), (3, 1, 1, 2)], grid_ops)

    # ---- 2. model vs implementation + oracle, random structured stream
    ncase = 2600 if quick else 30000
    shapes = L.all_shapes(4)
    for i in range(ncase):
        r = rng.random()
        rank = rng.choice([0, 1, 1, 2, 2, 2, 3, 3, 4])
        bs = tuple(rng.choice(L.DIMS if r < 0.5 else (1, 2, 3)) for _ in range(rank))
        spec = L.gen_tree(rng, bs, named=rng.random() < 0.45)
        malformed = rng.random() < 0.25
        op = L.gen_op(rng, bs, malformed)
        one_case(run, reqs, spec, op, "td:malformed" if malformed else "td:valid", spelling=rng.choice([0, 0, 1, 2, 3, 3, 4, 5]), lock=rng.random() < 0.2)
        if rng.random() < 0.3:
            # extended domain: the same case on a lazy stack / a tensorclass (oracle only)
            L.run_container(run, spec, op, rng.choice(["lazy", "tc"]), rng, malformed)
        if len(reqs) >= 500:
            flush(run, drv, reqs)
    flush(run, drv, reqs)

    # ---- 2b. HISTORIES: two single-result ops in a row (the second acts on the result of the first: non-contiguous views, erased / moved
    # names, squeezed-away dims); model = `c02.chain`, implementation on the same provenance tree, plus the oracle on the second step
    ch_cases, ch_lines = [], []
    for i in range(400 if quick else 6000):
        rank = rng.choice([1, 2, 2, 3, 3, 4])
        bs = tuple(rng.choice((1, 2, 3)) for _ in range(rank))
        spec = L.gen_tree(rng, bs, named=rng.random() < 0.5)
        for _ in range(20):
            op1 = L.gen_op(rng, bs, False)
            if op1[0] in L.SINGLE:
                break
        else:
            continue
        try:
            mid = L.call(L.build(spec), op1)
        except Exception:  # noqa: BLE001
            continue
        bs1 = tuple(mid.batch_size)
        for _ in range(20):
            op2 = L.gen_op(rng, bs1, rng.random() < 0.1)
            # torch: `view` needs compatible strides; after a transpose / permute / expand the leaves are not contiguous (outside C02)
            if op2[0] == 'view' and op1[0] in ('transpose', 'permute', 'expand', 'unsqueeze', 'squeeze'):
                continue
            if op2[0] in L.SINGLE:
                break
        else:
            continue
        ch_cases.append((spec, op1, op2))
        ch_lines.append(f'(c02.chain {L.op_sx(op1)} {L.op_sx(op2)} {L.spec_sx(spec)})')
    for (spec, op1, op2), ans in zip(ch_cases, ask_chunked(drv, ch_lines)):
        td = L.build(spec)
        mid = L.call(td, op1)
        impl, raw = L.run_impl(mid, op2)
        if impl == ['self'] and mid is td:
            impl = ['self']
        model = parse_sx(ans)
        run.case(('chain', str(op1), str(op2), L.spec_sx(spec)))
        run.count('chain.ops', op1[0] + '>' + op2[0])
        run.count('chain.outcome', impl[0] if impl[0] != 'err' else 'err:' + impl[1])
        run.corr('td:chain', {'op1': list(op1), 'op2': list(op2), 'td': L.spec_sx(spec)}, impl, model)

    # ---- 3. exhaustive argument grid on small batch shapes (every dim incl. negative, every permutation, every split size, targets with -1)
    grid_shapes = [(), (1,), (2,), (0,), (1, 1), (2, 3), (1, 2), (3, 0)] if quick else L.all_shapes(2) + [(1, 1, 1), (2, 1, 3), (0, 2, 1), (3, 2, 2), (1, 3, 1)]
    for bs in grid_shapes:
        ops = grid_ops(bs)
        if quick:
            ops = rng.sample(ops, min(len(ops), 220))
        for op in ops:
            spec = L.gen_tree(rng, bs, named=rng.random() < 0.4)
            one_case(run, reqs, spec, op, "td:grid")
        flush(run, drv, reqs)

    # ---- 3a2. lazy-stack container, ARGUMENT GRID (oracle): every stack dim x every (dim0, dim1) / permutation / dim incl. negative, ranks 2-4
    # (a defect in one stack-dim branch of _lazy.py needs a specific (rank, stack dim, dims) triple: e.g. rank 4, stack dim 0, transpose(0, 3))
    import itertools as _it
    lz_shapes = [(2, 3), (2, 3, 1), (3, 2, 3), (2, 3, 1, 2), (2, 1, 3, 3)] + ([] if quick else [(2, 3, 3, 2), (1, 2, 3), (3, 1, 2, 2)])
    for shape in lz_shapes:
        n = len(shape)
        spec = L.gen_tree(rng, shape, named=True, nested=rng.random() < 0.5, allow_empty=False)      # (build_container drops the names in 40 % of the calls)
        # EVERY batch dim named (a misplaced / dropped name must be visible whatever dims it concerns); nested nodes follow their parent
        full = [nm if nm is not None else f"q{j}" for j, nm in enumerate(spec[2])]
        def _fill(sp_, lead):
            if sp_[0] != "node":
                return sp_
            nm_ = list(lead) + list((sp_[2] or [None] * len(sp_[1]))[len(lead):])
            return ("node", sp_[1], nm_, [(k_, _fill(e_, nm_[:len(sp_[1])])) for k_, e_ in sp_[3]])
        spec = _fill(spec, full)
        ops = [('transpose', a, b) for a, b in _it.product(range(-n, n), repeat=2)]
        perms = [p for p in _it.permutations(range(n))]
        if quick and len(perms) > 8:
            perms = rng.sample(perms, 8)
        ops += [('permute', tuple(x - n if rng.random() < 0.3 else x for x in p)) for p in perms]
        ops += [(name, d) for name in ('squeeze', 'unsqueeze', 'unbind') for d in range(-n, n)] + [('unsqueeze', n), ('unsqueeze', -n - 1)]
        ops += [('split', k, d) for k in (1, 2) for d in range(-n, n)] + [('chunk', 2, d) for d in range(-n, n)]
        # the view family re-cuts the stack (`_lazy.py:flatten/unflatten/reshape/expand`): every (start, end) pair, every dim with the
        # factorisations of its size, whole-shape reshapes, expansions that prepend / keep / widen size-1 dims
        ops += [('flatten', a - n if (a + b) % 3 == 0 else a, b - n if (a * b) % 2 == 1 else b) for a in range(n) for b in range(a, n)]
        for d in range(n):
            sz = shape[d]
            facs = [(1, sz), (sz, 1), (-1, 1), (sz,)] + [(q, sz // q) for q in (2, 3) if sz % q == 0 and sz > q]
            ops += [('unflatten', d - n if d % 2 else d, f) for f in facs]
        ops += [('reshape', (-1,)), ('reshape', tuple(reversed(shape))), ('reshape', tuple(shape)), ('reshape', (shape[0], -1)), ('reshape', (-1, shape[-1]))]
        ops += [('expand', tuple(shape)), ('expand', (2,) + tuple(shape)), ('expand', tuple(-1 for _ in shape)), ('expand', tuple(3 if x == 1 else x for x in shape))]
        ops += [('splitlist', (1, shape[d] - 1), d) for d in range(n) if shape[d] >= 2]
        for sd in range(n):
            for op in ops:
                run.case(('lazy-grid', shape, sd, str(op)))
                L.run_container(run, spec, op, 'lazy', rng, False, stack_dim=sd, valid_call=True)

    # ---- 3b. repeat / repeat_interleave(dim given): model vs implementation vs torch spec
    rep_cases, rep_lines = [], []
    for i in range(400 if quick else 5000):
        rank = rng.choice([1, 1, 2, 2, 3, 4]) if rng.random() < 0.85 else 0
        bs = tuple(rng.choice(L.DIMS if rng.random() < 0.4 else (1, 2, 3)) for _ in range(rank))
        spec = L.gen_tree(rng, bs, named=rng.random() < 0.45)
        wild = rng.random() < 0.25
        if rng.random() < 0.5:
            reps = [rng.choice([0, 1, 1, 2, 3]) for _ in range(rank)]
            if wild:
                r = rng.random()
                if r < 0.4 and reps:
                    reps[rng.randrange(rank)] = -1
                elif r < 0.7:
                    reps = reps + [1]
                elif reps:
                    reps = reps[:-1]
            if rank == 0 and not reps:
                continue
            rep_cases.append(("repeat", spec, (tuple(reps),)))
            rep_lines.append(f"(c02.repeat ({' '.join(map(str, reps))}) {L.spec_sx(spec)})")
        else:
            # (a 0-d batch is unsqueezed first; `dim=None` flattens a batch of rank > 1 with reshape(-1): model `riPublic`)
            r = rng.choice([-1, 0, 1, 2]) if wild else rng.choice([0, 1, 2, 3])
            if rng.random() < 0.25:
                rep_cases.append(("repeat_interleave", spec, (r, None)))
                rep_lines.append(f"(c02.ri_none {r} {L.spec_sx(spec)})")
                continue
            d = rng.randint(-rank - 2, rank + 1) if wild else (rng.randrange(-rank, rank) if rank else rng.choice([0, -1]))
            rep_cases.append(("repeat_interleave", spec, (r, d)))
            rep_lines.append(f"(c02.ri {r} {d} {L.spec_sx(spec)})")
    for (kind, spec, args), ans in zip(rep_cases, ask_chunked(drv, rep_lines)):
        td = L.build(spec)
        try:
            with L.time_limit(30.0):
                r = td.repeat(*args[0]) if kind == "repeat" else td.repeat_interleave(args[0], dim=args[1])
            impl = ["ok", L.canon(r)]
        except Exception as e:  # noqa: BLE001
            L.slow_is_infra(e)
            impl = ["err", L.err_class(e)]
        run.case((kind, str(args), L.spec_sx(spec)))
        run.count("rep.outcome", impl[0] if impl[0] == "ok" else "err:" + impl[1])
        run.corr("td:" + kind, {"kind": kind, "args": list(args), "td": L.spec_sx(spec)}, impl, parse_sx(ans))
        if kind == "repeat" or len(spec[1]) > 0:
            # (a 0-d batch: correspondence only — the torch proxy of the oracle has no batch dim to index)
            L.oracle_ext(run, kind, [spec], (args[0],) if kind == "repeat" else (args[0], args[1]))
    # ---- 3b''. repeat_interleave with a TENSOR of counts (>= 2 elements or none; a single element is an int for the code), explicit dim,
    # batch rank >= 1: model `riListNode` vs implementation (values, batch = sum of the counts, names, error class)
    import torch as _tq
    rl_cases, rl_lines = [], []
    for i in range(200 if quick else 2500):
        rank = rng.choice([1, 1, 2, 2, 3, 4])
        bs = tuple(rng.choice(L.DIMS if rng.random() < 0.3 else (2, 3, 3)) for _ in range(rank))
        spec = L.gen_tree(rng, bs, named=rng.random() < 0.45)
        wild = rng.random() < 0.25
        d = rng.randint(-rank - 2, rank + 1) if wild else rng.randrange(-rank, rank)
        dd = d + rank if d < 0 else d
        size = bs[dd] if 0 <= dd < rank else rng.choice([0, 2, 3])
        k = size if not (wild and rng.random() < 0.5) else rng.choice([0, 2, 3, 4])
        if k == 1:
            continue
        rs = [rng.choice([0, 1, 1, 2, 3]) for _ in range(k)]
        rl_cases.append((spec, rs, d)); rl_lines.append(f"(c02.ril ({' '.join(map(str, rs))}) {d} {L.spec_sx(spec)})")
    for (spec, rs, d), ans in zip(rl_cases, ask_chunked(drv, rl_lines)):
        td = L.build(spec)
        try:
            with L.time_limit(30.0):
                r = td.repeat_interleave(_tq.tensor(rs, dtype=_tq.int64), dim=d)
            impl = ["ok", L.canon(r)]
        except Exception as e:  # noqa: BLE001
            L.slow_is_infra(e)
            impl = ["err", L.err_class(e)]
        run.case(("ril", str(rs), d, L.spec_sx(spec)))
        run.count("ril.outcome", impl[0] if impl[0] == "ok" else "err:" + impl[1])
        run.corr("td:repeat_interleave_tensor", {"kind": "repeat_interleave", "repeats": rs, "dim": d, "td": L.spec_sx(spec)}, impl, parse_sx(ans))
    # the Lean rendering of torch's repeat_interleave(tensor, dim) vs torch
    for shape in [(2,), (3,), (2, 3), (3, 1, 2), (2, 0, 2), (0, 2)]:
        for dd_ in range(len(shape)):
            for _ in range(3):
                rs = [rng.choice([0, 1, 2, 3]) for _ in range(shape[dd_])]
                t_ = _tq.arange(L.numel(shape), dtype=_tq.int64).reshape(shape)
                want = t_.repeat_interleave(_tq.tensor(rs, dtype=_tq.int64), dim=dd_)
                a_ = drv.ask(f"(c02.torch_ril ({' '.join(map(str, rs))}) {dd_} ({' '.join(map(str, shape))}))")
                run.corr("spec:ril", {"shape": list(shape), "repeats": rs, "dim": dd_}, ["ok", L.canon(want)], parse_sx(a_))

    # torch spec of repeat / repeat_interleave on plain provenance tensors
    import torch
    sp_cases, sp_lines = [], []
    for shape in ([(2,), (0,), (1, 3), (2, 3), (3, 1, 2), (2, 0, 2)] + ([] if quick else L.all_shapes(3))):
        if not shape:
            continue
        for _ in range(6):
            reps = tuple(rng.choice([0, 1, 2, 3]) for _ in shape)
            sp_cases.append(("repeat", shape, reps)); sp_lines.append(f"(c02.torch_repeat ({' '.join(map(str, reps))}) ({' '.join(map(str, shape))}))")
            d = rng.randrange(len(shape)); r = rng.choice([0, 1, 2, 3])
            sp_cases.append(("ri", shape, (r, d))); sp_lines.append(f"(c02.torch_ri {r} {d} ({' '.join(map(str, shape))}))")
    for (kind, shape, a), ans in zip(sp_cases, ask_chunked(drv, sp_lines)):
        t = torch.arange(L.numel(shape), dtype=torch.int64).reshape(shape)
        want = t.repeat(*a) if kind == "repeat" else t.repeat_interleave(a[0], dim=a[1])
        run.corr("spec:" + kind, {"shape": list(shape), "args": list(a)}, ["ok", L.canon(want)], parse_sx(ans))

    # ---- 3b'. gather: model (`gatherNode`, index of the batch rank) vs implementation (values, batch = index.shape, names, error class)
    g_cases, g_lines = [], []
    for i in range(200 if quick else 3000):
        rank = rng.choice([1, 2, 2, 3, 3])
        bs = tuple(rng.choice(L.DIMS if rng.random() < 0.3 else (1, 2, 3)) for _ in range(rank))
        spec = L.gen_tree(rng, bs, named=rng.random() < 0.45)
        d = rng.randrange(-rank - 1, rank + 1) if rng.random() < 0.15 else rng.randrange(-rank, rank)
        dd = (d + rank if d < 0 else d)
        dd = dd if 0 <= dd < rank else 0
        ishape = list(bs); ishape[dd] = rng.choice([0, 1, 2, 3]) if bs[dd] else 0
        if rank > 1 and rng.random() < 0.2:
            o = rng.choice([k for k in range(rank) if k != dd])
            ishape[o] = rng.choice([1, max(bs[o] - 1, 0), bs[o] + 1])
        hi = bs[dd]
        vals = [rng.randrange(hi) if hi else 0 for _ in range(L.numel(ishape))]
        if vals and hi and rng.random() < 0.05:
            vals[rng.randrange(len(vals))] = hi          # an index value out of range: torch raises in the leaf call
        g_cases.append((spec, d, tuple(ishape), vals))
        g_lines.append(f"(c02.gather {d} (idx ({' '.join(map(str, ishape))}) ({' '.join(map(str, vals))})) {L.spec_sx(spec)})")
    for (spec, d, ishape, vals), ans in zip(g_cases, ask_chunked(drv, g_lines)):
        td = L.build(spec)
        index = torch.tensor(vals, dtype=torch.int64).reshape(ishape)
        try:
            with L.time_limit(30.0):
                r = td.gather(d, index)
            impl = ["ok", L.canon(r)]
        except Exception as e:  # noqa: BLE001
            L.slow_is_infra(e)
            impl = ["err", L.err_class(e)]
        run.case(("gather", d, str(ishape), str(vals), L.spec_sx(spec)))
        run.count("gather.outcome", impl[0] if impl[0] == "ok" else "err:" + impl[1])
        run.corr("td:gather", {"dim": d, "index_shape": list(ishape), "index": vals, "td": L.spec_sx(spec)}, impl, parse_sx(ans))

    # ---- 3b''. masked_select: model (`mselNode`, mask over the leading k <= n batch dims) vs implementation
    m_cases, m_lines = [], []
    for i in range(200 if quick else 3000):
        rank = rng.choice([1, 2, 2, 3, 3])
        bs = tuple(rng.choice(L.DIMS if rng.random() < 0.3 else (1, 2, 3)) for _ in range(rank))
        spec = L.gen_tree(rng, bs, named=rng.random() < 0.45)
        k = rank if rng.random() < 0.6 else rng.randint(1, rank)
        mshape = list(bs[:k])
        if rng.random() < 0.08:
            j = rng.randrange(k); mshape[j] = mshape[j] + 1       # a mask that does not match the batch: IndexError in every entry
        vals = [1 if rng.random() < 0.5 else 0 for _ in range(L.numel(mshape))]
        m_cases.append((spec, tuple(mshape), vals))
        m_lines.append(f"(c02.msel (mask ({' '.join(map(str, mshape))}) ({' '.join(map(str, vals))})) {L.spec_sx(spec)})")
    for (spec, mshape, vals), ans in zip(m_cases, ask_chunked(drv, m_lines)):
        td = L.build(spec)
        mask = torch.tensor(vals, dtype=torch.bool).reshape(mshape)
        try:
            with L.time_limit(30.0):
                r = td.masked_select(mask)
            impl = ["ok", L.canon(r)]
        except Exception as e:  # noqa: BLE001
            L.slow_is_infra(e)
            impl = ["err", L.err_class(e)]
        run.case(("masked_select", str(mshape), str(vals), L.spec_sx(spec)))
        run.count("msel.outcome", impl[0] if impl[0] == "ok" else "err:" + impl[1])
        run.corr("td:masked_select", {"mask_shape": list(mshape), "mask": vals, "td": L.spec_sx(spec)}, impl, parse_sx(ans))

    # torch spec of gather / boolean-mask indexing on plain provenance tensors
    sp_cases, sp_lines = [], []
    for shape in ([(2,), (3,), (1, 3), (2, 3), (3, 1, 2), (2, 0, 2), (2, 2, 2)] + ([] if quick else [sh for sh in L.all_shapes(3) if sh])):
        for _ in range(4):
            n = len(shape)
            d = rng.randrange(n)
            ish = [rng.choice([x, x, max(x - 1, 0), x + 1]) if k != d else rng.choice([0, 1, 2, 3]) for k, x in enumerate(shape)]
            hi = shape[d]
            vals = [rng.randrange(hi) if hi else 0 for _ in range(L.numel(ish))]
            if vals and rng.random() < 0.1:
                vals[0] = hi
            sp_cases.append(("gather", shape, (d, tuple(ish), vals)))
            sp_lines.append(f"(c02.torch_gather {d} (idx ({' '.join(map(str, ish))}) ({' '.join(map(str, vals))})) ({' '.join(map(str, shape))}))")
            k = rng.randint(1, n)
            mv = [1 if rng.random() < 0.5 else 0 for _ in range(L.numel(shape[:k]))]
            sp_cases.append(("msel", shape, (tuple(shape[:k]), mv)))
            sp_lines.append(f"(c02.torch_msel (mask ({' '.join(map(str, shape[:k]))}) ({' '.join(map(str, mv))})) ({' '.join(map(str, shape))}))")
    for (kind, shape, a), ans in zip(sp_cases, ask_chunked(drv, sp_lines)):
        t = torch.arange(L.numel(shape), dtype=torch.int64).reshape(shape)
        try:
            if kind == "gather":
                want = ["ok", L.canon(torch.gather(t, a[0], torch.tensor(a[2], dtype=torch.int64).reshape(a[1])))]
            else:
                want = ["ok", L.canon(t[torch.tensor(a[1], dtype=torch.bool).reshape(a[0])])]
        except Exception as e:  # noqa: BLE001
            want = ["err", L.err_class(e)]
        run.corr("spec:" + kind, {"shape": list(shape), "args": [list(x) if isinstance(x, tuple) else x for x in a]}, want, parse_sx(ans))

    # torch spec of stack / cat on plain provenance tensors (valid operands; the argument checks are in `tdStack`/`tdCat`)
    sp_cases, sp_lines = [], []
    for shape in ([(2,), (0,), (1, 3), (2, 3), (3, 1, 2), (2, 0, 2)] + ([] if quick else [sh for sh in L.all_shapes(3) if sh])):
        for _ in range(3):
            n = len(shape); k = rng.choice([1, 2, 3, 4])
            d = rng.randrange(n + 1)
            sp_cases.append(("stack", d, [shape] * k))
            sp_lines.append(f"(c02.torch_stack {d} " + " ".join("(" + " ".join(map(str, shape)) + ")" for _ in range(k)) + ")")
            d = rng.randrange(n)
            shs = [tuple(rng.choice([0, 1, 2, 3]) if j == d else x for j, x in enumerate(shape)) for _ in range(k)]
            sp_cases.append(("cat", d, shs))
            sp_lines.append(f"(c02.torch_cat {d} " + " ".join("(" + " ".join(map(str, sh)) + ")" for sh in shs) + ")")
    for (kind, d, shs), ans in zip(sp_cases, ask_chunked(drv, sp_lines)):
        ts = [torch.arange(L.numel(sh), dtype=torch.int64).reshape(sh) + 100000 * i for i, sh in enumerate(shs)]
        want = torch.stack(ts, d) if kind == "stack" else torch.cat(ts, d)
        run.corr("spec:" + kind, {"dim": d, "shapes": [list(x) for x in shs]}, ["ok", L.canon(want)], parse_sx(ans))

    # ---- 3c. torch.stack / torch.cat of 1-4 tensordicts: model vs implementation (values, batch, names, error class)
    import torch as _torch
    sc_cases, sc_lines = [], []
    for i in range(400 if quick else 5000):
        kind = rng.choice(["stack", "cat"])
        rank = rng.choice([0, 1, 2, 2, 3]) if kind == "stack" else rng.choice([1, 2, 2, 3])
        bs = tuple(rng.choice(L.DIMS if rng.random() < 0.35 else (1, 2, 3)) for _ in range(rank))
        spec = L.gen_tree(rng, bs, named=rng.random() < 0.45)
        k = rng.choice([1, 2, 2, 3, 4])
        wild = rng.random() < 0.25
        n = rank
        if kind == "stack":
            d = rng.randint(-n - 3, n + 2) if wild else rng.randint(-n - 1, n)
            specs = [spec] * k
        else:
            d = rng.randint(-n - 2, n + 1) if wild else rng.randrange(-n, n)
            dd = (d + n if d < 0 else d) % max(n, 1)
            specs = [L.resize_dim(spec, dd, rng.choice([0, 1, 2, 3])) for _ in range(k)]
        if wild and k > 1:
            r = rng.random()
            if r < 0.3 and specs[-1][3]:
                specs = specs[:-1] + [L.drop_key(specs[-1], specs[-1][3][0][0])]        # mismatching key sets
            elif r < 0.6 and n:
                specs = specs[:-1] + [L.resize_dim(specs[-1], rng.randrange(n), 5)]   # mismatching sizes
        if k > 1 and rng.random() < 0.5:
            # operands filled in different key orders: entries are paired by KEY (model: `lookupEntry`)
            def _rot(sp_, r_):
                ents = [(kk, (_rot(e, r_) if e[0] == "node" else e)) for kk, e in sp_[3]]
                if ents:
                    ents = ents[r_ % len(ents):] + ents[:r_ % len(ents)]
                return ("node", sp_[1], sp_[2], ents)
            specs = [_rot(sp, j) for j, sp in enumerate(specs)]
        sc_cases.append((kind, specs, d))
        sc_lines.append(f"(c02.{kind} {d} " + " ".join(L.spec_sx_off(sp, 100000 * j) for j, sp in enumerate(specs)) + ")")
    for (kind, specs, d), ans in zip(sc_cases, ask_chunked(drv, sc_lines)):
        tds = [L.build_offset(sp, 100000 * j) for j, sp in enumerate(specs)]
        try:
            with L.time_limit(30.0):
                r = (_torch.stack if kind == "stack" else _torch.cat)(tds, d)
            impl = ["ok", L.canon_sorted(r)]
        except Exception as e:  # noqa: BLE001
            L.slow_is_infra(e)
            impl = ["err", L.err_class(e)]
        m = parse_sx(ans)
        model = ["ok", L.sort_parsed(m[1])] if m[0] == "ok" else m
        run.case((kind, d, tuple(L.spec_sx(sp) for sp in specs)))
        run.count("stackcat.outcome", impl[0] if impl[0] == "ok" else "err:" + impl[1])
        run.corr("td:" + kind, {"kind": kind, "dim": d, "tds": [L.spec_sx(sp) for sp in specs]}, impl, model)
        if impl[0] == "ok" and zlib.crc32(ans.encode()) % 3 == 0:
            # the `out=` variant: a destination of the right structure, zeroed, must end up holding what the model says (and be what is returned)
            try:
                with L.time_limit(30.0):
                    out = r.clone()
                    out.apply_(lambda t_: t_.zero_())
                    r2 = (_torch.stack if kind == "stack" else _torch.cat)(tds, d, out=out)
                impl_out = ["ok", L.canon_sorted(out)] if (r2 is None or r2 is out) else ["err", "returned-another-object"]
            except Exception as e:  # noqa: BLE001
                L.slow_is_infra(e)
                impl_out = ["err", L.err_class(e)]
            run.corr("td:" + kind + "_out", {"kind": kind + "_out", "dim": d, "tds": [L.spec_sx(sp) for sp in specs]}, impl_out, model)

    # ---- 4. extended domain (oracle only): repeat / repeat_interleave / gather / masked_select / stack / cat (+ out=)
    for i in range(700 if quick else 8000):
        kind, specs, args = L.gen_ext(rng)
        run.case(("ext", kind, str(args), L.spec_sx(specs[0]), len(specs)))
        L.oracle_ext(run, kind, specs, args)
        if kind in ("repeat", "repeat_interleave", "gather", "masked_select"):
            # the same case on a tensorclass / on a lazy stack
            r = rng.random()
            if r < 0.3:
                L.oracle_ext(run, kind, specs, args, container="tc", rng=rng)
            elif r < 0.6:
                L.oracle_ext(run, kind, specs, args, container="lazy", rng=rng)

    # ---- 4b. the single-operand kinds on a lazy stack, ARGUMENT GRID: every stack dim x every dim (a defect in one (stack dim, dim)
    # branch of _lazy.py:repeat_interleave / repeat / gather / masked_select must not depend on the seed)
    import torch as _t
    for shape in [(2, 3), (2, 1, 3), (3, 2, 2)] + ([] if quick else [(2, 3, 1, 2), (1, 2, 3)]):
        n = len(shape)
        spec = L.gen_tree(rng, shape, named=True, nested=rng.random() < 0.5, allow_empty=False)
        for sd in range(n):
            for d in range(n):
                dd = d - n if (d + sd) % 2 else d
                reps = tuple(2 if j == d else 1 for j in range(n))
                ish = list(shape); ish[d] = 2
                index = _t.tensor([(j * 7 + 1) % shape[d] for j in range(L.numel(ish))], dtype=_t.int64).reshape(ish)
                cases4 = [("repeat_interleave", (2, dd)), ("repeat_interleave", (_t.tensor([((j + 1) % 3) for j in range(shape[d])], dtype=_t.int64), dd)),
                          ("repeat", (reps,)), ("gather", (dd, index))]
                for kind, args in cases4:
                    run.case(("ext-lazy-grid", kind, shape, sd, d))
                    L.oracle_ext(run, kind, [spec], args, container="lazy", rng=rng, stack_dim=sd, valid_call=True)
            for k in range(1, n + 1):
                mshape = shape[:k]
                mask = _t.tensor([(j % 3) != 1 for j in range(L.numel(mshape))], dtype=_t.bool).reshape(mshape)
                run.case(("ext-lazy-grid", "masked_select", shape, sd, k))
                L.oracle_ext(run, "masked_select", [spec], (mask,), container="lazy", rng=rng, stack_dim=sd, valid_call=True)

    for s in [("permute", (1, 0)), ("flatten", 0, -1), ("splitlist", (1, 2), 1)]:
        spec = L.node((2, 3), ("a", None), [("x0", L.leaf((2, 3, 2))), ("n", L.node((2, 3, 2), None, [("y0", L.leaf((2, 3, 2)))]))])
        if s[0] == "permute":
            run.sample({"stream": "td", "op": list(s), "td": L.spec_sx(spec), "model": drv.ask(f"(c02.td {L.op_sx(s)} {L.spec_sx(spec)})")})
        else:
            run.sample({"stream": "spec", "op": list(s), "shape": [2, 3], "model": drv.ask(f"(c02.torch {L.op_sx(s)} (2 3))")})
    if not quick:
        run.leanchecker(["TdVerif.Props.C02"])
    run.finish("proof")


if __name__ == "__main__":
    main_guard(main)
