"""C03 — write streams (td[idx] = value), extended-domain oracle runs, fixed witnesses."""
from __future__ import annotations

import json

import torch

import c03_gen as G
import c03_streams as S
from common import err_class, parse_sx, time_limit

TL = S.TL


# ----------------------------------------------------------------------------- values
def value_tensor(vshape):
    """distinct negative entries: element k of the value is -(k+1)"""
    return -(torch.arange(G.numel(vshape), dtype=torch.long) + 1).reshape(list(vshape))


def value_py(value):
    """value = ("scalar",) | ("tensor", vshape)"""
    if value[0] == "scalar":
        return -1
    return value_tensor(value[1])


def value_shape(value):
    return [] if value[0] == "scalar" else list(value[1])


def leaf_keys(spec):
    keys = [((f"l{k}",), list(spec["bs"]) + list(f), len(f)) for k, f in enumerate(spec["feats"])]
    for j, (extra, feats) in enumerate(spec["nested"]):
        keys += [((f"n{j}", f"m{k}"), list(spec["bs"]) + list(extra) + list(f), len(extra) + len(f)) for k, f in enumerate(feats)]
    return keys


def written_map(t: torch.Tensor):
    """-1 where the provenance value survived, else the flat offset in the value tensor"""
    flat = t.reshape(-1).tolist()
    return [-1 if v >= 0 else (-v - 1) for v in flat]


def has_duplicates(spec, idx):
    try:
        r = S.prov(spec["bs"])[G.index_py(idx)].reshape(-1).tolist()
    except Exception:
        return False
    return len(set(r)) != len(r)


def blur(ans):
    """positions hit twice: only *that* they were written is compared"""
    return [["ok"] + [[-1 if x == -1 else 0 for x in leaf] for leaf in ans[1:]]][0] if isinstance(ans, list) and ans and ans[0] == "ok" else ans


def impl_set(spec, idx, value):
    td = S.build_td(spec)
    try:
        with time_limit(TL):
            td[G.index_py(idx)] = value_py(value)
    except TimeoutError:
        raise
    except Exception as e:
        return ["err", err_class(e)], td
    return ["ok"] + [written_map(td.get(k)) for k, _, _ in leaf_keys(spec)], td


def oracle_write(run, spec, idx, value, site="setitem", impl=None, td=None):
    case = {"mode": "write", "td": spec, "idx": idx, "idx_str": G.index_json(idx), "value": list(value)}
    if impl is None:
        impl, td = impl_set(spec, idx, value)
    py = G.index_py(idx)
    try:
        torch.zeros(spec["bs"])[py]
        ref_err = None
    except Exception as e:
        ref_err = err_class(e)
    if ref_err is not None:
        if S.outcome(impl) != "err":
            run.oracle_fail(site, case, f"torch rejects this index on a tensor of the batch shape ({ref_err}); the assignment was accepted", S.classify_accept(spec, idx))
        else:
            run.oracle_ok(site)
        return
    # torch on every entry
    v = value_py(value)
    expected, terr = {}, None
    for key, shape, nfeat in leaf_keys(spec):
        e = S.prov(shape).clone()
        try:
            e[S.pad_for_leaf(idx, nfeat)] = v
        except Exception as ex:
            terr = (key, err_class(ex))
            break
        expected[key] = e
    if terr is not None:
        if S.outcome(impl) != "err":
            run.oracle_fail(site, case, f"torch rejects entry{list(terr[0])}[idx] = value ({terr[1]}); the tensordict assignment was accepted", "write-accepts-rejected:" + G.stage_of(idx))
        else:
            run.oracle_ok(site)
        return
    if S.outcome(impl) == "err":
        run.oracle_fail(site, case, f"torch accepts entry[idx] = value for every entry; the tensordict raised {impl[1]}", S.classify_reject(spec, idx).replace("rejects-accepted", "write-rejects-accepted"))
        return
    dup = has_duplicates(spec, idx) and G.numel(value_shape(value)) > 1
    probs = []
    for key, shape, nfeat in leaf_keys(spec):
        got, want = td.get(key), expected[key]
        if dup:
            same = torch.equal(got < 0, want < 0)
        else:
            same = torch.equal(got, want)
        if not same:
            probs.append(f"{list(key)}: content {got.reshape(-1).tolist()[:16]} expected {want.reshape(-1).tolist()[:16]}")
    if probs:
        run.oracle_fail(site, case, "; ".join(probs)[:600], "write-values:" + G.stage_of(idx))
    else:
        run.oracle_ok(site)


def gen_value(rng, spec, idx):
    r = rng.random()
    if r < 0.4:
        return ("scalar",)
    try:
        sb = list(torch.zeros(spec["bs"])[G.index_py(idx)].shape)
    except Exception:
        sb = [rng.randint(1, 3) for _ in range(rng.randint(0, 2))]
    feat = list(spec["feats"][0]) if spec["feats"] else []
    full = sb + feat
    if r < 0.65:
        return ("tensor", full)
    if r < 0.8:
        k = rng.randint(0, len(full))
        return ("tensor", [1 if rng.random() < 0.3 else s for s in full[k:]])
    if r < 0.9:
        return ("tensor", [1] * rng.randint(1, 2) + full)
    return ("tensor", [rng.randint(0, 3) for _ in range(rng.randint(1, 3))])


def gen_write_spec(rng, bs):
    spec = S.gen_td_spec(rng, bs)
    spec["names"] = None
    if rng.random() < 0.65:
        f = rng.choice([[], [], [2], [1], [2, 3]])
        spec["feats"] = [list(f) for _ in spec["feats"]]
        spec["nested"] = [(e if rng.random() < 0.5 else [], [list(f) for _ in fs]) for e, fs in spec["nested"]]
    return spec


def set_sx(spec, idx, value):
    leaves = "(leaves" + "".join(" " + S.shape_sx("f", f) for f in spec["feats"]) + ")"
    nested = "(nested" + "".join(f" ({S.shape_sx('e', e)} (" + " ".join(S.shape_sx("f", f) for f in fs) + "))" for e, fs in spec["nested"]) + ")"
    return f"(c03.set {S.shape_sx('bs', spec['bs'])} {leaves} {nested} {G.index_sx(idx)} {S.shape_sx('v', value_shape(value))})"


def setitem(run, drv):
    rng = run.rng
    n = 5000 if run.tier == "quick" else 30000
    cases = []
    for _ in range(n):
        bs = G.gen_bs(rng)
        spec = gen_write_spec(rng, bs)
        idx = G.gen_index_adv(rng, bs) if rng.random() < 0.25 else G.gen_index(rng, bs)
        if sum(1 for t in G.items_of(idx) if t == G.ELL) > 1:
            continue
        cases.append((spec, idx, gen_value(rng, spec, idx)))
    # TorchSpec.setIndex against torch on bare tensors
    tcases = [(list(spec["bs"]) + list(spec["feats"][0]), idx, v) for spec, idx, v in cases[: len(cases) // 2]]
    answers = S.ask_chunked(drv, [f"(c03.torchset {S.shape_sx('shape', d)} {G.index_sx(i)} {S.shape_sx('v', value_shape(v))})" for d, i, v in tcases])
    for (dims, idx, value), a in zip(tcases, answers):
        m = parse_sx(a)
        x = S.prov(dims)
        try:
            x[G.index_py(idx)] = value_py(value)
            t = ["ok"] + written_map(x)
        except Exception as e:
            t = ["err", err_class(e)]
        dup = G.numel(value_shape(value)) > 1
        if dup:
            try:
                r = S.prov(dims)[G.index_py(idx)].reshape(-1).tolist()
                dup = len(set(r)) != len(r)
            except Exception:
                dup = False
        if dup and S.outcome(t) == "ok" and S.outcome(m) == "ok":
            t, m = ["ok"] + [-1 if x == -1 else 0 for x in t[1:]], ["ok"] + [-1 if x == -1 else 0 for x in m[1:]]
        if S.outcome(t) == "err" and S.outcome(m) == "err":
            t, m = "err", "err"
        run.case(("tset", tuple(dims), G.index_sx(idx), json.dumps(value)))
        run.corr("spec_vs_torch_setitem", {"dims": dims, "idx": G.index_json(idx), "value": list(value)}, t, m)
    # td[idx] = value
    answers = S.ask_chunked(drv, [set_sx(spec, idx, v) for spec, idx, v in cases])
    for (spec, idx, value), a in zip(cases, answers):
        m = parse_sx(a)
        impl, td = impl_set(spec, idx, value)
        run.case(("set", json.dumps(spec, sort_keys=True), G.index_sx(idx), json.dumps(value)))
        run.count("set.stage", G.stage_of(idx))
        run.count("set.value", value[0] if value[0] == "scalar" else f"tensor{len(value[1])}d")
        run.count("set.outcome", S.outcome(impl) if S.outcome(impl) != "err" else "err-" + impl[1])
        ci, cm = impl, m
        if has_duplicates(spec, idx) and G.numel(value_shape(value)) > 1:
            ci, cm = blur(impl), blur(m)
        if S.outcome(ci) == "err" and S.outcome(cm) == "err":
            run.corr("setitem", None, "err", "err")
        else:
            run.corr("setitem", {"td": spec, "idx": G.index_json(idx), "idx_raw": idx, "value": list(value)}, ci, cm)
        oracle_write(run, spec, idx, value, impl=impl, td=td)
    run.sample({"stream": "setitem", "td": {"bs": [2], "feats": [[], [2]]}, "idx": "[1]", "value": "scalar",
                "model": drv.ask("(c03.set (bs 2) (leaves (f) (f 2)) (nested) (tuple (int 1)) (v))")})


# ----------------------------------------------------------------------------- collection values (dict / TensorDict)
def gen_coll_case(rng):
    """(spec, idx, kind, vb, entries) with entries = [(target index | "new", full shape)]; values that can at least be built"""
    bs = G.gen_bs(rng)
    idx = G.gen_index_adv(rng, bs) if rng.random() < 0.2 else G.gen_index(rng, bs, p_bad=0.04, p_overrun=0.04)
    if sum(1 for t in G.items_of(idx) if t == G.ELL) > 1:
        return None
    spec = S.gen_td_spec(rng, bs)
    spec["nested"], spec["names"] = [], None
    try:
        sb = list(torch.zeros(bs)[G.index_py(idx)].shape)
    except Exception:
        sb = [rng.randint(1, 3) for _ in range(rng.randint(0, 2))]
    kind = rng.choice(["td", "td", "dict"])
    r = rng.random()
    if r < 0.45:
        vb, how = list(sb), "exact"
    elif r < 0.65 and sb:
        vb, how = sb[rng.randint(1, len(sb)):], "suffix"            # expand on the left (or `[]`: batch reassigned)
    elif r < 0.75:
        vb, how = [], "batchless"
    elif r < 0.85:
        vb, how = list(sb) + [rng.choice([1, 2])], "longer"
    else:
        vb, how = [rng.randint(0, 3) for _ in range(rng.randint(0, 3))], "random"
    keys = list(range(len(spec["feats"])))
    sub = [k for k in keys if rng.random() < 0.7] or keys[:1]
    entries = []
    for k in sub:
        f = list(spec["feats"][k])
        rr = rng.random()
        if how == "batchless" and rr < 0.6:
            shape = list(sb) + f                      # a batch-less value whose entries already have the indexed shape
        elif how == "longer":
            shape = vb + f[1:] if f and f[0] == vb[-1] else vb + f
        elif rr < 0.85:
            shape = vb + f
        elif rr < 0.93:
            shape = vb + [1 if rng.random() < 0.5 else x for x in f]
        else:
            shape = vb + [rng.randint(1, 3)]
        entries.append((k, shape))
    if rng.random() < 0.3:
        entries.append(("new", (list(sb) if how == "batchless" else vb) + [2]))
    if kind == "dict":
        vb = []
    # the value must be constructible: every entry starts with vb
    if any(e[1][:len(vb)] != vb for e in entries):
        return None
    return spec, idx, kind, vb, entries, how


def coll_sx(spec, idx, kind, vb, entries):
    leaves = "(leaves" + "".join(" " + S.shape_sx("f", f) for f in spec["feats"]) + ")"
    es = "(" + " ".join(f"({t} {S.shape_sx('s', sh)})" for t, sh in entries) + ")"
    return f"(c03.setcoll {S.shape_sx('bs', spec['bs'])} {leaves} {G.index_sx(idx)} {kind} {S.shape_sx('vb', vb)} {es})"


def setcoll(run, drv):
    """td[idx] = dict / TensorDict: correspondence with Td.setitemColl + the property oracle (torch on every entry)"""
    from tensordict import TensorDict
    rng = run.rng
    n = 3500 if run.tier == "quick" else 25000
    cases = [c for c in (gen_coll_case(rng) for _ in range(n)) if c is not None]
    answers = S.ask_chunked(drv, [coll_sx(spec, idx, kind, vb, entries) for spec, idx, kind, vb, entries, how in cases])
    for (spec, idx, kind, vb, entries, how), a in zip(cases, answers):
        m = parse_sx(a)
        run.case(("coll", json.dumps(spec, sort_keys=True), G.index_sx(idx), kind, json.dumps(vb), json.dumps(entries)))
        run.count("coll.kind", kind + ":" + how)
        names = {t: ("new" if t == "new" else f"l{t}") for t, _ in entries}
        val = {names[t]: value_tensor(sh) for t, sh in entries}
        try:
            vobj = val if kind == "dict" else TensorDict(val, batch_size=vb)
        except Exception:
            run.count("coll.kind", "unbuildable")
            continue
        td = S.build_td(spec)
        before = {k: td.get(k).clone() for k in td.keys()}
        try:
            with time_limit(TL):
                td[G.index_py(idx)] = vobj
            impl = ["ok"] + [[("new" if t == "new" else t), ["shape"] + list(td.get(names[t]).shape), written_map(td.get(names[t]))] for t, _ in entries]
        except TimeoutError:
            raise
        except Exception as e:
            impl = ["err", err_class(e)]
        run.count("coll.outcome", S.outcome(impl) if S.outcome(impl) != "err" else "err-" + impl[1])
        ci, cm = impl, m
        if has_duplicates(spec, idx) and S.outcome(ci) == "ok" and S.outcome(cm) == "ok":
            ci = ["ok"] + [[e[0], e[1], [-1 if x == -1 else 0 for x in e[2]]] for e in ci[1:]]
            cm = ["ok"] + [[e[0], e[1], [-1 if x == -1 else 0 for x in e[2]]] for e in cm[1:]]
        if S.outcome(ci) == "err" and S.outcome(cm) == "err":
            run.corr("setitem_collection", None, "err", "err")
        else:
            run.corr("setitem_collection", {"td": spec, "idx": G.index_json(idx), "idx_raw": idx, "kind": kind, "vb": vb, "entries": entries}, ci, cm)
        # ---- oracle: torch on every entry (value entries broadcast the way torch broadcasts `entry[idx] = value[key]`)
        site = "setitem-collection"
        case = {"mode": "write-collection", "td": spec, "idx": idx, "idx_str": G.index_json(idx), "kind": kind, "value_batch": vb, "entries": entries}
        try:
            sb = list(torch.zeros(spec["bs"])[G.index_py(idx)].shape)
        except Exception as e:
            if S.outcome(impl) != "err":
                run.oracle_fail(site, case, f"torch rejects this index on a tensor of the batch shape ({err_class(e)}); the assignment was accepted", S.classify_accept(spec, idx))
            else:
                run.oracle_ok(site)
            continue
        expected, terr, judge_new = {}, None, True
        for t, sh in entries:
            if t == "new":
                # a key missing from the destination: a zero entry of the batch shape (+ the value's feature dims) written at idx.
                # Judged only where the value's batch dims are unambiguous: a TensorDict whose batch is the indexed batch or a
                # trailing part of it (feature dims = what follows its own batch dims), a dict whose entries start with the indexed batch.
                if kind == "td" and how in ("exact", "suffix") and vb:
                    feat = sh[len(vb):]
                elif (kind == "dict" or how == "exact") and sh[:len(sb)] == sb:
                    feat = sh[len(sb):]
                else:
                    judge_new = False
                    continue
                e = torch.zeros(list(spec["bs"]) + feat, dtype=torch.long)
                nfeat = len(feat)
            else:
                e = before[f"l{t}"].clone()
                nfeat = len(spec["feats"][t])
            try:
                e[S.pad_for_leaf(idx, nfeat)] = val[names[t]]
            except Exception as ex:
                terr = err_class(ex)
                break
            expected[names[t]] = e
        if terr is not None:
            if S.outcome(impl) != "err":
                run.oracle_fail(site, case, f"torch rejects entry[idx] = value[key] ({terr}); the tensordict assignment was accepted", "collection-accepts-rejected:" + how)
            else:
                run.oracle_ok(site)
            continue
        if S.outcome(impl) == "err":
            # torch would accept every entry[idx] = value[key]. The property does not oblige the tensordict to accept every
            # *value* torch could broadcast (it speaks of indices and of which elements change): judged only when the value's
            # batch is exactly the indexed batch, where nothing but the index is in play.
            if how == "exact":
                run.oracle_fail(site, case, f"torch accepts entry[idx] = value[key] for every key and the value has the indexed batch size; the tensordict raised {impl[1]}", "collection-rejects-accepted:" + kind + ":" + idx[0] + ":" + G.stage_of(idx))
            else:
                run.count("coll.rejected_broadcastable_value(not judged)", how)
                run.oracle_ok(site)
            continue
        dup = has_duplicates(spec, idx)
        probs = []
        for k, b in before.items():
            want = expected.get(k, b)
            got = td.get(k)
            same = (got.shape == want.shape) and (torch.equal(got < 0, want < 0) if dup else torch.equal(got, want))
            if not same:
                probs.append(f"{k}: {got.reshape(-1).tolist()[:12]} expected {want.reshape(-1).tolist()[:12]}")
        if "new" in expected and judge_new:
            if "new" not in td.keys():
                probs.append("new: missing after the assignment")
            else:
                got, want = td.get("new"), expected["new"]
                same = (got.shape == want.shape) and (torch.equal(got < 0, want < 0) if dup else torch.equal(got, want))
                if not same:
                    probs.append(f"new: shape {list(got.shape)} {got.reshape(-1).tolist()[:12]} expected shape {list(want.shape)} {want.reshape(-1).tolist()[:12]}")
        if probs:
            run.oracle_fail(site, case, "; ".join(probs)[:500], "collection-values:" + how)
        else:
            run.oracle_ok(site)


# ----------------------------------------------------------------------------- numpy index arrays
def extended(run, drv):
    """numpy index arrays (integer arrays of rank 0..2, boolean masks) in place of tensors: the model treats them as the
    tensors they stand for, so the same model answer must come out, names included (correspondence `getitem_numpy`; before
    fix: b043c05 `_get_names_idx.is_boolean` did not recognise numpy masks), plus the property oracle."""
    rng = run.rng
    n = 1500 if run.tier == "quick" else 10000
    cases = []
    for _ in range(n):
        bs = G.gen_bs(rng)
        idx = G.gen_index_adv(rng, bs) if rng.random() < 0.25 else G.gen_index(rng, bs, p_bad=0.04, p_overrun=0.03)
        if sum(1 for t in G.items_of(idx) if t == G.ELL) > 1:
            continue
        if not any(it[0] in ("tensor", "mask", "int") for it in G.items_of(idx)):
            continue
        spec = S.gen_td_spec(rng, bs)
        cases.append((spec, idx))
    answers = S.ask_chunked(drv, [f"(c03.get {S.td_sx(spec)} {G.index_sx(idx)})" for spec, idx in cases])
    for (spec, idx), a in zip(cases, answers):
        m = S.fix_model_get(parse_sx(a), spec)
        impl, td, r = S.impl_get(spec, idx, as_numpy=True)
        run.count("ext.kind", "numpy-read")
        run.case(("ext", "numpy", json.dumps(spec, sort_keys=True), G.index_sx(idx)))
        if S.outcome(impl) == "err" and S.outcome(m) == "err":
            run.corr("getitem_numpy", None, "err", "err")
        else:
            run.corr("getitem_numpy", {"td": spec, "idx": G.index_json(idx), "idx_raw": idx, "numpy": True}, impl, m)
        S.oracle_read(run, spec, idx, impl, td, r, site="ext-numpy", as_numpy=True)


# ----------------------------------------------------------------------------- fixed witnesses of the known defects
WITNESSES = [
    # DESIGN §7 row 6: indices running into feature dims (repaired by fix: 6d7b971: must now pass)
    ({"bs": [2], "names": None, "feats": [[3]], "nested": []}, ("tuple", [("int", 0), ("int", 0)])),
    ({"bs": [2], "names": None, "feats": [[3]], "nested": []}, ("tuple", [G.FULL, G.FULL, G.FULL])),
    ({"bs": [], "names": None, "feats": [[3]], "nested": []}, ("single", G.FULL)),
    # no entry has exactly the batch shape / no entry at all: the index is never checked against the batch shape
    # (known finding C03-index-unchecked-without-strict-leaf; Lean: getitem_unchecked_counterexample)
    ({"bs": [3], "names": None, "feats": [], "nested": []}, ("single", ("int", 5))),
    ({"bs": [3], "names": None, "feats": [[0]], "nested": []}, ("single", ("list", [7]))),
    # DESIGN §7 row 8: mask of rank 2 together with an Ellipsis (repaired by fix: 8500f41: must now pass)
    ({"bs": [2, 3], "names": None, "feats": [[]], "nested": []}, ("tuple", [("mask", [2, 3], [1, 0, 0, 1, 1, 0]), G.ELL])),
    # DESIGN §7 row 7 (repaired by the fix: commit): must now pass
    ({"bs": [3, 2, 4], "names": None, "feats": [[]], "nested": []}, ("tuple", [G.FULL, ("list", [0, 1]), G.NONE, ("list", [0, 1])])),
    ({"bs": [3, 4, 2], "names": None, "feats": [[]], "nested": []}, ("tuple", [("tensor", [], [0]), G.FULL, ("list", [0, 1])])),
]


def witnesses(run, drv):
    for spec, idx in WITNESSES:
        impl, td, r = S.impl_get(spec, idx)
        run.case(("witness", json.dumps(spec, sort_keys=True), G.index_sx(idx)))
        S.oracle_read(run, spec, idx, impl, td, r, site="witness")
    # whole-entry writes on a tensordict that also holds non-tensor data (td[()] = v, td[...] = v on a 0-d tensordict):
    # `entry[idx] = value[key]` for the tensor entry, the non-tensor entry takes the value's payload (repaired by fix: dd9955b;
    # before it tensorclass._getitem took the empty tuple for a tuple of keys and raised ValueError)
    from tensordict import NonTensorData, TensorDict
    for bs, idxs in (([], [Ellipsis, ()]), ([3], [()])):
        for as_dict in (False, True):
            for ix in idxs:
                case = {"mode": "write-nontensor", "bs": bs, "idx": repr(ix), "value": "dict" if as_dict else "TensorDict"}
                run.case(("witness-nontensor", json.dumps(case)))
                td = TensorDict({"a": torch.zeros(bs), "nt": NonTensorData("x", batch_size=bs)}, bs)
                val = {"a": torch.ones(bs), "nt": NonTensorData("y", batch_size=bs)}
                try:
                    with time_limit(TL):
                        td[ix] = val if as_dict else TensorDict(val, bs)
                    nt = td.get("nt").tolist()
                    flat = nt if isinstance(nt, str) else [x for x in nt]
                    good = bool((td.get("a") == 1).all()) and (flat == "y" or (isinstance(flat, list) and all(x == "y" for x in flat)))
                    if good:
                        run.oracle_ok("witness-nontensor")
                    else:
                        run.oracle_fail("witness-nontensor", case, f"after the assignment a = {td.get('a').tolist()} nt = {nt} (expected ones and 'y')", "nontensor-whole-entry-write:wrong-content")
                except TimeoutError:
                    raise
                except Exception as e:
                    run.oracle_fail("witness-nontensor", case, f"torch accepts a[idx] = value['a']; the tensordict raised {type(e).__name__}: {str(e)[:120]}", "nontensor-whole-entry-write:raises")
    # the former names counter-witness (repaired by the fix: "one name per dim of an advanced-indexed result"; Lean: the
    # `example` after `names_one_per_dim`): three names for the three batch dims, the broadcast dim in front and unnamed
    spec = {"bs": [3, 2, 4], "names": ["a", "b", "c"], "feats": [[]], "nested": []}
    r = S.build_td(spec)[:, [0, 1], None, [0, 1]]
    run.notes.append(f"names witness td[:, [0,1], None, [0,1]] (names a,b,c): batch_size {list(r.batch_size)} names {r.names} "
                     f"(Lean model: batch [2,3,1], names [None,a,None])")
    if list(r.batch_size) != [2, 3, 1] or r.names != [None, "a", None]:
        run.corr("names_witness", "td[:, [0,1], None, [0,1]]", [list(r.batch_size), r.names], [[2, 3, 1], [None, "a", None]])
    else:
        run.corr("names_witness", None, "same", "same")
    # the excluded point of the grammar: several Ellipses (torch 2.14 accepts, tensordict raises) — recorded, not judged
    try:
        S.build_td({"bs": [2, 3], "names": None, "feats": [[]], "nested": []})[..., ...]
        run.notes.append("excluded point td[..., ...]: accepted")
    except Exception as e:
        run.notes.append(f"excluded point td[..., ...]: tensordict raises {type(e).__name__} (torch 2.14 accepts x[..., ...]); outside the property's grammar")


# ----------------------------------------------------------------------------- collection values with a nested tensordict
def gen_colln_case(rng):
    """td with one nested tensordict n0 (extra batch dims `ex`, leaves m0..); value = TensorDict({n0: TensorDict(entries, vb + cbx)}, vb)"""
    bs = G.gen_bs(rng)
    idx = G.gen_index_adv(rng, bs) if rng.random() < 0.2 else G.gen_index(rng, bs, p_bad=0.04, p_overrun=0.04)
    if sum(1 for t in G.items_of(idx) if t == G.ELL) > 1:
        return None
    ex = rng.choice([[], [2], [1], [2, 3]])
    feats = [[]] + ([[2]] if rng.random() < 0.5 else [])
    try:
        sb = list(torch.zeros(bs)[G.index_py(idx)].shape)
    except Exception:
        sb = [rng.randint(1, 3) for _ in range(rng.randint(0, 2))]
    r = rng.random()
    if r < 0.5:
        vb, how = list(sb), "exact"
    elif r < 0.7 and sb:
        vb, how = sb[rng.randint(1, len(sb)):], "suffix"
    elif r < 0.8:
        vb, how = [], "batchless"
    else:
        vb, how = [rng.randint(0, 3) for _ in range(rng.randint(0, 2))], "random"
    cbx = list(ex) if rng.random() < 0.75 else rng.choice([[], [2], [3]])
    if how == "batchless" and rng.random() < 0.6:
        cbx = list(sb) + list(ex)
    entries = []
    for k, f in enumerate(feats):
        if rng.random() < 0.8:
            sh = vb + cbx + (f if rng.random() < 0.9 else [rng.randint(1, 3)])
            entries.append((k, sh))
    if not entries:
        entries.append((0, vb + cbx))
    if rng.random() < 0.2:
        entries.append(("new", vb + cbx + [2]))
    return {"bs": bs, "ex": ex, "feats": feats}, idx, vb, cbx, entries, how


def colln_sx(spec, idx, vb, cbx, entries):
    leaves = "(leaves" + "".join(" " + S.shape_sx("f", f) for f in spec["feats"]) + ")"
    es = "(" + " ".join(f"({t} {S.shape_sx('s', sh)})" for t, sh in entries) + ")"
    return (f"(c03.setcolln {S.shape_sx('bs', spec['bs'])} {S.shape_sx('e', spec['ex'])} {leaves} {G.index_sx(idx)} "
            f"{S.shape_sx('vb', vb)} {S.shape_sx('cbx', cbx)} {es})")


def setcoll_nested(run, drv):
    """td[idx] = TensorDict({n0: TensorDict(...)}) with n0 a nested tensordict of td: the recursion of __setitem__ into the nested
    entry — correspondence with Td.setitemCollNested and the oracle (torch on every nested leaf, other leaves untouched)"""
    from tensordict import TensorDict
    rng = run.rng
    n = 2000 if run.tier == "quick" else 15000
    cases = [c for c in (gen_colln_case(rng) for _ in range(n)) if c is not None]
    answers = S.ask_chunked(drv, [colln_sx(spec, idx, vb, cbx, entries) for spec, idx, vb, cbx, entries, how in cases])
    for (spec, idx, vb, cbx, entries, how), a in zip(cases, answers):
        m = parse_sx(a)
        bs, ex = spec["bs"], spec["ex"]
        run.case(("colln", json.dumps(spec), G.index_sx(idx), json.dumps(vb), json.dumps(cbx), json.dumps(entries)))
        run.count("colln.kind", how)
        names = {t: ("new" if t == "new" else f"m{t}") for t, _ in entries}
        val = {names[t]: value_tensor(sh) for t, sh in entries}
        try:
            child = TensorDict(val, batch_size=vb + cbx)
            vobj = TensorDict({"n0": child}, batch_size=vb)
        except Exception:
            run.count("colln.kind", "unbuildable")
            continue
        nested = TensorDict({f"m{k}": S.prov(bs + ex + f) for k, f in enumerate(spec["feats"])}, batch_size=bs + ex)
        td = TensorDict({"l0": S.prov(bs), "n0": nested}, batch_size=bs)
        before = {k: td.get(("n0", f"m{k}")).clone() for k in range(len(spec["feats"]))}
        l0 = td.get("l0").clone()
        try:
            with time_limit(TL):
                td[G.index_py(idx)] = vobj
            sub = td.get("n0")
            impl = ["ok"] + [[("new" if t == "new" else t), ["shape"] + list(sub.get(names[t]).shape), written_map(sub.get(names[t]))] for t, _ in entries]
        except TimeoutError:
            raise
        except Exception as e:
            impl = ["err", err_class(e)]
        run.count("colln.outcome", S.outcome(impl) if S.outcome(impl) != "err" else "err-" + impl[1])
        ci, cm = impl, m
        dspec = {"bs": bs}
        if has_duplicates(dspec, idx) and S.outcome(ci) == "ok" and S.outcome(cm) == "ok":
            ci = ["ok"] + [[e[0], e[1], [-1 if x == -1 else 0 for x in e[2]]] for e in ci[1:]]
            cm = ["ok"] + [[e[0], e[1], [-1 if x == -1 else 0 for x in e[2]]] for e in cm[1:]]
        if S.outcome(ci) == "err" and S.outcome(cm) == "err":
            run.corr("setitem_collection_nested", None, "err", "err")
        else:
            run.corr("setitem_collection_nested", {"td": spec, "idx": G.index_json(idx), "idx_raw": idx, "vb": vb, "cbx": cbx, "entries": entries}, ci, cm)
        # oracle (accepted writes with a value of exactly the indexed batch): torch on every nested leaf; the rest untouched
        site = "setitem-collection-nested"
        case = {"mode": "write-collection-nested", "td": spec, "idx": idx, "idx_str": G.index_json(idx), "value_batch": vb, "child_extra": cbx, "entries": entries}
        if S.outcome(impl) != "ok":
            try:
                torch.zeros(bs)[G.index_py(idx)]
            except Exception:
                run.oracle_ok(site)
                continue
            run.oracle_ok(site)      # a refused *value* is not judged (see setcoll)
            continue
        try:
            torch.zeros(bs)[G.index_py(idx)]
        except Exception as e:
            run.oracle_fail(site, case, f"torch rejects this index on the batch shape ({err_class(e)}); the assignment was accepted", S.classify_accept(dspec, idx))
            continue
        probs = []
        dup = has_duplicates(dspec, idx)
        if not torch.equal(td.get("l0"), l0):
            probs.append("l0 changed although the value has no entry for it")
        for t, sh in entries:
            if t == "new":
                continue
            e = before[t].clone()
            try:
                e[S.pad_for_leaf(idx, len(ex) + len(spec["feats"][t]))] = val[names[t]]
            except Exception as ex2:
                probs.append(f"torch rejects n0.m{t}[idx] = value ({err_class(ex2)}); the tensordict accepted it")
                continue
            got = td.get(("n0", f"m{t}"))
            same = got.shape == e.shape and (torch.equal(got < 0, e < 0) if dup else torch.equal(got, e))
            if not same:
                probs.append(f"n0.m{t}: {got.reshape(-1).tolist()[:12]} expected {e.reshape(-1).tolist()[:12]}")
        for k in range(len(spec["feats"])):
            if all(t != k for t, _ in entries) and not torch.equal(td.get(("n0", f"m{k}")), before[k]):
                probs.append(f"n0.m{k} changed although the value has no entry for it")
        if probs:
            run.oracle_fail(site, case, "; ".join(probs)[:500], "collection-nested-values:" + how)
        else:
            run.oracle_ok(site)
