"""C13 — lazy (uninitialised) parameters: the `lazy_hooks` stream.

`_set_tensor_dict` registers a forward pre-hook (`_add_batch_dim_pre_hook`) on the module every time it places an
UninitializedParameter into `_parameters` (native `__setattr__` branch, not into a buffer slot). The Lean model counts
them (`Mod.preHooks`, printed as `(hooks n)` when non-zero); theorems: hooks_never_removed,
with_block_hooks_unchanged_without_lazy, lazy_hook_leak_counterexample.

Programs here are the with-block programs of the main stream with some Parameters (of the modules and of the
parameter tensordicts) turned into UninitializedParameters; no forward is run (a forward would materialise / fail on
them and lets every such hook remove itself), exceptions are raised directly in the body.
Compared: exit status, the three dicts of every module as ordered lists of object ids, `len(_forward_pre_hooks)` of every
module, the `_last_op_queue` lengths. Oracle: the tensors are restored whatever the exit path (hooks are counted, not judged:
recorded observation `lazy-hook-leak`)."""
import c13_graph as G
from common import parse_sx, time_limit


def strip_forward(prog):
    out = []
    for st in prog:
        if st == "nop":
            continue
        if st[0] == "raise":
            out.append(("raise", "direct"))
        elif st[0] == "raise_base":
            out.append(("raise_base", "direct", st[2]))
        elif st[0] == "block":
            out.append(("block", st[1], st[2], strip_forward(st[3])) + tuple(st[4:]))
        else:
            out.append(("try", strip_forward(st[1])))
    return out


def gen_case(rng):
    graph = G.gen_graph(rng)
    world = G.World(graph["kinds"])
    prog = strip_forward(G.gen_prog(rng, graph, world))
    p_lazy = rng.choice([0.2, 0.5, 0.9])
    for t, k in list(world.kinds.items()):
        if k == "p" and rng.random() < p_lazy:
            world.kinds[t] = "pl"
    return graph, world, prog


def run_lazy(run, drv, ask, rng):
    n = 300 if run.tier == "quick" else 3000
    reqs, ctx = [], []
    for _ in range(n):
        graph, world, prog = gen_case(rng)
        gsx, psx = G.graph_sx(graph, world), G.prog_sx(prog, world)
        reqs.append(f"(c13.exec {gsx} {psx})")
        ctx.append((graph, world, prog, gsx, psx))
    answers = ask(drv, reqs)
    for i, (graph, world, prog, gsx, psx) in enumerate(ctx):
        model = parse_sx(answers[i])
        nblocks = G.count_blocks(prog)
        nlazy = sum(1 for k in world.kinds.values() if k == "pl")
        run.case(("lazy", gsx, psx), nontrivial=nblocks > 0 and nlazy > 0)
        mods = G.build(graph, world)
        before = G.id_snapshot(mods)
        tds = [G.make_td(t, world) for t in G.prog_trees(prog)]
        swaps = []
        status = "normal"
        try:
            with time_limit(60):
                G.run_prog(prog, mods, tds, swaps, None)
        except TimeoutError:
            raise
        except Exception:  # noqa: BLE001
            status = "raised"
        except BaseException as e:  # noqa: BLE001
            if not getattr(e, "_c13", False):
                raise
            status = "raised-base"
        impl = [status, G.snapshot(mods, world), [len(getattr(s, "_last_op_queue", ())) for s in swaps]]
        run.corr("lazy_hooks", [gsx, psx], impl, model)
        hooks = sum(len(m._forward_pre_hooks) for m in mods)
        run.count("lazy.hooks_left", min(hooks, 6))
        if i < 2:
            run.sample({"stream": "lazy_hooks", "graph": gsx, "program": psx, "model": answers[i][:500]})
        d = G.diff_snap(before, G.id_snapshot(mods))
        if d:
            run.oracle_fail("lazy_hooks", [gsx, psx], f"module with uninitialised parameters differs after the program ({status}): " + ",".join(d[:6]),
                            f"lazy_hooks:{status}:{d[0].split(':')[0]}")
        else:
            run.oracle_ok("lazy_hooks")
