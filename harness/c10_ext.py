"""C10 extended domain (oracle only): container kinds and options the model abstracts, readers in other
processes, and the excluded points of `PathSafeKeys` run on the real code."""
from __future__ import annotations

import shutil
import warnings

import torch

from common import BUILD, Infra, parse_sx, sx, time_limit
from c11_canon import bits, canon, first_diff
from c11_hist import mk_tensor

OPTS = dict(lock=False, names=False, device=False)


def read_in_child(path):
    """run in a worker process: load the directory and return the canonical content"""
    from tensordict import TensorDict
    return canon(TensorDict.load_memmap(path), **OPTS)


def write_in_child(path, key, value):
    """run in a worker process: map the directory and write in place through the mapping"""
    from tensordict import TensorDict
    td = TensorDict.load_memmap(path)
    td[key].fill_(value)
    return True


def td_blob(td):
    """what multiprocessing sends for `td` (ForkingPickler); unpickled *inside* the worker function so that a failure there comes back as an
    answer (a task that cannot be unpickled kills the pool worker and the call never returns)"""
    from multiprocessing.reduction import ForkingPickler
    return bytes(ForkingPickler.dumps(td))


def blob_in_child(blob, key=None, value=None):
    """run in a worker process: rebuild the memory-mapped tensordict that crossed the process boundary; report what it holds there (key None)
    or write through it"""
    import pickle
    try:
        td = pickle.loads(blob)
        if key is None:
            return canon(td, **OPTS)
        td[key].fill_(value)
        return True
    except Exception as e:  # noqa: BLE001
        return f"raised {type(e).__name__}: {str(e)[:200]}"


def write_td_in_child(td, key, value):
    """run in a worker process: the memory-mapped tensordict itself crossed the process boundary (pickled):
    it must arrive as a view of the same files"""
    td[key].fill_(value)
    return [bool(td.is_memmap())]


def add_entry_in_child(path, key, shape, dtype_name, value, how):
    """run in a worker process: map the directory, create an entry with make_memmap* (possibly inside a nested node) and fill it"""
    from tensordict import TensorDict
    td = TensorDict.load_memmap(path).memmap_()
    dt = getattr(torch, dtype_name)
    if how == "make_memmap":
        new = td.make_memmap(tuple(key), shape=torch.Size(shape), dtype=dt)
        new.fill_(value)
    else:
        td.make_memmap_from_tensor(tuple(key), torch.full(shape, value, dtype=dt))
    return True


def gen(rng, kind, b):
    from tensordict import LazyStackedTensorDict, NonTensorData, NonTensorStack, TensorDict
    import c11_trips
    f32 = lambda i, feat=(): mk_tensor(None, torch.float32, b + list(feat), i)  # noqa: E731
    if kind == "lazy":
        return LazyStackedTensorDict(*[TensorDict({"a": mk_tensor(None, torch.float32, b[1:] + [2], i), "n": {"x": mk_tensor(None, torch.int64, b[1:], i)}}, b[1:]) for i in range(b[0])], stack_dim=0)
    if kind == "lazy-nested":
        inner = LazyStackedTensorDict(*[TensorDict({"a": mk_tensor(None, torch.float32, b[1:], i)}, b[1:]) for i in range(b[0])], stack_dim=0)
        return TensorDict({"ls": inner, "t": f32(1)}, b)
    if kind == "lazy-dim1":
        # stacked along dim 1 (written 1 or -1), members with an entry of their own shape, a nested node and a non-tensor entry
        k = 2 + (b[0] % 2)
        return LazyStackedTensorDict(*[TensorDict({"a": mk_tensor(None, torch.float32, [b[0], 2], i), "h": mk_tensor(None, torch.int16, [b[0], i + 1], i),
                                                   "n": {"x": mk_tensor(None, torch.int64, [b[0]], i)}, "s": f"m{i}"}, [b[0]]) for i in range(k)],
                                     stack_dim=1 if b[0] % 2 else -1)
    if kind == "lazy-in-lazy":
        inner = [LazyStackedTensorDict(*[TensorDict({"a": torch.full((2,), float(10 * i + j)),
                                                     "p": c11_trips.tc_cls()(u=torch.full((2, 2), float(j)), v=torch.full((2,), i, dtype=torch.int16), tag=f"t{i}{j}", batch_size=[2])}, [2])
                                         for j in range(2)], stack_dim=0) for i in range(b[0])]
        return LazyStackedTensorDict(*inner, stack_dim=b[0] % 2)
    if kind == "tensorclass":
        return c11_trips.tc_cls()(u=f32(0, (2,)), v=mk_tensor(None, torch.int16, b, 1), tag="T", batch_size=b)
    if kind == "tensorclass-nested":
        return TensorDict({"p": c11_trips.tc_cls()(u=f32(0, (2,)), v=mk_tensor(None, torch.int16, b, 1), tag="T", batch_size=b), "q": f32(2)}, b)
    if kind == "nontensor-stack":
        td = TensorDict({"a": f32(0)}, b)
        td["ns"] = NonTensorStack(*[NonTensorData(f"s{i}", batch_size=b[1:]) for i in range(b[0])])
        return td
    if kind == "views":
        base = mk_tensor(None, torch.float32, b + [6, 4], 5)
        return TensorDict({"t": base.transpose(-1, -2), "skip": base[..., ::2, :], "off": base[..., 1:, :],
                           "exp": mk_tensor(None, torch.int32, b + [1], 2).expand(*b, 3), "g": f32(3).requires_grad_()}, b)
    if kind == "rank0":
        return TensorDict({"a": torch.tensor(1.5), "n": {"x": torch.tensor(2), "z": torch.zeros(0)}}, [])
    if kind.startswith("legacy-"):
        # the lazy classes of `set_lazy_legacy(True)`: permute / transpose / unsqueeze / squeeze / view return a _CustomOpTensorDict over the
        # source; saved as their source (`_source/`) + the operation in meta.json
        from tensordict import set_lazy_legacy
        b2 = b + [3]
        src_td = TensorDict({"a": mk_tensor(None, torch.float32, b2 + [4], 0), "n": {"x": mk_tensor(None, torch.int64, b2, 1)}, "s": "txt"}, b2)
        op = kind[7:]
        with set_lazy_legacy(True):
            if op == "permute":
                return src_td.permute(*reversed(range(len(b2))))
            if op == "transpose":
                return src_td.transpose(0, len(b2) - 1)
            if op == "unsqueeze":
                return src_td.unsqueeze(1)
            if op == "squeeze":
                return TensorDict({"a": mk_tensor(None, torch.float32, [1] + b2 + [4], 0), "n": {"x": mk_tensor(None, torch.int64, [1] + b2, 1)}}, [1] + b2).squeeze(0)
            if op == "view":
                return src_td.view(-1)
        raise ValueError(kind)
    if kind == "njt":
        nt = torch.nested.nested_tensor([torch.arange(3.0), torch.arange(5.0), torch.arange(2.0)][: b[0]], layout=torch.jagged)
        return TensorDict({"a": mk_tensor(None, torch.int32, [b[0], 2], 1), "j": nt}, [b[0]])
    raise ValueError(kind)


KINDS = ["lazy", "lazy-nested", "tensorclass", "tensorclass-nested", "nontensor-stack", "views", "rank0", "lazy-dim1", "lazy-in-lazy",
         "legacy-permute", "legacy-transpose", "legacy-unsqueeze", "legacy-squeeze", "legacy-view"]


def run_ext(run, drv=None):
    from tensordict import TensorDict
    import torch.multiprocessing as mp
    rng = run.rng
    quick = run.tier == "quick"
    root = BUILD / "tmp" / f"c10x_{run.seed}_{run.tier}"
    shutil.rmtree(root, ignore_errors=True)
    root.mkdir(parents=True, exist_ok=True)
    torch.set_num_threads(1)
    pools = {"fork": mp.get_context("fork").Pool(1)}
    if not quick:
        pools["spawn"] = mp.get_context("spawn").Pool(1)
    try:
        with warnings.catch_warnings():
            warnings.simplefilter("ignore")
            for it in range(42 if quick else 280):
                kind = KINDS[it % len(KINDS)]
                b = [] if kind == "rank0" else rng.choice([[2], [3], [2, 2]] if kind not in ("njt",) else [[2], [3]])
                if kind in ("lazy", "lazy-nested", "nontensor-stack") and it % 3 == 0:
                    b = [rng.randint(11, 13)]     # more members than one decimal digit counts
                td = gen(rng, kind, b)
                ref = canon(td, **OPTS)
                for api in ("memmap", "memmap_", "save", "memmap(share_non_tensor)"):
                    if api == "memmap(share_non_tensor)" and kind not in ("tensorclass", "tensorclass-nested", "nontensor-stack", "lazy-dim1", "lazy-in-lazy"):
                        continue
                    for nt in (0, rng.choice([1, 2, 4, 8])):
                        d = root / f"x{it}_{api}_{nt}"
                        run.case(("ext", it, kind, api, nt))
                        run.count("ext.kind", kind)
                        case = {"kind": kind, "api": api, "num_threads": nt, "batch": b}
                        try:
                            with time_limit(180):
                                src = (gen(rng, kind, b) if kind.startswith("legacy-") else td.clone()) if api == "memmap_" else td
                                out = src.memmap(d, num_threads=nt, share_non_tensor=True) if api == "memmap(share_non_tensor)" else getattr(src, api)(d, num_threads=nt)
                                got_saved = canon(out if out is not None else src, **OPTS)
                                loaded = type(td).load_memmap(d) if kind == "tensorclass" else TensorDict.load_memmap(d)
                                got = canon(loaded, **OPTS)
                            diff = first_diff(ref, got) or first_diff(ref, got_saved)
                        except TimeoutError as e:
                            raise Infra(f"memmap timed out: {e}")
                        except Exception as e:  # noqa: BLE001
                            diff = f"raised {type(e).__name__}: {str(e)[:150]}"
                        if diff is None:
                            run.oracle_ok("load_equals_saved(ext)")
                        else:
                            tag = "raise-" + "".join(ch if ch.isalnum() else "-" for ch in diff[7:50]) if diff.startswith("raised") else "differs"
                            run.oracle_fail("load_equals_saved(ext)", case, f"{api}(num_threads={nt}) on a {kind} tensordict: {diff}", f"{kind}:{api}:{tag}")
                        # readers in other processes
                        if diff is None and kind not in ("tensorclass", "tensorclass-nested", "lazy-in-lazy") and nt == 0:
                            for method, pool in pools.items():
                                try:
                                    with time_limit(120):
                                        child = pool.apply(read_in_child, (str(d),))
                                    cd = first_diff(ref, child)
                                except TimeoutError as e:
                                    raise Infra(f"child reader timed out: {e}")
                                except Exception as e:  # noqa: BLE001
                                    cd = f"raised {type(e).__name__}: {str(e)[:150]}"
                                if cd is None:
                                    run.oracle_ok(f"reader({method})")
                                else:
                                    run.oracle_fail(f"reader({method})", case, f"a {method}ed reader sees {cd}", f"{kind}:reader:{method}")
                        shutil.rmtree(d, ignore_errors=True)
                # memmap_like: the same structure (keys, nesting, kinds, batch sizes, dtypes, shapes, non-tensor payloads), contentless
                def skeleton(c):
                    if isinstance(c, list):
                        if c and c[0] == "T":
                            return c[:4]
                        if c and c[0] == "NJT":
                            return c[:3]
                        return [skeleton(x) for x in c]
                    return c
                if kind.startswith("legacy-"):
                    # memmap_like of a legacy lazy view hands back (and saves) a plain tensordict of the same keys / shapes: the class is not
                    # kept, by construction (`empty_expand` goes through apply); not compared
                    run.count("ext.like_skipped", kind)
                    continue
                d = root / f"x{it}_like"
                run.case(("ext-like", it, kind))
                try:
                    with time_limit(180):
                        nt_ = rng.choice([0, 2])
                        like = td.memmap_like(d, num_threads=nt_)
                        loaded = type(td).load_memmap(d) if kind == "tensorclass" else TensorDict.load_memmap(d)
                    diff = first_diff(skeleton(ref), skeleton(canon(loaded, **OPTS))) or first_diff(skeleton(ref), skeleton(canon(like, **OPTS)))
                except TimeoutError as e:
                    raise Infra(f"memmap_like timed out: {e}")
                except Exception as e:  # noqa: BLE001
                    diff = f"raised {type(e).__name__}: {str(e)[:150]}"
                if diff is None:
                    run.oracle_ok("memmap_like_structure(ext)")
                else:
                    run.oracle_fail("memmap_like_structure(ext)", {"kind": kind, "batch": b}, f"memmap_like of a {kind} tensordict: {diff}", f"{kind}:memmap_like")
                shutil.rmtree(d, ignore_errors=True)
            # ---- what a saved / loaded tensordict says about itself: memory-mapped, where, and every tensor entry is a MemoryMappedTensor on a
            #      file of that directory; a relative prefix is the same directory as its absolute form; load_memmap(device="cpu") equals the
            #      default load; make_memmap on an existing key is refused and leaves the entry alone
            import os as _os
            from tensordict import MemoryMappedTensor as _MMT
            for it in range(8 if quick else 40):
                b = rng.choice([[2], [3], []])
                td = TensorDict({"a": mk_tensor(None, rng.choice([torch.float32, torch.int64, torch.bool]), b + [2], it),
                                 "n": {"x": mk_tensor(None, torch.int16, b, it + 1), "m": {"z": mk_tensor(None, torch.float64, b + [1], it + 2)}}}, b)
                d = root / f"self{it}"
                api = ["memmap", "memmap_", "save"][it % 3]
                nt = rng.choice([0, 2])
                case = {"api": api, "num_threads": nt, "batch": b, "relative": bool(it % 2)}
                run.case(("self-description", it, api, nt))
                cwd = _os.getcwd()
                try:
                    with time_limit(120):
                        src = td.clone() if api == "memmap_" else td
                        if it % 2:
                            _os.chdir(root)
                            try:
                                out = getattr(src, api)(f"self{it}", num_threads=nt)
                            finally:
                                _os.chdir(cwd)
                        else:
                            out = getattr(src, api)(d, num_threads=nt)
                        saved = src if out is None else out
                        loaded = TensorDict.load_memmap(d)
                        problems = []
                        for who, x in (("saved", saved), ("loaded", loaded)):
                            # (a tensordict returned by load_memmap maps the files but does not claim the directory: `.memmap_()` does that)
                            if who == "saved":
                                if not x.is_memmap():
                                    problems.append(f"{who}.is_memmap() is False")
                                sp = getattr(x, "saved_path", None)
                                if sp is None or _os.path.realpath(_os.path.join(str(root), str(sp))) != _os.path.realpath(str(d)):
                                    problems.append(f"{who}.saved_path = {sp}")
                            for k, v in x.items(True, True):
                                if not isinstance(v, _MMT):
                                    problems.append(f"{who}[{k}] is a {type(v).__name__}")
                                elif v.numel() and _os.path.realpath(_os.path.join(str(root), str(v.filename))) != _os.path.realpath(str(d.joinpath(*((k,) if isinstance(k, str) else k)).with_name(((k,) if isinstance(k, str) else k)[-1] + ".memmap"))):
                                    problems.append(f"{who}[{k}].filename = {v.filename}")
                            for k, v in x.items(True):
                                if who == "saved" and hasattr(v, "is_memmap") and hasattr(v, "keys") and not v.is_memmap():
                                    problems.append(f"{who}[{k}].is_memmap() is False")
                        if first_diff(canon(loaded, **OPTS), canon(TensorDict.load_memmap(d, device="cpu"), **OPTS)):
                            problems.append("load_memmap(device='cpu') differs from load_memmap()")
                        try:
                            loaded.make_memmap("a", shape=torch.Size(b + [2]), dtype=torch.float32)
                            problems.append("make_memmap on an existing key was accepted")
                        except (RuntimeError, KeyError, ValueError):
                            pass
                        if first_diff(canon(td, **OPTS), canon(TensorDict.load_memmap(d), **OPTS)):
                            problems.append("the directory no longer loads as the tensordict saved after the refused make_memmap")
                    res = "; ".join(problems[:4]) or None
                except TimeoutError as e:
                    raise Infra(f"memmap timed out: {e}")
                except Exception as e:  # noqa: BLE001
                    res = f"raised {type(e).__name__}: {str(e)[:150]}"
                finally:
                    _os.chdir(cwd)
                if res is None:
                    run.oracle_ok("memmap_self_description")
                else:
                    run.oracle_fail("memmap_self_description", case, f"{api}(num_threads={nt}): {res}", "self-description")
                shutil.rmtree(d, ignore_errors=True)
            # ---- the same RELATIVE prefix used from two working directories (os.chdir between the two saves): each save lives in its own
            #      directory; what the second saved tensordict says about its files (absolute file names under the second directory) is what
            #      a reader in another process maps when the tensordict is sent to it: it sees the second tensordict's values, its writes
            #      reach the saver and a later load, and the first save is left alone. Also for load_memmap(relative) after a chdir.
            cwd0 = _os.getcwd()
            for it in range(6 if quick else 30):
                b = rng.choice([[2], [3]])
                rel = ["ckpt", "runs/ckpt", "./ckpt"][it % 3]
                apis = [rng.choice(["memmap", "memmap_", "save"]), rng.choice(["memmap", "memmap_", "save"])]
                via = ["saved", "loaded-relative"][it % 2]
                case = {"relative_prefix": rel, "apis": apis, "sent": via, "batch": b}
                run.case(("chdir", it, rel, tuple(apis), via))
                dirs = [root / f"cwd{it}_A", root / f"cwd{it}_B"]
                tds = [TensorDict({"a": mk_tensor(None, torch.float32, b + [2], 10 * it + j), "n": {"x": mk_tensor(None, torch.int64, b, 10 * it + j + 3)}}, b) for j in (0, 1)]
                refs = [canon(t, **OPTS) for t in tds]
                problems = []
                try:
                    with time_limit(180):
                        saved = []
                        for j in (0, 1):
                            dirs[j].mkdir(parents=True)
                            _os.chdir(dirs[j])
                            src = tds[j].clone()
                            out = getattr(src, apis[j])(rel, num_threads=rng.choice([0, 2]))
                            saved.append(out if out is not None else src)
                        if via == "loaded-relative":
                            sent = TensorDict.load_memmap(rel)      # cwd is still the second directory
                        else:
                            sent = saved[1]
                        _os.chdir(cwd0)
                        absdirs = [_os.path.realpath(dirs[j] / rel) for j in (0, 1)]
                        for j, t in ((0, saved[0]), (1, saved[1]), (1, sent)):
                            for k in ("a", ("n", "x")):
                                fn = getattr(t.get(k), "filename", None)
                                if fn is None or not _os.path.realpath(str(fn)).startswith(absdirs[j] + _os.sep):
                                    problems.append(f"entry {k} of the tensordict saved under {['first', 'second'][j]}-directory/{rel} says its file is {fn}")
                        for j in (0, 1):
                            dd = first_diff(refs[j], canon(TensorDict.load_memmap(absdirs[j]), **OPTS))
                            if dd:
                                problems.append(f"{['first', 'second'][j]} directory loads differently from what was saved there: {dd}")
                        for method, pool in pools.items():
                            seen = pool.apply(blob_in_child, (td_blob(sent),))
                            dd = seen if isinstance(seen, str) else first_diff(refs[1], seen)
                            if dd:
                                problems.append(f"a {method}ed process that receives the second tensordict sees {dd}")
                            wv = float(100 + it)
                            wrote = pool.apply(blob_in_child, (td_blob(sent), "a", wv))
                            if wrote is not True:
                                problems.append(f"a {method}ed process that receives the second tensordict and writes through it: {wrote}")
                            elif not bool((sent["a"] == wv).all()) or not bool((TensorDict.load_memmap(absdirs[1])["a"] == wv).all()):
                                problems.append(f"a write made by a {method}ed process through the second tensordict did not reach the saver / a later load")
                            if first_diff(refs[0], canon(TensorDict.load_memmap(absdirs[0]), **OPTS)):
                                problems.append(f"a write made by a {method}ed process through the second tensordict changed the first save")
                            sent["a"].copy_(tds[1]["a"])
                    res = "; ".join(problems[:3]) or None
                except TimeoutError as e:
                    raise Infra(f"chdir stream timed out: {e}")
                except Exception as e:  # noqa: BLE001
                    res = f"raised {type(e).__name__}: {str(e)[:150]}"
                finally:
                    _os.chdir(cwd0)
                if res is None:
                    run.oracle_ok("relative_prefix_after_chdir")
                else:
                    run.oracle_fail("relative_prefix_after_chdir", case, f"the relative prefix {rel!r} used for two saves from two working directories: {res}", "chdir")
                for dd_ in dirs:
                    shutil.rmtree(dd_, ignore_errors=True)
                # a random history of chdir / creation of a memory-mapped tensor under a relative name: the recorded names vs recordedNames
                if drv is not None:
                    from tensordict import MemoryMappedTensor as _M2
                    base = root / f"names{it}"
                    names = ["D0", "D1", "D2"]
                    for nm in names:
                        (base / nm / "sub").mkdir(parents=True)
                    ops, got_names = [], []
                    try:
                        _os.chdir(base / names[0])
                        ops.append(["chdir", names[0]])
                        for _ in range(rng.randint(4, 8)):
                            if rng.random() < 0.4:
                                nm = rng.choice(names)
                                _os.chdir(base / nm)
                                ops.append(["chdir", nm])
                            else:
                                relf = rng.choice(["x.memmap", "sub/x.memmap", "./x.memmap", "y.memmap"])
                                t_ = _M2.from_tensor(torch.zeros(2), filename=relf, existsok=True)
                                ops.append(["save"] + [p_ for p_ in relf.split("/") if p_ != "."])
                                got_names.append(list(_os.path.relpath(t_._filename, _os.path.realpath(base)).split(_os.sep)))
                    finally:
                        _os.chdir(cwd0)
                    run.corr("recorded_file_names(chdir history)", {"ops": ops}, got_names, [list(x) for x in parse_sx(drv.ask(sx("c10.names", ops)))])
                    shutil.rmtree(base, ignore_errors=True)
            # ---- a writer task that fails makes the save fail, whatever the number of threads (same outcome as num_threads=0)
            for it in range(6 if quick else 24):
                b = rng.choice([[2], [3]])
                variant = ["leaf-file-is-a-directory", "nontensor-directory-is-a-file", "nested-leaf-file-is-a-directory"][it % 3]
                api = ["memmap", "memmap_", "save", "memmap(return_early)"][it % 4]

                def attempt(nt, tag):
                    d = root / f"f{it}_{tag}"
                    d.mkdir(parents=True)
                    td = TensorDict({"a": mk_tensor(None, torch.float32, b + [2], it), "x": mk_tensor(None, torch.int16, b, 3),
                                     "n": {"y": mk_tensor(None, torch.int64, b, it + 1)}, "s": NonTensorData("payload", batch_size=b)}, b)
                    if variant == "leaf-file-is-a-directory":
                        (d / "x.memmap").mkdir()
                    elif variant == "nontensor-directory-is-a-file":
                        (d / "s").write_bytes(b"stale")
                    else:
                        (d / "n").mkdir()
                        (d / "n" / "y.memmap").mkdir()
                    try:
                        with time_limit(120):
                            if api == "memmap(return_early)":
                                r = td.memmap(d, num_threads=nt, return_early=True) if nt > 1 else td.memmap(d, num_threads=nt)
                                r = r.result() if hasattr(r, "result") else r
                            else:
                                getattr(td, api)(d, num_threads=nt)
                        got = canon(TensorDict.load_memmap(d), **OPTS)
                        return "returned" if first_diff(canon(td, **OPTS), got) is None else "returned, but the directory does not hold the tensordict"
                    except TimeoutError as e:
                        raise Infra(f"memmap timed out: {e}")
                    except Exception as e:  # noqa: BLE001
                        return "raised"
                    finally:
                        shutil.rmtree(d, ignore_errors=True)

                from tensordict import NonTensorData
                ref_outcome = attempt(0, "seq")
                for nt in (2, rng.choice([4, 8])):
                    run.case(("writer-failure", it, variant, api, nt))
                    out = attempt(nt, f"t{nt}")
                    if out == ref_outcome and not out.startswith("returned,"):
                        run.oracle_ok("writer_failure_is_loud")
                    else:
                        run.oracle_fail("writer_failure_is_loud", {"variant": variant, "api": api, "num_threads": nt, "batch": b},
                                        f"{api}(num_threads={nt}) into a directory where {variant}: {out}; num_threads=0: {ref_outcome}", f"writer-failure:{variant}")
            # ---- write through across processes, load_memmap_, memmap_refresh_, copy_existing
            for it in range(10 if quick else 60):
                b = rng.choice([[2], [3]])
                td = TensorDict({"a": mk_tensor(None, torch.float32, b + [2], it), "n": {"x": mk_tensor(None, torch.int64, b, it + 1)}}, b)
                d = root / f"w{it}"
                saved = td.memmap(d)
                other = TensorDict.load_memmap(d)
                case = {"it": it, "batch": b}
                run.case(("write-ext", it))
                for method, pool in pools.items():
                    val = float(it + 2)
                    try:
                        with time_limit(120):
                            pool.apply(write_in_child, (str(d), "a", val))
                        seen = [bool((saved["a"] == val).all()), bool((other["a"] == val).all()), bool((TensorDict.load_memmap(d)["a"] == val).all())]
                    except TimeoutError as e:
                        raise Infra(f"child writer timed out: {e}")
                    except Exception as e:  # noqa: BLE001
                        seen = [f"raised {type(e).__name__}: {e}"]
                    if seen == [True, True, True]:
                        run.oracle_ok(f"write_through({method} writer)")
                    else:
                        run.oracle_fail(f"write_through({method} writer)", case, f"write made in a {method}ed process seen as {seen} by (saver mapping, second mapping, later load)", f"write:{method}")
                    # the memory-mapped tensordict itself sent to the other process (pickled): writes made there through a nested
                    # entry are seen here by the saver's mapping, by the second mapping and by a later load
                    ival = it + 50
                    try:
                        with time_limit(120):
                            flags = pool.apply(write_td_in_child, (saved, ("n", "x"), ival))
                        seen = [flags[0], bool((saved["n", "x"] == ival).all()), bool((other["n", "x"] == ival).all()),
                                bool((TensorDict.load_memmap(d)["n", "x"] == ival).all())]
                    except TimeoutError as e:
                        raise Infra(f"child writer timed out: {e}")
                    except Exception as e:  # noqa: BLE001
                        seen = [f"raised {type(e).__name__}: {e}"]
                    if seen == [True, True, True, True]:
                        run.oracle_ok(f"write_through(sent to a {method} process)")
                    else:
                        run.oracle_fail(f"write_through(sent to a {method} process)", case,
                                        f"write made through the memory-mapped tensordict sent to a {method}ed process: (still memmap there, saver mapping, second mapping, later load) = {seen}", f"write-sent:{method}")
                    # one ROW of the memory-mapped tensordict sent to the other process (its leaves are indexed views of the files: they
                    # travel as (file name, shape of the file, index)): a write made there lands in that row of the files, and only there
                    rval = it + 70
                    try:
                        with time_limit(120):
                            before_rows = saved["a"].clone()
                            pool.apply(write_td_in_child, (saved[1], "a", float(rval)))
                            want_rows = before_rows.clone()
                            want_rows[1] = float(rval)
                        seen = [bool((saved["a"] == want_rows).all()), bool((TensorDict.load_memmap(d)["a"] == want_rows).all())]
                    except TimeoutError as e:
                        raise Infra(f"child writer timed out: {e}")
                    except Exception as e:  # noqa: BLE001
                        seen = [f"raised {type(e).__name__}: {e}"]
                    if seen == [True, True]:
                        run.oracle_ok(f"write_through(row sent to a {method} process)")
                    else:
                        run.oracle_fail(f"write_through(row sent to a {method} process)", case,
                                        f"write made through row 1 of the memory-mapped tensordict sent to a {method}ed process: (saver mapping, later load) = {seen}", f"write-row-sent:{method}")
                # load_memmap_ into an existing structure, memmap_refresh_ after make_memmap elsewhere
                try:
                    dest = td.apply(lambda x: torch.zeros_like(x))
                    dest.load_memmap_(d)
                    ok1 = first_diff(canon(TensorDict.load_memmap(d), **OPTS), canon(dest, **OPTS))
                    other.make_memmap("fresh", shape=torch.Size(b), dtype=torch.int32) if other.is_memmap() else saved.make_memmap("fresh", shape=torch.Size(b), dtype=torch.int32)
                    refreshed = TensorDict.load_memmap(d).memmap_()
                    refreshed.memmap_refresh_()
                    ok2 = None if "fresh" in refreshed.keys() else "memmap_refresh_ does not show the entry created by make_memmap"
                except Exception as e:  # noqa: BLE001
                    ok1, ok2 = f"raised {type(e).__name__}: {str(e)[:150]}", None
                if ok1 is None and ok2 is None:
                    run.oracle_ok("load_memmap_/refresh")
                else:
                    run.oracle_fail("load_memmap_/refresh", case, str(ok1 or ok2), "load_/refresh")
                # make_memmap_from_tensor / make_memmap_from_storage / nested keys (creates the sub-directories and their metadata)
                d3 = root / f"w{it}_mk"
                try:
                    base_td = TensorDict({"a": mk_tensor(None, torch.float32, b + [2], it), "n": {"x": mk_tensor(None, torch.int64, b, it + 1)}}, b)
                    mm = base_td.memmap(d3)
                    w = mk_tensor(None, torch.int32, b + [3], it + 2)
                    mm.make_memmap_from_tensor(("sub", "w"), w)
                    # the storage must be the physical storage of the file of the new entry (documented requirement)
                    src = torch.from_file(str(d3 / "st.memmap"), shared=True, dtype=torch.float64, size=b[0] * 2).reshape(b + [2])
                    src.copy_(mk_tensor(None, torch.float64, b + [2], it + 3))
                    mm.make_memmap_from_storage("st", src.untyped_storage(), torch.Size(b + [2]), dtype=torch.float64)
                    mm.make_memmap(("n", "deep", "k"), torch.Size(b + [1]), dtype=torch.uint8)
                    want = TensorDict({"a": base_td["a"], "n": {"x": base_td["n", "x"], "deep": {"k": torch.zeros(b + [1], dtype=torch.uint8)}},
                                       "sub": {"w": w}, "st": src}, b)
                    res3 = first_diff(canon(want, **OPTS), canon(TensorDict.load_memmap(d3), **OPTS)) or first_diff(canon(want, **OPTS), canon(mm, **OPTS))
                except Exception as e:  # noqa: BLE001
                    res3 = f"raised {type(e).__name__}: {str(e)[:150]}"
                if res3 is None:
                    run.oracle_ok("make_memmap_from_*")
                else:
                    run.oracle_fail("make_memmap_from_*", case, f"after make_memmap_from_tensor / _from_storage / nested make_memmap: {res3}", "make_from")
                shutil.rmtree(d3, ignore_errors=True)
                # a leaf that is a nested tensor (components of different lengths): its data file and its `<key>.shape.memmap` side file.
                #   save + load; make_memmap_from_tensor(copy_data=True / False) on a mapped tensordict + a fresh load (the component shapes
                #   must be those of the tensor in both cases: copy_data only decides whether the *values* are written); memmap_like
                def comps(x):
                    return [[list(t.shape), str(t.dtype), t.reshape(-1).to(torch.float64).tolist()] for t in x.unbind(0)]
                nb = b[0]
                ndt = rng.choice([torch.float32, torch.int64, torch.int16])
                feat = rng.choice([[], [2]])
                parts = [torch.tensor([rng.randint(0, 120) for _ in range(n_ * (2 if feat else 1))], dtype=ndt).reshape([n_] + feat)
                         for n_ in [rng.randint(1, 5) for _ in range(nb)]]
                nested = torch.nested.nested_tensor(parts)
                zero_parts = [[list(t.shape), str(t.dtype), [0.0] * t.numel()] for t in parts]
                for how in ("memmap", "make(copy_data=True)", "make(copy_data=False)", "make(nested key, copy_data=False)", "memmap_like"):
                    d4 = root / f"w{it}_nested"
                    ncase = {"how": how, "components": [list(t.shape) for t in parts], "dtype": str(ndt)}
                    run.case(("nested-leaf", it, how))
                    want = zero_parts if ("False" in how or how == "memmap_like") else comps(nested)
                    try:
                        with time_limit(120):
                            if how == "memmap":
                                out = TensorDict({"a": mk_tensor(None, torch.float32, [nb, 2], it), "j": nested}, [nb]).memmap(d4, num_threads=rng.choice([0, 2]))
                                got_here = comps(out["j"])
                                key = "j"
                            elif how == "memmap_like":
                                out = TensorDict({"a": mk_tensor(None, torch.float32, [nb, 2], it), "j": nested}, [nb]).memmap_like(d4)
                                got_here = comps(out["j"])
                                key = "j"
                            else:
                                mm = TensorDict({"a": mk_tensor(None, torch.float32, [nb, 2], it)}, [nb]).memmap(d4)
                                key = ("sub", "j") if "nested key" in how else "j"
                                ret = mm.make_memmap_from_tensor(key, nested, copy_data="True" in how)
                                got_here = comps(mm[key])
                                if comps(ret) != got_here:
                                    got_here = ["returned tensor differs from the entry", comps(ret), got_here]
                            got_load = comps(TensorDict.load_memmap(d4)[key])
                            if drv is not None and how != "memmap_like":
                                # the two files and what a load rebuilds against populateNested / loadNested (Model/C10Nested.lean)
                                fdir = d4 / "sub" if isinstance(key, tuple) else d4
                                rank = 1 + len(feat)
                                sfile = torch.from_file(str(fdir / "j.shape.memmap"), shared=False, dtype=torch.int64, size=nb * rank).tolist()
                                dfile = torch.from_file(str(fdir / "j.memmap"), shared=False, dtype=ndt, size=sum(t.numel() for t in parts)).to(torch.int64).tolist()
                                impl_n = ["ok", sfile, dfile, [[c[0], [int(v) for v in c[2]]] for c in got_load]]
                                mdl = parse_sx(drv.ask(sx("c10.nested", [[list(t.shape), t.reshape(-1).to(torch.int64).tolist()] for t in parts], rank, "False" in how)))
                                model_n = ["ok", list(mdl[1]), list(mdl[2]), [[list(c[0]), list(c[1])] for c in mdl[3]]] if mdl[0] == "ok" else ["err"]
                                run.corr("nested_leaf(shape file, data file, loaded components)", ncase, impl_n, model_n)
                        resn = None if got_here == want and got_load == want else f"components (shape, dtype, values) in the saver {got_here}, after a fresh load {got_load}, expected {want}"
                    except TimeoutError as e:
                        raise Infra(f"nested leaf timed out: {e}")
                    except Exception as e:  # noqa: BLE001
                        resn = f"raised {type(e).__name__}: {str(e)[:120]}"
                    if resn is None:
                        run.oracle_ok("nested_tensor_leaf")
                    else:
                        tagn = ("raise-" + resn.split(":")[0][7:]) if resn.startswith("raised") else "differs"
                        run.oracle_fail("nested_tensor_leaf", ncase, f"nested-tensor leaf, {how}: {resn}", f"nested-leaf:{how.split('(')[0]}:{tagn}")
                    shutil.rmtree(d4, ignore_errors=True)
                # copy_existing: an entry that already lives in another directory
                d2 = root / f"w{it}_copy"
                try:
                    td2 = TensorDict({"m": saved["a"], "t": mk_tensor(None, torch.float32, b, 3)}, b)
                    try:
                        td2.memmap(d2 / "no", copy_existing=False)
                        refused = False
                    except RuntimeError:
                        refused = True
                    cp = td2.memmap(d2 / "yes", copy_existing=True)
                    same = first_diff(canon(td2, **OPTS), canon(TensorDict.load_memmap(d2 / "yes"), **OPTS))
                    res = None if (refused and same is None) else f"copy_existing=False refused={refused}; copy_existing=True round trip: {same}"
                except Exception as e:  # noqa: BLE001
                    res = f"raised {type(e).__name__}: {str(e)[:150]}"
                if res is None:
                    run.oracle_ok("copy_existing")
                else:
                    run.oracle_fail("copy_existing", case, res, "copy_existing")
                shutil.rmtree(d, ignore_errors=True)
                shutil.rmtree(d2, ignore_errors=True)
            # ---- entries that are already memory-mapped elsewhere AND are views of their file (a row, a slice, a strided / offset
            #      part of a memory-mapped tensordict): copy_existing=True saves the view's own content, copy_existing=False refuses
            for it in range(8 if quick else 48):
                n = rng.choice([3, 4, 5])
                src_td = TensorDict({"obs": mk_tensor(None, rng.choice([torch.float32, torch.int16, torch.uint8, torch.float64]), [n, 4], it),
                                     "nested": {"r": mk_tensor(None, torch.int64, [n, 1], it + 1), "m": {"z": mk_tensor(None, torch.bfloat16, [n, 2, 2], it + 2)}}}, [n])
                d = root / f"v{it}_src"
                storage = src_td.memmap_(d) if it % 2 else src_td.memmap(d)
                before = canon(storage, **OPTS)
                index_name, index = [("row 0", 0), ("row 1", 1), ("last row", -1), ("rows 1:", slice(1, None)), ("rows :-1", slice(None, -1)),
                                     ("rows ::2", slice(None, None, 2)), ("rows [2, 0]", torch.tensor([2, 0])), ("rows 1:2", slice(1, 2))][it % 8]
                view = storage[index]
                expected = canon(src_td[index].clone(), **OPTS)
                for nt in (0, rng.choice([2, 4])):
                    for api in ("memmap", "save"):
                        case = {"index": index_name, "api": api, "num_threads": nt, "rows": n}
                        run.case(("view-of-file", it, index_name, api, nt))
                        dest = root / f"v{it}_{api}_{nt}"
                        try:
                            with time_limit(120):
                                try:
                                    getattr(view, api)(dest / "no", copy_existing=False, num_threads=nt)
                                    refused = canon(TensorDict.load_memmap(dest / "no"), **OPTS) == expected   # accepted is fine too if faithful
                                except RuntimeError:
                                    refused = True
                                out = getattr(view, api)(dest / "yes", copy_existing=True, num_threads=nt)
                                got = first_diff(expected, canon(TensorDict.load_memmap(dest / "yes"), **OPTS))
                                if got is None and out is not None:
                                    got = first_diff(expected, canon(out, **OPTS))
                                untouched = first_diff(before, canon(storage, **OPTS))
                            res = None if (refused and got is None and untouched is None) else \
                                f"copy_existing=False refused or faithful: {refused}; copy_existing=True round trip: {got}; source after the copy: {untouched}"
                        except TimeoutError as e:
                            raise Infra(f"memmap timed out: {e}")
                        except Exception as e:  # noqa: BLE001
                            res = f"raised {type(e).__name__}: {str(e)[:150]}"
                        if res is None:
                            run.oracle_ok("copy_existing(view of a file)")
                        else:
                            run.oracle_fail("copy_existing(view of a file)", case, f"{api} of {index_name} of a memory-mapped tensordict: {res}", "copy_existing:view")
                        shutil.rmtree(dest, ignore_errors=True)
                # the view saved into the directory of its parent (every leaf is asked to be saved on the file it is a view of): refused
                # (loudly; a refused save may leave the directory half written, like any failed save), or accepted and then faithful
                if index_name not in ("rows [2, 0]",):
                    run.case(("view-onto-parent", it, index_name))
                    try:
                        with time_limit(120):
                            try:
                                view.memmap(d, num_threads=rng.choice([0, 2]))
                                outcome = "accepted"
                            except RuntimeError:
                                outcome = "refused"
                            now = canon(TensorDict.load_memmap(d), **OPTS) if outcome == "accepted" else None
                        good = outcome == "refused" or now == expected
                        res = None if good else f"{outcome}; the directory now loads as {str(now)[:200]}"
                    except TimeoutError as e:
                        raise Infra(f"memmap timed out: {e}")
                    except Exception as e:  # noqa: BLE001
                        res = f"raised {type(e).__name__}: {str(e)[:150]}"
                    if res is None:
                        run.oracle_ok("view_saved_onto_its_parent")
                    else:
                        run.oracle_fail("view_saved_onto_its_parent", {"index": index_name, "rows": n},
                                        f"{index_name} of a memory-mapped tensordict saved into the directory of that tensordict: {res}", "view-onto-parent")
                shutil.rmtree(d, ignore_errors=True)
            # ---- two mappings of one directory: entries created with make_memmap* through one mapping (this process, a forked or a
            #      spawned one), at the root or inside a nested node the reader has already mapped; after memmap_refresh_() /
            #      load_memmap_() the reader equals a fresh load, and so does a later load
            for it in range(9 if quick else 60):
                b = rng.choice([[2], [3], [4]])
                base = TensorDict({"obs": mk_tensor(None, torch.float32, b + [2], it), "stats": {"mean": mk_tensor(None, torch.float32, b, it + 1),
                                                                                                 "deep": {"k": mk_tensor(None, torch.int16, b, it + 2)}}}, b)
                d = root / f"m{it}"
                writer = base.memmap_(d)
                reader = TensorDict.load_memmap(d).memmap_()
                where = [("count",), ("stats", "count"), ("stats", "deep", "count"), ("stats", "fresh-node", "count")][it % 4]
                who = ["same process", "fork", "spawn"][it % 3] if not quick or it % 3 != 2 else "fork"
                if who not in ("same process",) and who not in pools:
                    who = "fork"
                how = ["make_memmap", "make_memmap_from_tensor"][(it // 2) % 2]
                via = ["memmap_refresh_", "load_memmap_"][(it // 3) % 2]
                dt = rng.choice(["int32", "float64", "uint8"])
                shape = b + rng.choice([[], [2]])
                val = it + 3
                case = {"key": list(where), "writer": who, "how": how, "refresh": via, "dtype": dt, "shape": shape}
                run.case(("two-mappings", it, str(case)))
                try:
                    with time_limit(180):
                        if who == "same process":
                            if how == "make_memmap":
                                writer.make_memmap(where, shape=torch.Size(shape), dtype=getattr(torch, dt)).fill_(val)
                            else:
                                writer.make_memmap_from_tensor(where, torch.full(shape, val, dtype=getattr(torch, dt)))
                        else:
                            pools[who].apply(add_entry_in_child, (str(d), list(where), shape, dt, val, how))
                        want = base.clone()
                        want[where] = torch.full(shape, val, dtype=getattr(torch, dt))
                        want_c = canon(want, **OPTS)
                        if via == "memmap_refresh_":
                            reader.memmap_refresh_()
                        else:
                            reader.load_memmap_(d)
                        r1 = first_diff(want_c, canon(reader, **OPTS))
                        r2 = first_diff(want_c, canon(TensorDict.load_memmap(d), **OPTS))
                        # live view: a later write through the writer's side is seen by the refreshed reader without another refresh
                        TensorDict.load_memmap(d)[where].fill_(val + 1)
                        r3 = None if bool((reader[where] == val + 1).all()) else "a write through another mapping of the new entry is not seen by the refreshed reader"
                    res = None if (r1 is None and r2 is None and r3 is None) else f"reader after {via}: {r1}; a later load of the directory: {r2}; {r3 or ''}"
                except TimeoutError as e:
                    raise Infra(f"two-mapping history timed out: {e}")
                except Exception as e:  # noqa: BLE001
                    res = f"raised {type(e).__name__}: {str(e)[:150]}"
                if res is None:
                    run.oracle_ok("refresh_equals_load")
                else:
                    run.oracle_fail("refresh_equals_load", case, f"entry {where} created by {how} in {who}, reader refreshed with {via}: {res}", f"refresh:{'nested' if len(where) > 1 else 'root'}")
                shutil.rmtree(d, ignore_errors=True)
            # ---- saving over an earlier save of the same kind with a different structure (the directory holds stale files)
            from tensordict import LazyStackedTensorDict

            def lazy(n, v, nested):
                ls = LazyStackedTensorDict(*[TensorDict({"a": torch.full((2,), float(i) + v), "n": {"x": torch.full((1,), i + int(v))}}, []) for i in range(n)], stack_dim=0)
                return TensorDict({"l": ls, "t": torch.arange(float(n))}, [n]) if nested else ls

            for it in range(6 if quick else 30):
                n1, n2 = rng.randint(1, 4), rng.randint(1, 4)
                nested = bool(it % 2)
                d = root / f"rs{it}"
                case = {"kind": "lazy-nested" if nested else "lazy", "members_first": n1, "members_second": n2}
                run.case(("resave-ext", it, str(case)))
                try:
                    with time_limit(180):
                        lazy(n1, 0.0, nested).memmap(d, num_threads=rng.choice([0, 2]))
                        second = lazy(n2, 10.0, nested)
                        second.memmap(d, num_threads=rng.choice([0, 2]))
                        diff = first_diff(canon(second, **OPTS), canon(TensorDict.load_memmap(d), **OPTS))
                except TimeoutError as e:
                    raise Infra(f"memmap timed out: {e}")
                except Exception as e:  # noqa: BLE001
                    diff = f"raised {type(e).__name__}: {str(e)[:150]}"
                if diff is None:
                    run.oracle_ok("load_equals_saved(existing dir, ext)")
                else:
                    run.oracle_fail("load_equals_saved(existing dir, ext)", case, f"a lazy stack of {n2} members saved over one of {n1} members loads as: {diff}",
                                    "resave:lazy:" + ("fewer" if n2 < n1 else "other"))
                shutil.rmtree(d, ignore_errors=True)
            # non-tensor payloads: one that is pickled (not json-serialisable) replaced by one that is written in meta.json, and back
            from tensordict import NonTensorData
            payloads = [slice(1, 2), "text", 3 + 4j, "other", [1, "a"]]
            for it in range(4 if quick else 20):
                p1, p2 = [(slice(1, 2), "text"), ("text", slice(1, 2))][it] if it < 2 else rng.sample(payloads, 2)
                d = root / f"rp{it}"
                case = {"kind": "nontensor-payload", "first": repr(p1), "second": repr(p2)}
                run.case(("resave-payload", it, str(case)))
                try:
                    with time_limit(180):
                        TensorDict({"a": torch.zeros(2), "s": NonTensorData(p1, batch_size=[2])}, [2]).memmap(d, num_threads=rng.choice([0, 2]))
                        TensorDict({"a": torch.ones(2), "s": NonTensorData(p2, batch_size=[2])}, [2]).memmap(d, num_threads=rng.choice([0, 2]))
                        got = TensorDict.load_memmap(d).get("s").data
                    diff = None if repr(got) == repr(p2) else f"payload {got!r} (the one of the former save) instead of {p2!r}"
                except TimeoutError as e:
                    raise Infra(f"memmap timed out: {e}")
                except Exception as e:  # noqa: BLE001
                    diff = f"raised {type(e).__name__}: {str(e)[:150]}"
                if diff is None:
                    run.oracle_ok("load_equals_saved(existing dir, ext)")
                else:
                    run.oracle_fail("load_equals_saved(existing dir, ext)", case, f"non-tensor entry saved over a former save loads with {diff}", "resave:payload")
                shutil.rmtree(d, ignore_errors=True)
            # ---- excluded points of PathSafeKeys, run on the real code
            excluded = {
                "slash-key-beside-node": lambda: TensorDict({"a": {"b": torch.ones(3)}, "a/b": torch.zeros(3)}, [3]),
                "node-named-like-a-file": lambda: TensorDict({"x": torch.ones(3), "x.memmap": {"y": torch.zeros(3)}}, [3]),
                "node-named-meta-json": lambda: TensorDict({"x": torch.ones(3), "meta.json": {"y": torch.zeros(3)}}, [3]),
                # the side file of a nested-tensor leaf `a` is `a.shape.memmap`: the file of a leaf keyed `a.shape`
                "shape-key-beside-nested-leaf": lambda: TensorDict({"a": torch.nested.nested_tensor([torch.arange(3.0), torch.arange(5.0)]), "a.shape": torch.tensor([[7], [9]])}, [2]),
            }

            def nested_diff(td, loaded):
                for k in td.keys():
                    x, y = td[k], loaded[k]
                    xs = [t.tolist() for t in x.unbind(0)] if x.is_nested else x.tolist()
                    ys = [t.tolist() for t in y.unbind(0)] if y.is_nested else y.tolist()
                    if xs != ys:
                        return f"entry {k!r} saved as {xs} loads as {ys}"
                return None
            for name, mk in excluded.items():
                d = root / f"ex_{name}"
                td = mk()
                run.case(("excluded", name), nontrivial=False)
                try:
                    with time_limit(180):
                        td.memmap(d)
                        if name == "shape-key-beside-nested-leaf":
                            diff = nested_diff(td, TensorDict.load_memmap(d))
                        else:
                            diff = first_diff(canon(td, **OPTS), canon(TensorDict.load_memmap(d), **OPTS))
                    what = "round-trips" if diff is None else f"silently differs: {diff}"
                except Exception as e:  # noqa: BLE001
                    what = f"raises {type(e).__name__}"
                    diff = "raised"
                run.count("excluded." + name, what.split(":")[0])
                if diff is None or diff == "raised":
                    run.oracle_ok("excluded_point(" + name + ")")       # raising or working are both acceptable outside the hypothesis
                else:
                    run.oracle_fail("excluded_point", {"name": name}, f"keys outside PathSafeKeys ({name}): save/load {what}", "excluded:" + name)
                shutil.rmtree(d, ignore_errors=True)
    finally:
        for p in pools.values():
            p.terminate()
            p.join()
        shutil.rmtree(root, ignore_errors=True)
