"""C12 stream A: `_split_tensordict`, `TensorDict.split(int)`, `chunk` vs the Lean model — exhaustive grids.

Two views of the implementation:
  * a recording proxy handed to `_split_tensordict`: the exact index tuples it builds in generator
    mode and the exact method/argument it calls in eager mode (model: `c12.split … true`, `c12.eager`);
  * real tensordicts: the rows that each returned chunk holds (model: rows of the pieces).
"""
from __future__ import annotations

import torch

from c12_fns import ask_batched
from common import Infra, parse_sx, sx, time_limit


class Rec:
    """duck-typed stand-in for the tensordict inside `_split_tensordict`: records what is asked of it"""

    def __init__(self, shape):
        self.shape = torch.Size(shape)
        self.device = None
        self.calls = []

    def chunk(self, k, dim=0):
        self.calls.append(["chunk", k, dim])
        return ()

    def split(self, ss, dim=0):
        self.calls.append(["split", ss, dim])
        return ()

    def unbind(self, dim):
        self.calls.append(["unbind", dim])
        return ()

    def __getitem__(self, idx):
        self.calls.append(["idx", idx])
        return idx


def err_kind(e: BaseException) -> str:
    m = str(e)
    if isinstance(e, TimeoutError):
        return "timeout"
    if isinstance(e, ZeroDivisionError):
        return "zerodiv"
    if isinstance(e, ValueError) and "Either chunksize or num_chunks" in m:
        return "both"
    if isinstance(e, ValueError) and "chunks must be a strictly positive" in m:
        return "chunks"
    if isinstance(e, ValueError) and ("zip()" in m or "strict" in m or "length" in m):
        return "zip"
    if isinstance(e, RuntimeError) and ("batch" in m.lower() or "shape" in m.lower() or "size" in m.lower()):
        return "update"
    return "other:" + type(e).__name__


def shapes_for(n):
    """(shape, dim): the mapped dim in every position of rank 1..3"""
    return [((n,), 0), ((n, 2), 0), ((2, n), 1), ((2, n, 3), 1), ((1, 2, n), 2)]


def arg_grid(n):
    out = []
    for cs in range(0, n + 2):
        out.append((cs, None, 2))
    for nc in range(1, n + 2):
        out.append((None, nc, 2))
    for w in range(1, 5):
        out.append((None, None, w))
    return out


def model_pieces(ans):
    """(ok (r s e (rows)) (i k (rows)) …) -> [[kind, …], …], [[rows], …]"""
    if ans[0] != "ok":
        return ["err", ans[1]], None
    pcs, rows = [], []
    for p in ans[1:]:
        if p[0] == "r":
            pcs.append(["r", p[1], p[2]])
            rows.append(list(p[3]))
        else:
            pcs.append(["i", p[1]])
            rows.append(list(p[2]))
    return ["ok"] + pcs, rows


def run_split(run, drv):
    from tensordict import TensorDict
    from tensordict.utils import _split_tensordict

    nmax = 12
    # ---- proxy: the arguments `_split_tensordict` computes
    cases = []
    for n in range(0, nmax + 1):
        for (cs, nc, w) in arg_grid(n) + [(1, 1, 2), (0, 3, 2), (None, 0, 2)]:
            for shape, dim in shapes_for(n)[:3] if n > 6 else shapes_for(n):
                cases.append((n, cs, nc, w, shape, dim))
    req_gen = [sx("c12.split", n, cs, nc, w, True) for (n, cs, nc, w, _, _) in cases]
    req_eag = [sx("c12.eager", n, cs, nc, w) for (n, cs, nc, w, _, _) in cases]
    req_eag_rows = [sx("c12.split", n, cs, nc, w, False) for (n, cs, nc, w, _, _) in cases]
    a_gen = [parse_sx(a) for a in ask_batched(drv, req_gen)]
    a_eag = [parse_sx(a) for a in ask_batched(drv, req_eag)]
    a_eag_rows = [parse_sx(a) for a in ask_batched(drv, req_eag_rows)]
    for (n, cs, nc, w, shape, dim), mg, me, mer in zip(cases, a_gen, a_eag, a_eag_rows):
        key = ("split", n, cs, nc, w, shape, dim)
        run.case(key, nontrivial=n > 0)
        run.count("split.arg", "chunksize" if cs is not None and nc is None else "num_chunks" if nc is not None and cs is None else "both" if cs is not None else "default")
        # generator mode through the proxy
        rec = Rec(shape)
        try:
            with time_limit(60):
                got = list(_split_tensordict(rec, cs, nc, w, dim, use_generator=True))
            impl = ["ok"]
            for idx in got:
                base, last = idx[:-1], idx[-1]
                if base != (slice(None),) * dim:
                    impl.append(["badbase"])
                elif isinstance(last, slice):
                    impl.append(["r", last.start, last.stop] if last.step is None else ["badstep"])
                else:
                    impl.append(["i", int(last)])
        except TimeoutError as e:
            raise Infra(f"implementation call timed out: {e}")
        except Exception as e:  # noqa: BLE001
            impl = ["err", err_kind(e)]
        mp, mrows = model_pieces(mg)
        run.corr("split_gen(proxy)", list(key), impl, mp)
        # eager mode through the proxy
        rec = Rec(shape)
        try:
            with time_limit(60):
                _split_tensordict(rec, cs, nc, w, dim, use_generator=False)
            c = rec.calls[0] if len(rec.calls) == 1 else ["calls", len(rec.calls)]
            if c[0] == "unbind":
                impl = ["ok", ["unbind"]] if c[1] == dim else ["ok", ["baddim"]]
            else:
                impl = ["ok", [c[0], c[1]]] if c[2] == dim else ["ok", ["baddim"]]
        except TimeoutError as e:
            raise Infra(f"implementation call timed out: {e}")
        except Exception as e:  # noqa: BLE001
            impl = ["err", err_kind(e)]
        run.corr("split_eager(proxy)", list(key), impl, me if me[0] == "ok" else ["err", me[1]])
        # real tensordicts: rows of the chunks, both modes, + the property oracle on them
        if n <= 8 or (shape, dim) == ((n,), 0):
            r = torch.arange(n).reshape([n if i == dim else 1 for i in range(len(shape))]).expand(shape)
            td = TensorDict({"r": r}, batch_size=shape)
            for gen, mans in ((True, mg), (False, mer)):
                _, mrows = model_pieces(mans)
                try:
                    with time_limit(60):
                        chunks = list(_split_tensordict(td, cs, nc, w, dim, use_generator=gen))
                    rows = []
                    ok = True
                    for c in chunks:
                        if c.batch_dims == len(shape) and c.batch_size[dim] == 0:
                            rows.append([])
                        elif c.batch_dims == len(shape):
                            ids = c["r"].movedim(dim, 0).reshape(c.batch_size[dim], -1)
                            exp_bs = list(shape)
                            exp_bs[dim] = c.batch_size[dim]
                            if list(c.batch_size) != exp_bs:
                                ok = False
                            rows.append([int(x[0]) if x.numel() else -1 for x in ids])
                        else:
                            rows.append([int(c["r"].reshape(-1)[0])])
                    impl = ["ok", rows] if ok else ["ok", "bad-batch-size"]
                except TimeoutError as e:
                    raise Infra(f"implementation call timed out: {e}")
                except Exception as e:  # noqa: BLE001
                    impl = ["err", err_kind(e)]
                model = ["ok", mrows] if mrows is not None else ["err", mans[1]]
                run.corr("split_rows(gen)" if gen else "split_rows(eager)", list(key), impl, model)
                # oracle (the property itself): whatever was handed out, concatenated in order, is 0..n-1
                if impl[0] == "ok" and n > 0:
                    flat = [x for ch in impl[1] for x in ch] if isinstance(impl[1], list) else None
                    if flat != list(range(n)):
                        run.oracle_fail("split_partition", list(key) + [gen], f"chunks hold rows {impl[1]}, expected a partition of 0..{n - 1} in order", "split_partition")
                    else:
                        run.oracle_ok("split_partition")
    # ---- TensorDict.split(int) / chunk themselves (the callee of the eager mode)
    sc = [(n, s) for n in range(0, nmax + 1) for s in range(1, n + 2)] + [(0, 0)]
    a_s = [parse_sx(a) for a in ask_batched(drv, [sx("c12.tdsplit", n, s) for n, s in sc])]
    a_c = [parse_sx(a) for a in ask_batched(drv, [sx("c12.tdchunk", n, s) for n, s in sc])]
    for (n, s), ms, mc in zip(sc, a_s, a_c):
        for shape, dim in shapes_for(n)[:3]:
            r = torch.arange(n).reshape([n if i == dim else 1 for i in range(len(shape))]).expand(shape)
            td = TensorDict({"r": r}, batch_size=shape)
            for name, mans in (("split", ms), ("chunk", mc)):
                run.case(("td" + name, n, s, shape, dim))
                try:
                    with time_limit(60):
                        chunks = getattr(td, name)(s, dim)
                    impl = ["ok", [[int(x.reshape(-1)[0]) if x.numel() else -1 for x in c["r"].movedim(dim, 0)] for c in chunks]]
                except TimeoutError as e:
                    raise Infra(f"implementation call timed out: {e}")
                except Exception as e:  # noqa: BLE001
                    impl = ["err", err_kind(e)]
                _, mrows = model_pieces(mans)
                model = ["ok", mrows] if mrows is not None else ["err", mans[1]]
                run.corr("td." + name, [n, s, list(shape), dim], impl, model)
    # ---- coordinate-map tensors (Model/C12Tensor.lean): split along d, cat back, every rank-1..3 shape over {1,2,3} (+ a 5), every d, ss
    tc = []
    dims = [1, 2, 3, 5]
    for rank in (1, 2, 3):
        for shape in __import__("itertools").product(dims[:3] if rank == 3 else dims, repeat=rank):
            for d in range(rank):
                for ss in range(1, shape[d] + 2):
                    tc.append((list(shape), d, ss))
    a_t = [parse_sx(a) for a in ask_batched(drv, [sx("c12.tcat", sh, d, ss) for sh, d, ss in tc])]
    for (sh, d, ss), m in zip(tc, a_t):
        run.case(("tcat", tuple(sh), d, ss))
        numel = 1
        for x in sh:
            numel *= x
        x = torch.arange(numel).reshape(sh)
        td = TensorDict({"x": x}, batch_size=sh)
        try:
            with time_limit(60):
                r = torch.cat(td.split(ss, d), d)
            impl = [list(r.batch_size), r["x"].reshape(-1).tolist()]
        except TimeoutError as e:
            raise Infra(f"split/cat timed out: {e}")
        except Exception as e:  # noqa: BLE001
            impl = ["err", err_kind(e)]
        run.corr("tensor(split+cat along d)", [sh, d, ss], impl, [list(m[0]), list(m[1])])
    run.sample({"stream": "split", "case": "n=7 chunksize=3 generator", "model": drv.ask(sx("c12.split", 7, 3, None, 2, True))})
    run.sample({"stream": "split", "case": "n=0 num_chunks=3 generator", "model": drv.ask(sx("c12.split", 0, None, 3, 2, True))})
