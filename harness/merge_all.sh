#!/bin/bash
# merge_all.sh <letter>: pick the builder's fix commits, copy its property files, known findings, manifest texts, reports
X="$1"
declare -A RX=( [K]="C18|c18|PyFuns|DualHelpers|DualCoverage|InferSize|CheckKeys|ParseTo|py2lean|gen_tables|Model/Compile.lean|Model/Key.lean|Model/SliceSpec" [A]="C02|c02|C17|c17|CtxTable" [B]="C03|c03" [C]="C08|c08" [D]="C04|c04|C01|c01" [E]="C05|c05|C06|c06|LockTable|CacheTable" [F]="C09|c09|C20|c20" [G]="C12|c12|C11|c11|C10|c10|Dtypes" [H]="C13|c13|C14|c14" [I]="C15|c15|C16|c16|TcTables" [J]="C07|c07|C19|c19" )
declare -A PR=( [K]="C18" [A]="C02 C17" [B]="C03" [C]="C08" [D]="C04 C01" [E]="C05 C06" [F]="C09 C20" [G]="C12 C11 C10" [H]="C13 C14" [I]="C15 C16" [J]="C07 C19" )
cd /verif
harness/pick_fixes.sh b_$X | cut -c1-120
echo "files: $(harness/merge_from.sh $X "${RX[$X]}" --apply | wc -l)"
/venv/bin/python harness/kf_merge.py $X ${PR[$X]}
for p in ${PR[$X]}; do
  [ -f /tmp/b_$X/REPORT_$p.md ] && { /venv/bin/python harness/manifest_from_reports.py /tmp/b_$X/REPORT_$p.md $p >/dev/null || echo "manifest text fail $p"; cp /tmp/b_$X/REPORT_$p.md reports/$p.md; }
  grep -q "Props.$p\$" lean/TdVerif.lean || echo "import TdVerif.Props.$p" >> lean/TdVerif.lean
done
