"""Fixed Python functions used ONLY to validate harness/py2lean.py (the translator is trusted base of C18):
each construct of the translated subset is exercised on operands the library functions never see
(negative divisors, zero divisors, None-able names, loops with several accumulators, list writes).
They are translated on every run into Gen/PyFuns.lean next to the library functions and compared with CPython on grids."""


def st_divmod(a, b):
    q = a // b
    r = a % b
    return q, r


def st_clamp(x, lo, hi):
    y = max(lo, min(x, hi))
    if lo <= y <= hi:
        return y
    return lo - 1


def st_opt(x, d):
    if x is None:
        x = d
    elif x < 0:
        x = -x
    if x is not None and x != 3:
        return x * 2
    return 0 - x


def st_guard(a, b):
    if b != 0 and a % b == 0:
        return a // b
    elif b < 0 and a // b > 1:
        return 0 - (a % b)
    return -1


def st_loop(xs, k):
    acc = 0
    last = None
    out = list(xs)
    for i in range(len(xs)):
        if xs[i] < -2:
            raise ValueError("too small")
        elif xs[i] % 2 == 0:
            acc += xs[i] // k
            out[i] = acc
        else:
            if last is None:
                last = i
            acc -= 1
    if last is not None:
        out[last] = acc % 5
    return out
