"""C19 — extended domain, judged by the property oracle only: vmap(f, in_dims, out_dims)(*args) must equal
stack([f(*slice_k(args))], out_dims) computed by the real library."""
from __future__ import annotations

import torch

from common import time_limit
import c19_programs as G


def _slice(arg, in_dim, k):
    if in_dim is None:
        return arg
    from tensordict import TensorDictBase
    if isinstance(arg, TensorDictBase):
        return arg.unbind(in_dim % arg.batch_dims)[k]
    return arg.select(in_dim, k)


def _size(arg, in_dim):
    from tensordict import TensorDictBase
    if isinstance(arg, TensorDictBase):
        return arg.batch_size[in_dim % arg.batch_dims]
    return arg.shape[in_dim]


def _stack(outs, o):
    from tensordict import TensorDictBase
    first = outs[0]
    if isinstance(first, (tuple, list)):
        od = o if isinstance(o, (tuple, list)) else [o] * len(first)
        return tuple(_stack([x[j] for x in outs], od[j]) for j in range(len(first)))
    rank = first.batch_dims if isinstance(first, TensorDictBase) else first.dim()
    if not (-(rank + 1) <= o <= rank):
        raise IndexError("out_dim")
    return torch.stack(list(outs), o if o >= 0 else o + rank + 1)


def loop(f, in_dims, out_dims, args):
    ids = in_dims if isinstance(in_dims, (tuple, list)) else [in_dims] * len(args)
    B = None
    for a, d in zip(args, ids):
        if d is not None:
            B = _size(a, d)
    outs = [f(*[_slice(a, d, k) for a, d in zip(args, ids)]) for k in range(B)]
    return _stack(outs, out_dims)


def same(x, y):
    from tensordict import TensorDictBase
    if isinstance(x, (tuple, list)):
        return isinstance(y, (tuple, list)) and len(x) == len(y) and all(same(a, b) for a, b in zip(x, y))
    if isinstance(x, TensorDictBase):
        if not isinstance(y, TensorDictBase) or x.batch_size != y.batch_size:
            return False
        kx = sorted(map(str, x.keys(True, True)))
        ky = sorted(map(str, y.keys(True, True)))
        if kx != ky:
            return False
        return all(same(x.get(k), y.get(k)) for k in x.keys(True, True))
    if isinstance(x, torch.Tensor):
        return isinstance(y, torch.Tensor) and x.shape == y.shape and (torch.equal(x, y) if not x.is_floating_point() else torch.allclose(x, y, atol=1e-5, rtol=1e-5))
    return x == y


def judge(run, site, case, f, in_dims, out_dims, args, fp):
    def go(fn):
        try:
            with time_limit(30):
                return ("ok", fn())
        except TimeoutError:
            raise
        except Exception as e:
            return ("err", type(e).__name__ + ":" + str(e)[:80])
    got = go(lambda: torch.vmap(f, in_dims=in_dims, out_dims=out_dims)(*args))
    ref = go(lambda: loop(f, in_dims, out_dims, args))
    run.case((site, str(case)), nontrivial=got[0] == "ok")
    run.count(site + ".outcome", got[0])
    if got[0] != ref[0]:
        neg = any(isinstance(o, int) and o < 0 for o in (out_dims if isinstance(out_dims, (tuple, list)) else [out_dims]))
        run.oracle_fail(site, case, f"vmap={got[0]}:{str(got[1])[:120]} loop={ref[0]}:{str(ref[1])[:120]}", fingerprint=("neg_out_dim|" if neg and got[0] == "err" else "err_mismatch|") + fp)
    elif got[0] == "ok" and not same(got[1], ref[1]):
        run.oracle_fail(site, case, "vmap result differs from the per-sample loop", fingerprint="value|" + fp)
    else:
        run.oracle_ok(site)


_TC = []


def _tensorclass():
    if not _TC:
        from tensordict import tensorclass

        @tensorclass
        class C19Tc:
            a: torch.Tensor
            b: torch.Tensor
        _TC.append(C19Tc)
    return _TC[0]


def run_all(run):
    from tensordict import LazyStackedTensorDict, TensorDict
    rng = run.rng
    quick = run.tier == "quick"
    n = 250 if quick else 2500
    BATCHES = [(2,), (2, 3), (3, 2), (2, 3, 2), (1, 2)]
    # ---- (a) several arguments, None in_dims, tensor + tensordict mixes
    for _ in range(n):
        b = rng.choice(BATCHES)
        r = len(b)
        i1 = rng.randrange(-r, r)
        td1 = G.make_td(b)
        kind = rng.choice(["td_same", "td_none", "tensor_none", "tensor_dim", "scalar_none"])
        inner = tuple(b[:i1 % r] + b[i1 % r + 1:])
        if kind == "td_same":
            a2, i2 = G.make_td(b).apply(lambda x: x * 3), i1
        elif kind == "td_none":
            a2, i2 = G.make_td(inner).apply(lambda x: x * 5), None
        elif kind == "tensor_none":
            a2, i2 = torch.arange(1, 2), None
        elif kind == "tensor_dim":
            a2, i2 = torch.arange(b[i1 % r]) + 7, 0
        else:
            a2, i2 = 4, None
        def f(t, u, kind=kind):
            if kind in ("td_same", "td_none"):
                return t.apply(lambda x, y: x + y, u)
            if kind == "tensor_dim":
                return t.apply(lambda x: x + u)
            return t.apply(lambda x: x * u)
        ro = r - 1
        o = rng.randrange(-(ro + 1), ro + 1)
        judge(run, "ext.multi_arg", {"batch": list(b), "in_dims": [i1, i2], "out_dims": o, "kind": kind}, f, (i1, i2), o, (td1, a2), kind)
    # ---- (a2) arguments packed in pytrees (tuple / dict holding tensordicts and tensors), in_dims of matching structure, kwargs
    for _ in range(n // 2):
        b = rng.choice(BATCHES)
        r = len(b)
        i1 = rng.randrange(-r, r)
        i2 = rng.randrange(-r, r)
        B = b[i1 % r]
        inner = tuple(b[:i1 % r] + b[i1 % r + 1:])
        b2 = list(inner)
        b2.insert(i2 % r, B)
        td1, td2 = G.make_td(b), G.make_td(tuple(b2)).apply(lambda x: x * 3)
        vec = torch.arange(B) + 7
        form = rng.choice(["tuple", "dict", "nested", "kwargs"])
        ro = r - 1
        o = rng.randrange(-(ro + 1), ro + 1)
        if form == "tuple":
            f = lambda pair: pair[0].apply(lambda x, y: x + y, pair[1])
            args, ind = ((td1, td2),), ((i1, i2),)
            sl = lambda k: ((td1.unbind(i1 % r)[k], td2.unbind(i2 % r)[k]),)
        elif form == "dict":
            f = lambda d: d["p"].apply(lambda x, y: x + y, d["q"])
            args, ind = ({"p": td1, "q": td2},), ({"p": i1, "q": i2},)
            sl = lambda k: ({"p": td1.unbind(i1 % r)[k], "q": td2.unbind(i2 % r)[k]},)
        elif form == "nested":
            f = lambda t, rest: t.apply(lambda x, y: x + y, rest[0]).apply(lambda x: x * rest[1]["v"])
            args, ind = (td1, (td2, {"v": vec})), (i1, (i2, {"v": 0}))
            sl = lambda k: (td1.unbind(i1 % r)[k], (td2.unbind(i2 % r)[k], {"v": vec[k]}))
        else:
            f = lambda t, u, scale=1: t.apply(lambda x, y: (x + y) * scale, u)
            args, ind = (td1, td2), (i1, i2)
            sl = lambda k: (td1.unbind(i1 % r)[k], td2.unbind(i2 % r)[k])
        kw = {"scale": 2} if form == "kwargs" else {}
        case = {"batch": list(b), "in_dims": [i1, i2], "out_dims": o, "form": form}
        def go(fn):
            try:
                with time_limit(30):
                    return ("ok", fn())
            except TimeoutError:
                raise
            except Exception as e:
                return ("err", type(e).__name__ + ":" + str(e)[:80])
        got = go(lambda: torch.vmap(f, in_dims=ind, out_dims=o)(*args, **kw))
        ref = go(lambda: _stack([f(*sl(k), **kw) for k in range(B)], o))
        run.case(("ext.pytree_args", str(case)), nontrivial=got[0] == "ok")
        run.count("ext.pytree_args.outcome", got[0])
        if got[0] != ref[0]:
            run.oracle_fail("ext.pytree_args", case, f"vmap={got[0]}:{str(got[1])[:120]} loop={ref[0]}:{str(ref[1])[:120]}", fingerprint="err_mismatch|pytree|" + form)
        elif got[0] == "ok" and not same(got[1], ref[1]):
            run.oracle_fail("ext.pytree_args", case, "vmap result differs from the per-sample loop", fingerprint="value|pytree|" + form)
        else:
            run.oracle_ok("ext.pytree_args")
    # ---- (b) tuple / mixed outputs with per-output out_dims
    for _ in range(n):
        b = rng.choice(BATCHES)
        r = len(b)
        i = rng.randrange(-r, r)
        td = G.make_td(b)
        ro = r - 1
        o1 = rng.randrange(0, ro + 1) if rng.random() < 0.7 else rng.randrange(-(ro + 1), 0)
        o2 = rng.randrange(0, ro + 1)
        form = rng.choice(["td_tensor", "td_td", "tensor_only", "dict", "const_td", "const_mixed", "same_td_twice", "same_td_twice", "input_twice", "same_td_thrice"])
        const = G.make_td(tuple(b[:i % r] + b[i % r + 1:])).apply(lambda x: x + 5)      # an un-batched tensordict captured by the function
        if form == "td_tensor":
            f, od = (lambda t: (t.apply(lambda x: x * 2), t["b"] + 1)), (o1, o2)
        elif form == "td_td":
            f, od = (lambda t: (t.select("a"), t.exclude("a"))), (o1, o2)
        elif form == "tensor_only":
            f, od = (lambda t: t["a"] * 2), o2
        elif form == "const_td":
            f, od = (lambda t, const=const: const), o2
        elif form == "same_td_twice":          # ONE object returned twice, each position with its own out_dim
            f, od = (lambda t: (lambda out: (out, out))(t.apply(lambda x: x * 2))), (o1, o2)
        elif form == "input_twice":
            f, od = (lambda t: (t, t)), (o1, o2)
        elif form == "same_td_thrice":
            o3 = rng.randrange(-(ro + 1), ro + 1)
            f, od = (lambda t: (lambda out: (out, out["b"], out))(t.apply(lambda x: x + 3))), (o1, o2, o3)
        elif form == "const_mixed":
            f, od = (lambda t, const=const: (t.apply(lambda x, y: x + y, const), const)), (o1, o2)
        else:
            f, od = (lambda t: (t, t["n", "x"])), (o1, o2)
        judge(run, "ext.outputs", {"batch": list(b), "in_dim": i, "out_dims": list(od) if isinstance(od, tuple) else od, "form": form}, f, i, od, (td,), form)
    # ---- (c) functional module calls through to_module with batched parameter tensordicts
    torch.manual_seed(run.seed)
    for _ in range(max(8, n // 4)):
        B = rng.choice([1, 2, 3])
        net = torch.nn.Sequential(torch.nn.Linear(3, 4), torch.nn.Tanh(), torch.nn.Linear(4, 2))
        base = TensorDict.from_module(net)
        params = torch.stack([base.apply(lambda p: p.detach() + 0.1 * k) for k in range(B)], 0).to_tensordict()
        if rng.random() < 0.5:
            params.lock_()
        xdim = rng.choice([None, 0])
        x = torch.randn(3) if xdim is None else torch.randn(B, 3)
        def call(p, xx, net=net):
            with p.to_module(net):
                return net(xx)
        o = rng.choice([0, 0, -1])
        judge(run, "ext.module", {"B": B, "x_in_dim": xdim, "out_dim": o, "locked": params.is_locked}, call, (0, xdim), o, (params, x), "module")
        # the module must be left with its own parameters
        if any(getattr(p, "_is_batched", False) for p in net.parameters()):
            run.oracle_fail("ext.module", {"B": B}, "module parameters still batched after vmap", fingerprint="module_leak")
    # ---- (d) lazy stacks
    for _ in range(n):
        b = rng.choice([(2, 3), (3, 2), (2, 3, 2), (2,)])
        r = len(b)
        td = G.make_td(b, lazy=True)
        i = rng.randrange(-r, r)
        inner = list(b[:i % r] + b[i % r + 1:])
        prog, (bo, _) = G.gen_prog(rng, inner, G.KEYS, depth=0, maxlen=2, allow_vmap=False)
        ro = len(bo)
        o = rng.randrange(0, ro + 1) if rng.random() < 0.8 else rng.randrange(-(ro + 1), 0)
        f = lambda t, prog=prog: G.run_real(prog, t)
        tag = "lazy_stackdim|" if (i % r == 0 and prog) else "lazy_other|"
        judge(run, "ext.lazy", {"batch": list(b), "in_dim": i, "out_dim": o, "prog": G.sx_prog(prog)}, f, i, o, (td,), tag + ",".join(p[0] for p in prog))
        # the access pattern lazy stacks support along their stack dimension: read entries, return tensors
        g = lambda t: (t.get("a") * 2 + 1, t.get(("n", "x")) - 1)
        judge(run, "ext.lazy_get", {"batch": list(b), "in_dim": i, "out_dim": 0}, g, i, 0, (td,), "lazy_get")
        # ... and write an entry computed from a read one (hook_in un-batches it into the stacked tensordicts)
        keys_before = sorted(map(str, td.keys(True, True)))
        h = lambda t: t.clone(False).set("z", t.get("a") * 2) if not isinstance(t, LazyStackedTensorDict) or getattr(t, "hook_in", None) is None else t.set("z", t.get("a") * 2)
        judge(run, "ext.lazy_set", {"batch": list(b), "in_dim": i, "out_dim": 0}, h, i, 0, (td,), "lazy_set")
        # ... and write a value that does NOT depend on the vmapped input: a closure constant, or an entry of an in_dims=None argument
        inner_b = tuple(x for j, x in enumerate(b) if j != i % r)
        nconst = 3
        for d in inner_b:
            nconst *= d
        const = torch.arange(500, 500 + nconst).reshape(*inner_b, 3)
        hc = lambda t, const=const: (t if getattr(t, "hook_in", None) is not None else t.clone(False)).set("shared", const)
        judge(run, "ext.lazy_set_const", {"batch": list(b), "in_dim": i, "out_dim": 0, "from": "closure"}, hc, i, 0, (td,), "lazy_set_const")
        y = TensorDict({"b": const}, batch_size=inner_b)
        def hy(t, y):
            t = t if getattr(t, "hook_in", None) is not None else t.clone(False)
            t = t.set("shared", y["b"])
            return t.set("mixed", t.get("a")[..., :1] + y["b"][..., :1])
        judge(run, "ext.lazy_set_const", {"batch": list(b), "in_dim": i, "out_dim": 0, "from": "in_dims=None argument"}, hy, (i, None), 0, (td, y), "lazy_set_const_arg")
        if sorted(map(str, td.keys(True, True))) != keys_before:
            run.oracle_fail("ext.lazy_set", {"batch": list(b), "in_dim": i}, "the vmapped function's set() leaked a new entry into the input lazy stack", fingerprint="lazy_set_leak")
    # ---- (e) locked inputs reused across calls with in-place writes in between (memoised _add_batch_dim)
    for _ in range(max(10, n // 2)):
        b = rng.choice([(2, 3), (2, 3, 2), (3, 2)])
        r = len(b)
        lazy = rng.random() < 0.3
        td = G.make_td(b, lazy=lazy, dtype=torch.float32)
        td.lock_()
        hist = []
        for step in range(rng.randint(2, 5)):
            i = rng.randrange(-r, r)
            nested = rng.random() < 0.4 and r >= 2
            ro = r - 1
            o = rng.randrange(0, ro + 1)
            if nested:
                i2 = rng.randrange(0, r - 1)
                f = lambda t, i2=i2: torch.vmap(lambda u: u.apply(lambda x: x * 2 + 1), in_dims=i2, out_dims=0)(t)
            else:
                f = lambda t: t.apply(lambda x: x * 2 + 1)
            hist.append({"in_dim": i, "out_dim": o, "nested": nested})
            if lazy and i % r == 0:   # derived stacks along the stack dim are a known finding: use the supported get pattern there
                f = (lambda t: t.get("a") * 2 + 1)
            judge(run, "ext.locked_reuse", {"batch": list(b), "lazy": lazy, "history": list(hist)}, f, i, o, (td,), "locked")
            # in-place write between the calls (allowed on a locked tensordict)
            w = rng.choice(["add_", "zero_", "set_", "setitem", "none"])
            hist.append({"write": w})
            try:
                if w == "add_":
                    td.add_(1.5)
                elif w == "zero_":
                    td.zero_()
                elif w == "set_":
                    td.set_("b", torch.full(tuple(b), 7.0))
                elif w == "setitem":
                    td[0] = td[1] * 3 if b[0] > 1 else td[0]
            except Exception:
                pass
    # ---- (f) functions from the C18 program generator
    import c19_c18ops as C18
    safe = [o for o in C18.OPS if o not in ("setitem_idx", "split1", "chunk2", "unbind0", "idx_list", "reshape_flat", "flatten01", "squeeze", "sum0", "idx_empty",
                                            "mul2", "add_td", "abs", "neg", "stack_last")]   # the last five use arithmetic dunders (torch._foreach_*), see (g)
    for _ in range(n):
        shape = rng.choice([(3, 2), (2, 2, 2), (4, 2), (2, 3, 1)])
        ops = [rng.choice(safe) for _ in range(rng.randint(1, 3))]
        i = rng.randrange(-len(shape), len(shape))
        o = 0 if rng.random() < 0.6 else rng.choice([-1, 1])
        td = C18.make_input(shape)
        f = lambda t, ops=tuple(ops): C18.run_program(t, ops)
        judge(run, "ext.c18_programs", {"shape": list(shape), "ops": ops, "in_dim": i, "out_dim": o}, f, i, o, (td,), "c18|" + ",".join(ops))

    # ---- (h) inputs whose nested tensordict has MORE batch dims than its parent, in-place writes inside the function,
    #          a function that writes into its in_dims=None argument (must not leak into the caller's object), tensorclass inputs
    def deep(bb, locked=False):
        t = G.make_td(bb)
        t["n"] = TensorDict({"x": t["n", "x"]}, batch_size=[*bb, 1])
        return t.lock_() if locked else t
    tc_cls = _tensorclass()
    for _ in range(n // 2):
        b = rng.choice(BATCHES)
        r = len(b)
        i = rng.randrange(-r, r)
        ro = r - 1
        o = rng.randrange(-(ro + 1), ro + 1)
        form = rng.choice(["deep_input", "inplace_in_f", "none_arg_written", "tensorclass"])
        if form == "deep_input":
            f = lambda t: t.apply(lambda x: x * 2)
            judge(run, "ext.inputs", {"form": form, "batch": list(b), "in_dim": i, "out_dim": o}, f, i, o, (deep(b, locked=rng.random() < 0.3),), "deep_input")
        elif form == "inplace_in_f":
            a1, a2 = G.make_td(b, dtype=torch.float32), G.make_td(b, dtype=torch.float32)
            f = lambda t: t.apply_(lambda x: x + 1)
            try:
                with time_limit(30):
                    got = torch.vmap(f, in_dims=i, out_dims=o)(a1)
                    ref = _stack([f(sl) for sl in a2.unbind(i % r)], o)
                ok = same(got, ref) and same(a1, a2)
            except TimeoutError:
                raise
            except Exception:
                ok = None
            run.case(("ext.inputs", form, str(b), i, o), nontrivial=ok is not None)
            if ok is False:
                run.oracle_fail("ext.inputs", {"form": form, "batch": list(b), "in_dim": i, "out_dim": o}, "in-place write inside the vmapped function: result or input differs from the per-sample loop", fingerprint="inplace_in_f")
            else:
                run.oracle_ok("ext.inputs")
        elif form == "none_arg_written":
            inner = tuple(b[:i % r] + b[i % r + 1:])
            u = G.make_td(inner)
            ukeys = sorted(map(str, u.keys(True, True)))
            g_ = lambda t, uu: (uu.set("w", uu["b"] + 1), t.apply(lambda x, y: x + y, uu.exclude("w")))[1]
            try:
                with time_limit(30):
                    torch.vmap(g_, in_dims=(i, None), out_dims=o)(G.make_td(b), u)      # vmap alone: does the write reach the caller's object?
            except TimeoutError:
                raise
            except Exception:
                pass
            leaked = sorted(map(str, u.keys(True, True))) != ukeys
            g2 = lambda t, uu: g_(t, uu.clone(False))       # values: vmap vs loop (the loop must not write into the shared argument either)
            judge(run, "ext.inputs", {"form": form, "batch": list(b), "in_dim": i, "out_dim": o}, g2, (i, None), o, (G.make_td(b), G.make_td(inner)), "none_arg_written")
            if leaked:
                run.oracle_fail("ext.inputs", {"form": form, "batch": list(b), "in_dim": i}, "a write to the in_dims=None argument inside the vmapped function leaked into the caller's tensordict", fingerprint="none_arg_leak")
        else:
            base = G.make_td(b, dtype=torch.float32)
            tc = tc_cls(a=base["a"], b=base["b"], batch_size=list(b))
            f = lambda t: t.apply(lambda x: x * 2)
            try:
                with time_limit(30):
                    got = torch.vmap(f, in_dims=i, out_dims=o)(tc)
                    ref = _stack([f(sl) for sl in tc.unbind(i % r)], o)
                ok = type(got) is type(ref) and got.batch_size == ref.batch_size and torch.equal(got.a, ref.a) and torch.equal(got.b, ref.b)
            except TimeoutError:
                raise
            except Exception:
                ok = None
            run.case(("ext.inputs", form, str(b), i, o), nontrivial=ok is not None)
            run.count("ext.inputs.tensorclass", str(ok))
            if ok is False:
                run.oracle_fail("ext.inputs", {"form": form, "batch": list(b), "in_dim": i, "out_dim": o}, "tensorclass input: vmap differs from the per-sample loop", fingerprint="tensorclass")
            else:
                run.oracle_ok("ext.inputs")
    # ---- (g) arithmetic on the tensordict itself inside the vmapped function (torch._foreach_* fast paths)
    for name, f in {"mul": lambda t: t * 2, "add": lambda t: t + 1, "neg": lambda t: -t, "abs": lambda t: t.abs(), "add_td": lambda t: t + t,
                    "iadd": lambda t: t.clone().add_(1), "clamp_min": lambda t: t.clamp_min(3), "clamp_max": lambda t: t.clamp_max(3)}.items():
        for i in (0, 1):
            judge(run, "ext.arith", {"op": name, "in_dim": i}, f, i, 0, (G.make_td((2, 3), dtype=torch.float32),), "foreach|" + name)
