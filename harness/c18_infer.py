"""C18: the dual pair `infer_size_impl` (eager) / `_infer_size_impl` (the copy torch.compile does not skip).

Streams
  infer_size_py(translator)        Gen.inferSizeImpl       vs tensordict.utils.infer_size_impl      (translation validation)
  infer_size_local_py(translator)  Gen.inferSizeImplLocal  vs tensordict.utils._infer_size_impl
  infer_size_table                 InferSize.closedForm    vs the Python function (the decision table the theorems are stated with)
  infer_size_vs_torch              InferSize.torchInfer    vs torch's own rule `torch.empty(numel).view(shape)` (accept/reject + shape)
oracle
  infer_size_pair                  the two Python copies return the same list / raise the same exception class
  infer_size_callers               TensorDict.view / reshape (use the `_` copy) vs TensorDictBase.unflatten / _legacy view (use the eager copy)
"""
from __future__ import annotations

import itertools

import torch

from common import parse_sx, sx


def _call(fn, shape, numel):
    try:
        return ["ok", list(fn(list(shape), numel))]
    except ZeroDivisionError:
        return ["err", "ZeroDivisionError"]
    except AssertionError:
        return ["err", "AssertionError"]
    except Exception as e:  # any other class is a difference the model does not have
        return ["err", type(e).__name__]


def _torch_rule(shape, numel):
    """torch's own view rule on a contiguous 1-d tensor: the accepted shape, or 'err'"""
    try:
        return ["ok", list(torch.empty(numel).view(*shape).shape) if shape else list(torch.empty(numel).view(()).shape)]
    except Exception:
        return "err"


def gen_cases(run):
    vals = [-2, -1, 0, 1, 2, 3]
    maxlen = 4
    cases = []
    for n in range(0, maxlen + 1):
        for shp in itertools.product(vals, repeat=n):
            for numel in range(0, 13):
                cases.append((shp, numel, "grid"))
    rng = run.rng
    nrand = 3000 if run.tier == "quick" else 60000
    for _ in range(nrand):
        n = rng.randint(0, 7)
        kind = rng.choice(["fill", "fill", "free", "neg", "big"])
        if kind == "big":
            shp = [rng.choice([0, 1, 2, 3, 5, 7, 2 ** 31, 2 ** 40, 10 ** 20]) for _ in range(n)]
        else:
            shp = [rng.choice([0, 1, 1, 2, 2, 3, 4, 5, 6]) for _ in range(n)]
        prod = 1
        for s in shp:
            prod *= s
        if kind in ("fill", "big") and n:
            # a shape with a valid filling: replace one entry by the placeholder
            j = rng.randrange(n)
            shp[j] = -1
            numel = prod
            if rng.random() < 0.2:
                numel = prod + rng.choice([-1, 1, 2])
        elif kind == "neg":
            if n:
                shp[rng.randrange(n)] = rng.choice([-1, -1, -2, -3])
            numel = rng.choice([-prod, -1, -6, -12, prod])
        else:
            if n and rng.random() < 0.5:
                shp[rng.randrange(n)] = -1
            if n and rng.random() < 0.3:
                shp[rng.randrange(n)] = rng.choice([-1, -2])
            numel = rng.choice([prod, prod * 2, rng.randint(0, 60)])
        cases.append((tuple(shp), numel, kind))
    if run.tier == "thorough":
        for shp in itertools.product(vals, repeat=5):
            for numel in (0, 1, 2, 4, 6, 8, 12, 18, 36):
                cases.append((shp, numel, "grid5"))
    return cases


def infer_size(run):
    import tensordict.utils as U

    drv = run._drv
    cases = gen_cases(run)
    answers = drv.ask_many([sx("c18.infer_size", list(shp), numel) for shp, numel, _ in cases])
    for (shp, numel, kind), ans in zip(cases, answers):
        m = parse_sx(ans)
        e = _call(U.infer_size_impl, shp, numel)
        l = _call(U._infer_size_impl, shp, numel)
        case = [list(shp), numel]
        run.case(("infer", shp, numel), nontrivial=len(shp) > 0)
        run.count("infer.kind", kind)
        run.count("infer.outcome", e[1] if e[0] == "err" else "ok")
        run.count("infer.placeholders", sum(1 for s in shp if s == -1))
        run.corr("infer_size_py(translator)", case, e, m[0])
        run.corr("infer_size_local_py(translator)", case, l, m[1])
        run.corr("infer_size_table", case, e, m[3])
        if m[2] != m[3]:
            run.corr("infer_size_table", case, m[2], m[3])  # (proved equal; a cheap sanity line)
        if e != l:
            run.oracle_fail("infer_size_pair", case, f"infer_size_impl={e} _infer_size_impl={l}", "infer_pair")
        else:
            run.oracle_ok("infer_size_pair")
        # torch's own rule (numel is a count there; sizes must fit int64)
        if numel >= 0 and all(abs(s) < 2 ** 31 for s in shp) and numel < 2 ** 31:
            t = _torch_rule(shp, numel)
            # m[4] = InferSize.torchInfer, the Lean transcription of at::infer_size (theorem infer_size_matches_torch
            # relates it to the translated tensordict code for every input)
            mm = m[4] if m[4][0] == "ok" else "err"
            run.corr("infer_size_vs_torch", case, t, mm)
    run.sample({"stream": "infer_size", "case": [[2, -1, 3], 12], "model": drv.ask(sx("c18.infer_size", [2, -1, 3], 12))})
    run.sample({"stream": "infer_size", "case": [[-1, 0], 0], "model": drv.ask(sx("c18.infer_size", [-1, 0], 0))})
    callers(run)


def callers(run):
    """the call sites of the two copies on real tensordicts: same accepted batch size / both reject"""
    from tensordict import TensorDict

    rng = run.rng
    n = 150 if run.tier == "quick" else 1500
    bases = [(6,), (2, 3), (2, 2, 3), (0, 3), (1,), (4, 1, 2), (12,)]
    for _ in range(n):
        bs = rng.choice(bases)
        numel = 1
        for b in bs:
            numel *= b
        k = rng.randint(1, 4)
        shp = [rng.choice([-1, 0, 1, 2, 3, 4, 6, 12]) for _ in range(k)]
        if rng.random() < 0.5:
            # make it fit
            rest = 1
            for s in shp[1:]:
                rest *= s if s > 0 else 1
            shp = [-1] + [s if s > 0 else 1 for s in shp[1:]]
            if rest and numel % rest:
                shp = [-1]
        td = TensorDict({"a": torch.arange(numel).reshape(bs)}, batch_size=bs)
        flat = td.reshape(numel) if numel else None
        outs = {}
        for name, f in (("view(_copy)", lambda: td.view(*shp).batch_size),
                        ("reshape(_copy)", lambda: td.reshape(*shp).batch_size),
                        ("unflatten(eager copy)", (lambda: flat.unflatten(0, shp).batch_size) if flat is not None else None)):
            if f is None:
                continue
            try:
                outs[name] = list(f())
            except Exception:
                outs[name] = "err"
        run.case(("infer_callers", bs, tuple(shp)))
        run.count("infer.callers", "ok" if outs["reshape(_copy)"] != "err" else "err")
        if len({str(v) for v in outs.values()}) > 1:
            # view may additionally refuse non-viewable layouts; the inputs are contiguous, so it may not here
            run.oracle_fail("infer_size_callers", {"batch_size": list(bs), "shape": shp}, str(outs), "infer_callers")
        else:
            run.oracle_ok("infer_size_callers")


def neg_dim(run):
    """translation validation of `_maybe_correct_neg_dim` (Gen.maybeCorrectNegDim vs the Python function) and its use:
    td.unsqueeze / squeeze / flatten accept exactly the dims the function accepts"""
    import tensordict.utils as U

    drv = run._drv
    cases = []
    for L in range(0, 5):
        shape = list(range(2, 2 + L))
        for dim in range(-7, 8):
            cases.append((dim, shape, None))
            for nd in range(0, 6):
                cases.append((dim, shape, nd))
    rng = run.rng
    for _ in range(500 if run.tier == "quick" else 20000):
        cases.append((rng.randint(-10 ** 12, 10 ** 12), [1] * rng.randint(0, 6), rng.choice([None, rng.randint(-3, 10 ** 12)])))
    answers = drv.ask_many([sx("c18.neg_dim", d, shape, nd) for d, shape, nd in cases])
    for (d, shape, nd), a in zip(cases, answers):
        try:
            impl = ["ok", U._maybe_correct_neg_dim(d, torch.Size(shape), nd)]
        except IndexError:
            impl = ["err", "IndexError"]
        except Exception as e:
            impl = ["err", type(e).__name__]
        run.case(("neg_dim", d, len(shape), nd))
        run.count("neg_dim.outcome", impl[0])
        run.corr("neg_dim_py(translator)", [d, shape, nd], impl, parse_sx(a))
    run.sample({"stream": "neg_dim", "case": [-1, [4, 5, 6], None], "model": drv.ask(sx("c18.neg_dim", -1, [4, 5, 6], None))})


def translator_selftest(run):
    """harness/py2lean.py on its own: fixed functions (c18_selftest_funcs.py) covering every construct of the translated
    subset — floor division / modulo with negative and zero divisors, max/min, chained comparisons, None-able names,
    guarded divisions inside conditions, loops with several accumulators incl. a list written inside the loop — translated
    on this run and compared with CPython on grids (values and exception classes)."""
    import itertools
    import c18_selftest_funcs as F

    drv = run._drv
    rng = run.rng

    def py(f, *args):
        try:
            r = f(*args)
        except Exception as e:
            return ["err", type(e).__name__]
        if isinstance(r, tuple):
            return ["ok"] + list(r)
        if isinstance(r, list):
            return ["ok", r]
        return ["ok", r]

    vals = list(range(-7, 8))
    reqs, exps = [], []
    for a, b in itertools.product(vals, vals):
        reqs.append(sx("c18.st_divmod", a, b)); exps.append(py(F.st_divmod, a, b))
        reqs.append(sx("c18.st_guard", a, b)); exps.append(py(F.st_guard, a, b))
    for x, lo, hi in itertools.product(range(-4, 5), repeat=3):
        reqs.append(sx("c18.st_clamp", x, lo, hi)); exps.append(py(F.st_clamp, x, lo, hi))
    for x in [None] + vals:
        for d in vals:
            reqs.append(sx("c18.st_opt", x, d)); exps.append(py(F.st_opt, x, d))
    for _ in range(2000 if run.tier == "quick" else 40000):
        xs = [rng.randint(-3, 9) for _ in range(rng.randint(0, 6))]
        k = rng.randint(-3, 3)
        reqs.append(sx("c18.st_loop", xs, k)); exps.append(py(F.st_loop, xs, k))
    for _ in range(500):
        a = rng.randint(-10 ** 30, 10 ** 30); b = rng.randint(-10 ** 15, 10 ** 15)
        reqs.append(sx("c18.st_divmod", a, b)); exps.append(py(F.st_divmod, a, b))
    answers = drv.ask_many(reqs)
    for req, exp, ans in zip(reqs, exps, answers):
        run.case(("selftest", req), nontrivial=False)
        run.count("selftest.outcome", exp[1] if exp[0] == "err" else "ok")
        run.corr("translator_selftest", req, exp, parse_sx(ans))
