"""C01 — shared pieces: metadata skeletons, generators (trees, values, ops), the implementation executor,
the recursive coherence walker (the property's oracle) and the S-expression encoders for the Lean driver.

skeleton:  ["l", shape, dev]                         tensor leaf   (dev: 0 = cpu, 1 = meta)
           ["n", bs, dev|None, names|None, [[key, skel], ...]]   tensordict node (names: list of str|None)
"""
from __future__ import annotations

import warnings

import torch

from common import err_class, time_limit

warnings.filterwarnings("ignore")

DEVS = ["cpu", "meta"]
KEYS = ["a", "b", "c"]
DIMS = [0, 1, 2, 3]
NAMEPOOL = ["x", "y", "z", "w"]


def dev_id(d):
    if d is None:
        return None
    return DEVS.index(torch.device(d).type)


# --------------------------------------------------------------------------- implementation <-> skeleton
def build(skel):
    from tensordict import TensorDict
    if skel[0] == "l":
        return torch.zeros(skel[1], device=DEVS[skel[2]])
    _, bs, dev, names, kids = skel
    return TensorDict({k: build(v) for k, v in kids}, batch_size=bs, device=None if dev is None else DEVS[dev], names=names)


def snap(x):
    """full metadata snapshot through batch_size / device / names / items()"""
    if isinstance(x, torch.Tensor):
        return ["l", list(x.shape), dev_id(x.device)]
    names = x._td_dim_names if hasattr(x, "_td_dim_names") else (x.names if x._has_names() else None)
    return ["n", list(x.batch_size), dev_id(x.device), None if names is None else list(names), [[k, snap(v)] for k, v in x.items()]]


def walk_coherent(x, path=()):
    """the property: leading dims = batch size, nested batch extends parent's, device agreement, one name per batch dim.
    returns a list of human readable violations (empty = coherent). Uses only public attributes."""
    out = []
    bs = list(x.batch_size)
    dev = x.device
    if hasattr(x, "tensordicts") and hasattr(x, "stack_dim"):
        # a lazy stack: its members are walked one by one (stacking heterogeneous entries is not always possible and is
        # not the subject here); the stack itself must have the members' batch size with the stack dim inserted
        sd = x.stack_dim
        try:
            names = x.names
            if len(names) != len(bs):
                out.append(f"{path}: {len(names)} dim names {names} for batch size {bs}")
        except ValueError as e:
            out.append(f"{path}: the dim names of the lazy stack cannot be read: {str(e)[:80]}")
        members = list(x.tensordicts)
        if not (0 <= sd < len(bs)) or bs[sd] != len(members):
            out.append(f"{path}: lazy stack of {len(members)} members along dim {sd} has batch size {bs}")
        mbs = bs[:sd] + bs[sd + 1:]
        for i, m in enumerate(members):
            if list(m.batch_size) != mbs:
                out.append(f"{path}[{i}]: member batch size {list(m.batch_size)} in a lazy stack of batch size {bs} along dim {sd}")
            if dev is not None and (m.device is None or m.device.type != dev.type):
                out.append(f"{path}[{i}]: member on {m.device} in a lazy stack on {dev}")
            out += walk_coherent(m, path + (f"[{i}]",))
        return out
    names = x.names
    if len(names) != len(bs):
        out.append(f"{path}: {len(names)} dim names {names} for batch size {bs}")
    for k, v in x.items():
        p = path + (k,)
        if isinstance(v, torch.Tensor):
            if list(v.shape[:len(bs)]) != bs:
                out.append(f"{p}: leaf shape {list(v.shape)} does not start with batch size {bs}")
            if dev is not None and v.device.type != dev.type:
                out.append(f"{p}: leaf on {v.device} in a tensordict on {dev}")
        elif hasattr(v, "batch_size"):
            if list(v.batch_size[:len(bs)]) != bs:
                out.append(f"{p}: nested batch size {list(v.batch_size)} of the {type(v).__name__} does not extend {bs}")
            if dev is not None and (v.device is None or v.device.type != dev.type):
                out.append(f"{p}: nested {type(v).__name__} on {v.device} in a tensordict on {dev}")
            if hasattr(v, "items") and not getattr(v, "_is_non_tensor", False):
                out += walk_coherent(v, p)
    return out


def skel_coherent(s):
    """same predicate on a skeleton (used to make sure generated initial states / values are coherent)"""
    if s[0] == "l":
        return True
    _, bs, dev, names, kids = s
    if names is not None and len(names) != len(bs):
        return False
    for _, c in kids:
        sh = c[1]
        if sh[:len(bs)] != bs:
            return False
        if dev is not None and c[2] != dev:
            return False
        if not skel_coherent(c):
            return False
    return True


# --------------------------------------------------------------------------- generators
def gen_shape_ext(rng, base, lo=0, hi=2):
    return list(base) + [rng.choice(DIMS) for _ in range(rng.randint(lo, hi))]


def gen_names(rng, n, p_named=0.35):
    if n == 0 or rng.random() > p_named:
        return None
    pool = rng.sample(NAMEPOOL, len(NAMEPOOL))
    names = [pool[i] if (i < len(pool) and rng.random() < 0.8) else None for i in range(n)]
    if all(x is None for x in names):
        names[0] = pool[0]
    return names


def gen_tree(rng, bs, dev, depth, maxkids=3, named=None):
    names = gen_names(rng, len(bs)) if named is None else named
    kids = []
    for k in rng.sample(KEYS, rng.randint(0, maxkids)):
        if depth > 0 and rng.random() < 0.4:
            cbs = gen_shape_ext(rng, bs, 0, 1)
            if len(cbs) > 3:
                cbs = cbs[:3] if bs == cbs[:len(bs)] and len(bs) <= 3 else list(bs)
            cdev = dev if dev is not None else (rng.choice([None, None, 0, 1]))
            # nested names must agree with the parent's on the shared dims (the constructor refines them anyway)
            cn = None
            if names is not None:
                cn = list(names) + [None] * (len(cbs) - len(names))
            kids.append([k, gen_tree(rng, cbs, cdev, depth - 1, maxkids=2, named=cn)])
        else:
            ldev = dev if dev is not None else (0 if rng.random() < 0.8 else 1)
            kids.append([k, ["l", gen_shape_ext(rng, bs, 0, 2), ldev]])
    return ["n", list(bs), dev, names, kids]


def gen_bs(rng):
    return [rng.choice(DIMS) for _ in range(rng.randint(0, 3))]


def nodes_of(s, path=()):
    """paths of all nodes (tensordicts) in a skeleton"""
    out = [(path, s)]
    for k, c in s[4]:
        if c[0] == "n":
            out += nodes_of(c, path + (k,))
    return out


def entries_of(s, path=()):
    out = []
    for k, c in s[4]:
        out.append((path + (k,), c))
        if c[0] == "n":
            out += entries_of(c, path + (k,))
    return out


def get_at(s, path):
    for k in path:
        if s[0] != "n":
            return None
        nxt = [c for kk, c in s[4] if kk == k]
        if not nxt:
            return None
        s = nxt[0]
    return s


def mutate_shape(rng, sh):
    sh = list(sh)
    r = rng.random()
    if sh and r < 0.5:
        i = rng.randrange(len(sh))
        sh[i] = rng.choice([d for d in DIMS if d != sh[i]])
    elif sh and r < 0.75:
        sh = sh[:-1]
    else:
        sh = [rng.choice(DIMS)] + sh
    return sh[:4]


def gen_value(rng, dest):
    """a value for a write into node `dest` (skeleton): well- or ill-shaped, well- or ill-placed"""
    bs, dev = dest[1], dest[2]
    r = rng.random()
    if r < 0.5:                      # leaf
        sh = gen_shape_ext(rng, bs, 0, 2)
        if rng.random() < 0.25:
            sh = mutate_shape(rng, sh)
        d = dev if (dev is not None and rng.random() < 0.7) else rng.choice([0, 0, 1])
        return ["l", sh, d]
    # nested tensordict value, built coherent on its own
    q = rng.random()
    if q < 0.4:
        vbs = gen_shape_ext(rng, bs, 0, 1)[:3]
    elif q < 0.7:
        vbs = list(bs[:rng.randint(0, len(bs))])          # shorter: has to grow
    else:
        vbs = mutate_shape(rng, bs)[:3]
    vdev = rng.choice([None, None, dev, 0, 1])
    named = None
    if rng.random() < 0.25 and vbs:
        # often compatible with the destination's names
        named = gen_names(rng, len(vbs), p_named=1.0)
        if dest[3] is not None and rng.random() < 0.6:
            named = (list(dest[3]) + [None] * len(vbs))[:len(vbs)]
            if all(x is None for x in named):
                named = None
    v = gen_tree(rng, vbs, vdev, rng.randint(0, 1), maxkids=2, named=named)
    if rng.random() < 0.35:
        # leaves that would allow the destination's batch size
        for kv in v[4]:
            if kv[1][0] == "l":
                kv[1][1] = (list(bs) + kv[1][1][len(vbs):])[:4] if len(vbs) <= len(bs) else kv[1][1]
                if kv[1][1][:len(vbs)] != vbs:
                    kv[1][1] = list(vbs) + kv[1][1][len(vbs):]
    return v


def gen_key(rng, node, p_exist=0.5):
    ents = [p for p, _ in entries_of(node)]
    if ents and rng.random() < p_exist:
        return tuple(rng.choice(ents))
    return tuple(rnd_key(rng) for _ in range(rng.choice([1, 1, 1, 2, 2, 3])))


def rnd_key(rng):
    """mostly a / b / c; sometimes a name holding the separator (flatten_keys / unflatten_keys collisions)"""
    return rng.choice(["a.b", "b.c"]) if rng.random() < 0.06 else rng.choice(KEYS)


def gen_op(rng, state):
    """state: skeleton of the current root"""
    if rng.random() < 0.07:
        return gen_update(rng, state)
    if rng.random() < 0.06:
        return gen_update_bs(rng, state)
    if rng.random() < 0.05:
        # auto_batch_size_ on the root or through a nested handle (there it may cut the child's batch size below its
        # parent's — the documented exclusion, recognised after the call by check_C01.auto_out_of_scope)
        hs = [tuple(h) for h, _ in nodes_of(state)]
        h = () if rng.random() < 0.6 else rng.choice(hs)
        return ["auto", h, rng.choice([None, None, None, 0, 1, 2, 3])]
    nodes = nodes_of(state)
    h, node = ((), state) if rng.random() < 0.55 else rng.choice(nodes)
    h = tuple(h)
    if rng.random() < 0.09:
        return gen_write(rng, h, node)
    if rng.random() < 0.07:
        # restructuring in place (their effect on the mapping is C04's subject; here: the metadata)
        q = rng.random()
        if q < 0.3:
            return ["excludein", h, [list(gen_key(rng, node, 0.7)) for _ in range(rng.randint(1, 3))]]
        if q < 0.5:
            # select(..., inplace=True): the model is given the observed result and accepts it iff every entry it keeps was
            # there with the same metadata (Model/C01Coherence.lean selectInM)
            return ["selectin", h, None, {"keys": [list(gen_key(rng, node, 0.8)) for _ in range(rng.randint(0, 3))],
                                          "strict": rng.random() < 0.6}]
        if q < 0.7 or not any(("." in k or "::" in k) for k, _ in node[4]):
            return ["flattenin", h, rng.choice([".", ".", ".", "::", "b.", ""])]
        return ["unflattenin", h, rng.choice([".", ".", ".", "::", "b.", "b", ""])]
    r = rng.random()
    if r < 0.36:
        key = gen_key(rng, node, 0.35)
        # the value is generated for the node that will actually receive it when it exists
        dest = get_at(node, key[:-1])
        if dest is None or dest[0] != "n":
            dest = node
        return ["set", h, key, gen_value(rng, dest)]
    if r < 0.58:
        if h == ():
            bs = node[1]
            q = rng.random()
            if q < 0.35:
                new = gen_shape_ext(rng, bs, 1, 1)[:4]
            elif q < 0.6 and bs:
                new = bs[:rng.randint(0, len(bs) - 1)]
            elif q < 0.9:
                new = mutate_shape(rng, bs)
            else:
                new = list(bs)
        else:
            parent = get_at(state, h[:-1])
            pbs = parent[1]
            # in scope: the parent's batch size stays a prefix (the child has no back-pointer)
            q = rng.random()
            if q < 0.5:
                new = gen_shape_ext(rng, node[1], 1, 1)[:4]
            elif q < 0.8:
                new = gen_shape_ext(rng, pbs, 0, 2)[:4]
            else:
                new = list(pbs)
        return ["setbatch", h, new]
    if r < 0.70:
        n = len(node[1])
        q = rng.random()
        if q < 0.15:
            names = None
        elif q < 0.75:
            names = gen_names(rng, n, p_named=1.0) if n else []
        elif q < 0.85:
            names = [rng.choice(NAMEPOOL) for _ in range(n)]                 # possibly duplicated
        else:
            names = [rng.choice(NAMEPOOL + [None]) for _ in range(rng.randint(0, 4))]   # possibly wrong length
        return ["setnames", h, names]
    if r < 0.78:
        return ["del", h, gen_key(rng, node, 0.8)]
    if r < 0.92:
        old = gen_key(rng, node, 0.85)
        q = rng.random()
        if q < 0.2 and len(old) < 3:
            new = old + (rng.choice(KEYS),)
        elif q < 0.35 and len(old) > 1:
            new = old[:rng.randint(1, len(old) - 1)]
        else:
            new = gen_key(rng, node, 0.3)
            sub = [p for p, c in entries_of(node) if c[0] == "n"]
            if sub and rng.random() < 0.5:
                new = tuple(rng.choice(sub)) + (rng.choice(KEYS),)       # into another nested tensordict
        return ["rename", h, old, new[:4]]
    if r < 0.955:
        return ["create", h, gen_key(rng, node, 0.3)]
    if r < 0.965:
        return ["pop", h, gen_key(rng, node, 0.8)]
    if r < 0.972:
        return ["popitem", h]
    if r < 0.985:
        key = gen_key(rng, node, 0.4)
        dest = get_at(node, key[:-1])
        if dest is None or dest[0] != "n":
            dest = node
        return ["setdefault", h, key, gen_value(rng, dest)]
    if r < 0.995:
        n = len(node[1])
        cur = node[3] if node[3] is not None else [None] * n
        q = rng.random()
        if q < 0.6:          # compatible refinement
            pool = [x for x in NAMEPOOL if x not in cur]
            rng.shuffle(pool)
            names = [c if c is not None else (pool.pop() if pool and rng.random() < 0.6 else None) for c in cur]
        elif q < 0.8:
            names = [rng.choice(NAMEPOOL + [None]) for _ in range(n)]
        else:
            names = [rng.choice(NAMEPOOL + [None]) for _ in range(rng.randint(0, 4))]
        return ["refine", h, names]
    return ["clear", h]


def gen_index(rng, bs):
    """a basic index into the batch dims: ints, `:k` and `:`; sometimes out of range or too long"""
    n = len(bs)
    m = rng.randint(0, n) if rng.random() < 0.9 else n + 1
    items = []
    for d in range(m):
        size = bs[d] if d < n else 1
        r = rng.random()
        if r < 0.4:
            items.append(rng.randrange(size) if size > 0 and rng.random() < 0.9 else size + rng.randint(0, 1))
        elif r < 0.7:
            items.append(["s", rng.randint(0, size + 1)])
        else:
            items.append(":")
    return items


def index_shape(items, shape):
    """shape of x[index] (None when torch refuses the index)"""
    out, rest = [], list(shape)
    for it in items:
        if not rest:
            return None
        d = rest.pop(0)
        if isinstance(it, int):
            if it >= d:
                return None
        elif it == ":":
            out.append(d)
        else:
            out.append(min(it[1], d))
    return out + rest


def py_index(items):
    return tuple(it if isinstance(it, int) else (slice(None) if it == ":" else slice(None, it[1])) for it in items)


def gen_write(rng, h, node):
    """a write into existing storage on the node at handle `h`: set_ / set_at_ / update_ / update_at_ / td[index] = value"""
    bs, dev = node[1], node[2]
    ents = node[4]
    leaves = [(k, c) for k, c in ents if c[0] == "l"]
    call = rng.choice(["set_", "set_at_", "update_", "update_at_", "setitem_td", "setitem_dict", "setitem_dict", "setitem_tensor"])
    idx = gen_index(rng, bs)
    ibs = index_shape(idx, bs)

    def vshape(dest_shape, base):
        if dest_shape is not None and rng.random() < 0.7:
            sh = list(base) + list(dest_shape[len(bs):])
        else:
            sh = list(base) + [rng.choice(DIMS) for _ in range(rng.randint(0, 2))]
        if rng.random() < 0.2:
            sh = mutate_shape(rng, sh)
        return sh[:5]

    def pick_key(p_exist=0.7):
        if ents and rng.random() < p_exist:
            k, c = rng.choice(ents)
            return k, c
        return rng.choice(KEYS + ["z"]), None
    vdev = dev if (dev is not None and rng.random() < 0.8) else rng.choice([0, 0, 1])
    spec = {"call": call, "idx": idx}
    if call in ("set_", "set_at_"):
        k, c = pick_key(0.8)
        base = bs if call == "set_" else (ibs if ibs is not None else bs)
        spec.update(key=[k], shape=vshape(c[1] if c is not None and c[0] == "l" else None, base), dev=vdev)
        if c is not None and c[0] == "n" and c[4] and rng.random() < 0.5:
            k2, c2 = rng.choice(c[4])
            spec.update(key=[k, k2], shape=vshape(c2[1] if c2[0] == "l" else None, base))
    elif call in ("update_", "update_at_"):
        base = bs if call == "update_" else (ibs if ibs is not None else bs)
        items = []
        for _ in range(rng.randint(1, 2)):
            k, c = pick_key(0.85)
            items.append([k, vshape(c[1] if c is not None and c[0] == "l" else None, base), vdev])
        spec.update(items=items)
    elif call == "setitem_tensor":
        spec.update(shape=vshape(None, ibs if ibs is not None else bs)[:len(ibs if ibs is not None else bs) + rng.randint(0, 1)], dev=vdev)
    else:
        base = ibs if ibs is not None else bs
        if rng.random() < 0.15:
            base = mutate_shape(rng, base)
        items = []
        for _ in range(rng.randint(1, 3)):
            k, c = pick_key(0.55)
            if c is not None and c[0] == "n" and rng.random() < 0.7:
                # a nested value for a nested tensordict: existing and new keys below
                sub = []
                for _ in range(rng.randint(1, 2)):
                    if c[4] and rng.random() < 0.5:
                        k2, c2 = rng.choice(c[4])
                    else:
                        k2, c2 = rng.choice(KEYS + ["z"]), None
                    cbase = list(base) + list(c[1][len(bs):])
                    sub.append([k2, vshape(c2[1][len(c[1]) - len(bs):] if False else None, cbase), vdev])
                items.append([k, "nested", sub, list(base) + list(c[1][len(bs):])])
            else:
                items.append([k, vshape(c[1] if c is not None and c[0] == "l" else None, base), vdev])
        spec.update(items=items, vbs=list(base), as_td=(call == "setitem_td"))
    allow_new = call in ("setitem_td", "setitem_dict")
    return ["write", h, allow_new, None, spec]


def run_write(node, spec):
    """execute the call described by `spec` on the tensordict `node`"""
    from tensordict import TensorDict
    z = lambda sh, d: torch.zeros(sh, device=DEVS[d])  # noqa: E731
    call, idx = spec["call"], py_index(spec["idx"])
    if call == "set_":
        node.set_(tuple(spec["key"]), z(spec["shape"], spec["dev"]))
    elif call == "set_at_":
        node.set_at_(tuple(spec["key"]), z(spec["shape"], spec["dev"]), idx)
    elif call == "update_":
        node.update_({k: z(sh, d) for k, sh, d in spec["items"]})
    elif call == "update_at_":
        node.update_at_({k: z(sh, d) for k, sh, d in spec["items"]}, idx)
    elif call == "setitem_tensor":
        node[idx] = z(spec["shape"], spec["dev"])
    else:
        payload = {}
        for it in spec["items"]:
            if it[1] == "nested":
                sub = {k2: z(sh, d) for k2, sh, d in it[2]}
                payload[it[0]] = TensorDict(sub, batch_size=it[3]) if spec["as_td"] else sub
            else:
                payload[it[0]] = z(it[1], it[2])
        node[idx] = TensorDict(payload, batch_size=spec["vbs"]) if spec["as_td"] else payload


def gen_pv(rng, dest_bs, dev, depth=0):
    """a payload value of update: a tensor (well / ill shaped, any device) or a nested dict"""
    if depth >= 2 or rng.random() < 0.65:
        sh = gen_shape_ext(rng, dest_bs, 0, 2)
        if rng.random() < 0.2:
            sh = mutate_shape(rng, sh)
        d = dev if (dev is not None and rng.random() < 0.7) else rng.choice([0, 0, 1])
        return ["l", sh[:5], d]
    return ["d", [[k, gen_pv(rng, dest_bs, dev, depth + 1)] for k in rng.sample(KEYS, rng.randint(0, 2))]]


def gen_update(rng, state):
    nodes = nodes_of(state)
    h, node = ((), state) if rng.random() < 0.6 else rng.choice(nodes)
    if rng.random() < 0.4:
        # a tensordict payload: same batch size (mostly), a longer / shorter / mismatching one, any device, maybe named
        q = rng.random()
        if q < 0.6:
            pbs = list(node[1])
        elif q < 0.75:
            pbs = gen_shape_ext(rng, node[1], 1, 1)[:4]
        elif q < 0.9:
            pbs = list(node[1][:rng.randint(0, len(node[1]))])
        else:
            pbs = mutate_shape(rng, node[1])[:4]
        pdev = rng.choice([None, None, node[2], 0, 1])
        payload = gen_tree(rng, pbs, pdev, rng.randint(0, 2), maxkids=3)
        if rng.random() < 0.5:
            # make it meet what is there: reuse some of the destination's keys (nested ones included)
            mine = [k for k, _ in node[4]]
            for kv in payload[4]:
                if mine and rng.random() < 0.6:
                    kv[0] = rng.choice(mine)
            seen, uniq = set(), []
            for kv in payload[4]:
                if kv[0] not in seen:
                    seen.add(kv[0]); uniq.append(kv)
            payload[4] = uniq
        return ["updatetd", tuple(h), payload]
    items, seen = [], set()
    for _ in range(rng.randint(1, 3)):
        key = gen_key(rng, node, 0.5)[:3]
        if key in seen:
            continue
        seen.add(key)
        dest = get_at(node, key[:-1])
        if dest is None or dest[0] != "n":
            dest = node
        items.append([list(key), gen_pv(rng, dest[1], dest[2])])
    return ["update", tuple(h), items]


def rebatch(sk, n_old, new):
    """the same structure with the first n_old dims of every shape replaced by `new`, unnamed"""
    if sk[0] == "l":
        return ["l", (list(new) + list(sk[1][n_old:]))[:5], sk[2]]
    return ["n", (list(new) + list(sk[1][n_old:]))[:4], sk[2], None, [[k, rebatch(c, n_old, new)] for k, c in sk[4]]]


def gen_update_bs(rng, state):
    """update(payload, update_batch_size=True): payloads built FROM the destination (same keys, another batch size at the root or in
    one nested tensordict, some entries dropped / added / ill-shaped) so that the recursion, the mismatching-head and the
    batch_size_changed paths are taken, and unrelated random payloads"""
    import copy
    nodes = nodes_of(state)
    h, node = ((), state) if rng.random() < 0.7 else rng.choice(nodes)
    bs = list(node[1])
    q = rng.random()
    if q < 0.75:
        r = rng.random()
        if r < 0.35:
            new = mutate_shape(rng, bs)
        elif r < 0.5:
            new = bs[:rng.randint(0, len(bs))]
        elif r < 0.6:
            new = gen_bs(rng)
        else:
            new = list(bs)
        payload = rebatch(copy.deepcopy(node), len(bs), new)
        payload[2] = rng.choice([None, None, node[2]])
        if payload[2] is None:
            def undev(s):
                if s[0] == "n":
                    s[2] = None if rng.random() < 0.7 else s[2]
                    for _, c in s[4]:
                        undev(c)
            undev(payload)
        subs = [(p, c) for p, c in nodes_of(payload) if p]
        if subs and rng.random() < 0.6:
            # one nested tensordict gets other dims beyond (or instead of) its parent's
            p, c = rng.choice(subs)
            parent = get_at(payload, p[:-1])
            n_par = len(parent[1])
            r2 = rng.random()
            if r2 < 0.5:
                ext = [rng.choice(DIMS) for _ in range(rng.randint(0, 2))]
                newc = rebatch(c, len(c[1]), list(parent[1]) + ext)
            elif r2 < 0.8:
                newc = rebatch(c, len(c[1]), mutate_shape(rng, c[1]))
            else:
                newc = rebatch(c, len(c[1]), gen_bs(rng))
            for kv in parent[4]:
                if kv[0] == p[-1]:
                    kv[1] = newc
        if payload[4] and rng.random() < 0.25:
            payload[4].pop(rng.randrange(len(payload[4])))
        if rng.random() < 0.25:
            k = rng.choice(KEYS)
            if k not in [kk for kk, _ in payload[4]]:
                payload[4].append([k, ["l", gen_shape_ext(rng, payload[1], 0, 1)[:5], 0] if rng.random() < 0.6
                                   else gen_tree(rng, gen_shape_ext(rng, payload[1], 0, 1)[:3], None, 1, maxkids=2)])
        if payload[4] and rng.random() < 0.2:
            kv = rng.choice(payload[4])
            if kv[1][0] == "l":
                kv[1][1] = mutate_shape(rng, kv[1][1])
    else:
        pbs = rng.choice([bs, mutate_shape(rng, bs), gen_bs(rng), bs[:max(0, len(bs) - 1)]])
        payload = gen_tree(rng, list(pbs)[:3], rng.choice([None, None, node[2], 0]), rng.randint(0, 2), maxkids=3)
        mine = [k for k, _ in node[4]]
        for kv in payload[4]:
            if mine and rng.random() < 0.6:
                kv[0] = rng.choice(mine)
        seen, uniq = set(), []
        for kv in payload[4]:
            if kv[0] not in seen:
                seen.add(kv[0]); uniq.append(kv)
        payload[4] = uniq
    return ["updatebs", tuple(h), payload]


def build_pv(v):
    if v[0] == "l":
        return torch.zeros(v[1], device=DEVS[v[2]])
    return {k: build_pv(x) for k, x in v[1]}


def sx_pv(v):
    if v[0] == "l":
        return f"(l {sx_nats(v[1])} {v[2]})"
    return "(d" + "".join(f" ({hexs(k)} {sx_pv(x)})" for k, x in v[1]) + ")"


# --------------------------------------------------------------------------- implementation executor
def cls_of(e):
    if isinstance(e, NotImplementedError):
        return "other"
    if isinstance(e, AttributeError):
        return "attr"
    c = err_class(e)
    return "runtime" if c == "lock" else c


def prepare_op(op):
    if op[0] in ("updatetd", "updatebs"):
        try:
            v = build(op[2])
        except Exception:  # noqa
            return None
        return [op[0], op[1], snap(v), None, v]
    if op[0] == "setdefault":
        try:
            v = build(op[3])
        except Exception:  # noqa
            return None
        return [op[0], op[1], op[2], snap(v), v]
    return _prepare_set(op)


def _prepare_set(op):
    """build the value of a `set` with the real constructor (which itself normalises nested metadata: adopted or
    refined names, device moves) and put its *actual* metadata into the op, so that model and implementation
    are given the same value. Returns None when the constructor rejects the generated value."""
    if op[0] != "set":
        return op
    try:
        v = build(op[3])
    except Exception:  # noqa
        return None
    return [op[0], op[1], op[2], snap(v), v]


def apply_impl(td, op, tlimit=10.0):
    kind, h = op[0], op[1]
    try:
        with time_limit(tlimit):
            node = td if not h else td.get(tuple(h))
            if node is None:
                raise KeyError(h)
            if kind == "set":
                node.set(tuple(op[2]), op[4])        # op[4]: the value object built by prepare_op
            elif kind == "setbatch":
                node.batch_size = op[2]
            elif kind == "setnames":
                node.names = op[2]
            elif kind == "del":
                node.del_(tuple(op[2]))
            elif kind == "rename":
                node.rename_key_(tuple(op[2]), tuple(op[3]))
            elif kind == "create":
                node.create_nested(tuple(op[2]))
            elif kind == "clear":
                node.clear()
            elif kind == "pop":
                node.pop(tuple(op[2]))
            elif kind == "popitem":
                node.popitem()
            elif kind == "setdefault":
                node.setdefault(tuple(op[2]), op[4])
            elif kind == "refine":
                node.refine_names(*op[2])
            elif kind == "write":
                run_write(node, op[4])
            elif kind == "updatetd":
                node.update(op[4])
            elif kind == "updatebs":
                node.update(op[4], update_batch_size=True)
            elif kind == "auto":
                node.auto_batch_size_(op[2])
            elif kind == "selectin":
                node.select(*[tuple(k) for k in op[3]["keys"]], inplace=True, strict=op[3]["strict"])
            elif kind == "excludein":
                node.exclude(*[tuple(k) for k in op[2]], inplace=True)
            elif kind == "flattenin":
                node.flatten_keys(op[2], inplace=True)
            elif kind == "unflattenin":
                node.unflatten_keys(op[2], inplace=True)
            elif kind == "update":
                node.update({tuple(k): build_pv(v) for k, v in op[2]})
            else:
                raise AssertionError(kind)
        return ["ok"]
    except TimeoutError:
        raise
    except Exception as e:  # noqa
        return ["err", cls_of(e)]


# --------------------------------------------------------------------------- S-expressions
def hexs(s):
    return "h" + s.encode().hex()


def sx_path(p):
    return "(" + " ".join(hexs(k) for k in p) + ")"


def sx_names(n):
    if n is None:
        return "none"
    return "(" + " ".join("none" if x is None else hexs(x) for x in n) + ")"


def sx_nats(l):
    return "(" + " ".join(str(int(x)) for x in l) + ")"


def sx_tree(s):
    if s[0] == "l":
        return f"(l {sx_nats(s[1])} {s[2]})"
    _, bs, dev, names, kids = s
    return f"(n {sx_nats(bs)} {'none' if dev is None else dev} {sx_names(names)}" + "".join(f" ({hexs(k)} {sx_tree(v)})" for k, v in kids) + ")"


def sx_op(op):
    k = op[0]
    if k == "set":
        return f"(set {sx_path(op[1])} {sx_path(op[2])} {sx_tree(op[3])})"
    if k == "setbatch":
        return f"(setbatch {sx_path(op[1])} {sx_nats(op[2])})"
    if k == "setnames":
        return f"(setnames {sx_path(op[1])} {sx_names(op[2])})"
    if k == "del":
        return f"(del {sx_path(op[1])} {sx_path(op[2])})"
    if k == "rename":
        return f"(rename {sx_path(op[1])} {sx_path(op[2])} {sx_path(op[3])})"
    if k == "create":
        return f"(create {sx_path(op[1])} {sx_path(op[2])})"
    if k == "clear":
        return f"(clear {sx_path(op[1])})"
    if k == "pop":
        return f"(pop {sx_path(op[1])} {sx_path(op[2])})"
    if k == "popitem":
        return f"(popitem {sx_path(op[1])})"
    if k == "setdefault":
        return f"(setdefault {sx_path(op[1])} {sx_path(op[2])} {sx_tree(op[3])})"
    if k == "refine":
        return f"(refine {sx_path(op[1])} {sx_names(op[2])})"
    if k == "excludein":
        return f"(excludein {sx_path(op[1])} ({' '.join(sx_path(x) for x in op[2])}))"
    if k in ("flattenin", "unflattenin"):
        return f"({k} {sx_path(op[1])} {hexs(op[2])})"
    if k == "selectin":
        return f"(selectin {sx_path(op[1])} {sx_tree(op[2])})"
    if k == "write":
        return f"(write {sx_path(op[1])} {'true' if op[2] else 'false'} {sx_tree(op[3])})"
    if k in ("updatetd", "updatebs"):
        return f"({k} {sx_path(op[1])} {sx_tree(op[2])})"
    if k == "auto":
        return f"(auto {sx_path(op[1])} {'none' if op[2] is None else int(op[2])})"
    if k == "update":
        return f"(update {sx_path(op[1])}" + "".join(f" ({sx_path(kk)} {sx_pv(v)})" for kk, v in op[2]) + ")"
    raise AssertionError(k)


def unhex(a):
    return bytes.fromhex(a[1:]).decode() if isinstance(a, str) and a.startswith("h") else a


def tree_from_sx(v):
    if v[0] == "l":
        return ["l", list(v[1]), v[2]]
    _, bs, dev, names, *kvs = v
    return ["n", list(bs), None if dev == "none" else dev,
            None if names == "none" else [None if x == "none" else unhex(x) for x in names],
            [[unhex(kv[0]), tree_from_sx(kv[1])] for kv in kvs]]
