"""C18: memoised class predicates whose memo is switched off under torch.compile — `_is_tensorclass` (memo read, not
written), `_is_non_tensor`, `_pass_through_cls` (tensordict/utils.py), `_is_tensor_collection` (tensordict/base.py).
Both branches are forced by patching `is_compiling` in both modules.  Model = Model/Memo.lean (one class at a time).
Streams  memo_eager / memo_compile : (value, memo entry afterwards) for every (function, class, initial memo entry)
oracle   memo : with a memo that only holds what the class says, both branches return the same value
         (theorems memo_read_agree / memo_fresh_agree_partial); the stale-memo witness (theorem
         memo_stale_counterexample) is replayed with a scratch class whose attribute is changed after the first query."""
from __future__ import annotations

import contextlib
import unittest.mock as mock

import torch

from common import parse_sx


def memo(run):
    import importlib
    import tensordict.base as B
    import tensordict.utils as U
    from tensordict import LazyStackedTensorDict, NonTensorData, NonTensorStack, TensorDict, tensorclass
    from tensordict.nn import TensorDictParams

    drv = run._drv

    @tensorclass
    class MemoTC:
        a: torch.Tensor

    class Plain:
        pass

    class Flagged:
        _is_non_tensor = True
        _pass_through = True

    classes = [TensorDict, LazyStackedTensorDict, TensorDictParams, MemoTC, NonTensorData, NonTensorStack, int, torch.Tensor, dict, Plain, Flagged]
    funcs = [
        ("_is_tensorclass", U._is_tensorclass, U._TENSORCLASS_MEMO, "read", lambda c: bool(getattr(c, "_is_tensorclass", False))),
        ("_is_non_tensor", U._is_non_tensor, U._NON_TENSOR_MEMO, "fresh", lambda c: bool(getattr(c, "_is_non_tensor", False))),
        ("_pass_through_cls", U._pass_through_cls, U._PASSTHROUGH_MEMO, "fresh",
         lambda c: bool(getattr(c, "_is_non_tensor", False)) or bool(getattr(c, "_pass_through", False))),
        ("_is_tensor_collection", B._is_tensor_collection, B._TENSOR_COLLECTION_MEMO, "fresh",
         lambda c: issubclass(c, B.TensorDictBase) or bool(getattr(c, "_is_tensorclass", False))),
    ]

    @contextlib.contextmanager
    def compiling(flag):
        with mock.patch.object(U, "is_compiling", lambda: flag), mock.patch.object(B, "is_compiling", lambda: flag):
            yield

    def entry(memo_dict, cls):
        v = memo_dict.get(cls)
        return "none" if v is None else ("true" if v else "false")

    for name, fn, memo_dict, flavour, truth_fn in funcs:
        for cls in classes:
            truth = truth_fn(cls)
            for init in ("none", "consistent", "stale"):
                saved = memo_dict.get(cls, "absent")
                try:
                    for comp in (False, True):
                        memo_dict.pop(cls, None)
                        if init == "consistent":
                            memo_dict[cls] = truth
                        elif init == "stale":
                            memo_dict[cls] = not truth
                        before = entry(memo_dict, cls)
                        with compiling(comp):
                            val = bool(fn(cls))
                        after = entry(memo_dict, cls)
                        m = parse_sx(drv.ask(f"(c18.memo {'true' if truth else 'false'} {before})"))
                        mm = m[0] if not comp else (m[1] if flavour == "read" else m[2])
                        case = [name, cls.__name__, init, "compile" if comp else "eager"]
                        run.case(("memo",) + tuple(case))
                        run.corr("memo_compile" if comp else "memo_eager", case, ["true" if val else "false", after], [str(x) for x in mm])
                        if comp:
                            compile_val = val
                        else:
                            eager_val = val
                    run.count("memo.state", init)
                    if init != "stale":
                        if eager_val != compile_val:
                            run.oracle_fail("memo", [name, cls.__name__, init], f"eager branch={eager_val} compile branch={compile_val}", "memo:" + name)
                        else:
                            run.oracle_ok("memo")
                finally:
                    memo_dict.pop(cls, None)
                    if saved != "absent":
                        memo_dict[cls] = saved
    # the stale-memo witness on the implementation: a class attribute changed after the first query
    class Scratch:
        _is_non_tensor = False
    U._NON_TENSOR_MEMO.pop(Scratch, None)
    with compiling(False):
        first = U._is_non_tensor(Scratch)
    Scratch._is_non_tensor = True
    with compiling(False):
        stale = U._is_non_tensor(Scratch)
    with compiling(True):
        fresh = U._is_non_tensor(Scratch)
    U._NON_TENSOR_MEMO.pop(Scratch, None)
    run.corr("memo_stale_witness", "Scratch._is_non_tensor False -> True", [first, stale, fresh], [False, False, True])
    run.sample({"stream": "memo", "case": "(c18.memo true false)", "model": drv.ask("(c18.memo true false)")})
