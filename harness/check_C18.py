"""C18 — compiled vs eager, native vs Python helpers (DESIGN §6 C18)."""
from __future__ import annotations

import itertools
import unittest.mock as mock

from common import Infra, Raw, Run, err_class, main_guard, parse_sx, sx, time_limit


def key_sx(k) -> str:
    if isinstance(k, str):
        return f"(s {k})"
    if isinstance(k, tuple):
        return "(t" + "".join(" " + key_sx(x) for x in k) + ")"
    return "bad"


def gen_keys(depth, width, atoms):
    if depth == 0:
        return list(atoms)
    sub = gen_keys(depth - 1, width, atoms)
    out = list(atoms)
    for w in range(1, width + 1):
        out += [tuple(c) for c in itertools.product(sub, repeat=w)]
    return out


def canon_tup(r):
    return list(r)


def canon_key(f, k):
    try:
        r = f(k)
    except RuntimeError:
        return "err"          # the model's `KeyOut.err` is RuntimeError on both paths (Model/Key.lean `unravelKeyCppE`)
    except Exception as e:
        return "err:" + type(e).__name__
    if isinstance(r, str):
        return ["s", r]
    return ["t"] + list(r)


def main():
    import time as _time
    _t = [_time.monotonic()]
    _times = {}

    def lap(name):
        now = _time.monotonic()
        _times[name] = round(now - _t[0], 1)
        _t[0] = now
    run = Run("C18")
    # at most 8 failing inputs are *recorded* per oracle site (the rest are counted), so that the 20 failures kept in a
    # replay file show every site that fired instead of 20 inputs of the first exhaustive stream
    from collections import Counter as _Counter
    _fails = _Counter()
    _orig_fail = run.oracle_fail

    def _capped_fail(site, case, what, fingerprint=None):
        _fails[site] += 1
        if _fails[site] <= 8:
            _orig_fail(site, case, what, fingerprint)
        else:
            run.oracle_counts[site] += 1
            run.count("oracle_fail.not_recorded_beyond_8_per_site", site)
    run.oracle_fail = _capped_fail
    run.rule = ("helpers: exhaustive nested keys (depth/width per tier) over atoms {a,obs,1,()} and all slices start/stop/step in -4..4|None on lengths 0..5; "
                "infer_size: every shape of length <=4 over {-2..3} x numel 0..12 + random (big ints, negative numel); _maybe_correct_neg_dim: dims -7..7 x ranks 0..4 x ndim None|0..5; "
                "key calls: random lists/tuples of nested keys + 10 non-sequence objects, unravel_keys with 0..3 args; _check_keys: all ordered pairs of subsets of 5 keys + random 3-4 operand lists, strict and not; "
                "_parse_to: every call with <=2 positionals over 24 values + every single keyword + random calls; Sequential key union: random module chains with selected out keys; "
                "programs: fixed corpus + random straight-line programs of <=6 ops from ~190 tensordict ops on 5 input kinds, eager vs torch.compile; "
                "a case is non-trivial if it is a distinct (helper,input) or program")
    run.trusted += [
        "harness/py2lean.py translator (validated each run: generated Lean defs of _slice_indices, infer_size_impl, _infer_size_impl, _maybe_correct_neg_dim vs the Python functions on their grids, error classes included; a division inside a condition is translated only when an earlier conjunct proves the divisor non-zero)",
        "SliceSpec.indices = transcription of CPython slice.indices (validated each run against slice.indices on the grid; range(*indices) == seq[slice] checked element-wise)",
        "Model/Key.lean hand transcription of csrc/utils.cpp, of the pybind11 overload dispatch and of the Python fallbacks (validated each run against the C++ recompiled from the working tree and the Python branch forced by patching is_compiling, exception classes included)",
        "Model/CheckKeys.lean, Model/Compile.lean, Model/ParseTo.lean hand transcriptions of both branches of _check_keys / the Sequential key union / _parse_batch_size / _values_list / _parse_to (validated each run with is_compiling patched to each value; ParseTo also against torch._C._nn._parse_to itself)",
        "torch.compile/dynamo and inductor are outside every model: program-level agreement is differential evidence only; three torch 2.14 dynamo bugs are excluded from the program oracle, each only while its torch-only reproduction (run first, c18_programs.TORCH_BUGS) still fails",
    ]
    run.assumptions += ["program-level compiled==eager is tested, not proved (dynamo is runtime)",
                        "a program whose two runs differ is reported only if it still differs in a fresh interpreter (dynamo keeps process-wide state that reset() does not clear)"]

    # 1. regenerate the translated helper
    import gen_tables
    import py2lean
    try:
        gen_tables.write_if_changed("PyFuns.lean", gen_tables.gen_pyfuns())
        gen_tables.write_if_changed("DualHelpers.lean", gen_tables.gen_dual_helpers())
    except py2lean.Untranslatable as e:
        run.proof_broken.append(f"translator:{e}")
    # 2. proofs
    run.build_and_audit(["TdVerif.Props.C18"])
    try:
        import re as _re
        _known = set(_re.findall(r'"([^"]+)"', (gen_tables.LEAN / "TdVerif/Model/DualCoverage.lean").read_text()))
        _new = [n for n in gen_tables.dual_helper_names() if n not in _known]
        run.notes.append(f"functions with an is_compiling() branch not listed in Model/DualCoverage.lean (covered by the program stream only): {_new}")
    except Exception as e:
        run.notes.append(f"dual-helper listing failed: {e}")
    drv = run.driver()
    lap("build+audit")

    import tensordict.utils as U
    import cxx_build
    C = cxx_build.build_and_load()

    # 3a. slices: translator validation + spec validation + direct oracle
    vals = [None] + list(range(-4, 5))
    cases = [(a, b, c, L) for L in range(0, 6) for a in vals for b in vals for c in vals]
    if run.tier == "thorough":
        vals2 = [None] + list(range(-7, 8))
        cases += [(a, b, c, L) for L in range(6, 9) for a in vals2 for b in vals2 for c in vals2]
    req_py = [sx("c18.slice_py", a, b, c, L) for (a, b, c, L) in cases]
    req_sp = [sx("c18.slice_spec", a, b, c, L) for (a, b, c, L) in cases]
    ans_py = drv.ask_many(req_py)
    ans_sp = drv.ask_many(req_sp)
    for (a, b, c, L), mp, ms in zip(cases, ans_py, ans_sp):
        s = slice(a, b, c)
        try:
            impl = ["ok"] + list(U._slice_indices(s, L))
        except ValueError:
            impl = ["err", "ValueError"]
        except Exception as e:
            impl = ["err", type(e).__name__]
        try:
            cp = ["ok"] + list(s.indices(L))
        except ValueError:
            cp = ["err", "ValueError"]
        run.case(("slice", a, b, c, L), nontrivial=True)
        run.count("slice.step_sign", "none" if c is None else ("neg" if c < 0 else "zero" if c == 0 else "pos"))
        run.corr("slice_py(translator)", [a, b, c, L], impl, parse_sx(mp))
        run.corr("slice_spec(cpython)", [a, b, c, L], cp, parse_sx(ms))
        # property oracle: same len(range(...)) on both paths (what _getitem_batch_size uses)
        if impl[0] == "ok":
            # what the index arithmetic is for: the positions it enumerates are exactly what Python slicing selects
            # (theorems slice_indices_in_bounds / slice_len_bounds say they are valid positions, for every length)
            if list(range(*impl[1:])) != list(range(L))[s]:
                run.oracle_fail("slice_elements", [a, b, c, L], f"range(*_slice_indices)={list(range(*impl[1:]))} seq[slice]={list(range(L))[s]}", "slice_elements")
            else:
                run.oracle_ok("slice_elements")
        if impl[0] == "ok" and cp[0] == "ok":
            if len(range(*impl[1:])) != len(range(*cp[1:])):
                run.oracle_fail("slice_indices", [a, b, c, L], f"_slice_indices={impl[1:]} slice.indices={cp[1:]}", "slice_len")
            else:
                run.oracle_ok("slice_indices")
        elif impl[0] != cp[0]:
            run.oracle_fail("slice_indices", [a, b, c, L], f"_slice_indices={impl} slice.indices={cp}", "slice_err")
        else:
            run.oracle_ok("slice_indices")
    run.sample({"stream": "slice", "case": [0, 0, None, 3], "model": drv.ask(sx("c18.slice_py", 0, 0, None, 3))})

    lap("slices")
    # 3b. keys
    atoms = ["a", "obs", 1, ()]  # a multi-character name: splicing a str character by character must show
    if run.tier == "thorough":
        keys = gen_keys(2, 3, atoms)
        deep = gen_keys(2, 2, atoms)
        keys += [tuple(run.rng.choice(deep) for _ in range(run.rng.randint(1, 3))) for _ in range(40000)]
    else:
        keys = gen_keys(2, 2, atoms)
        deep = gen_keys(2, 2, atoms)
        keys += [tuple(run.rng.choice(deep) for _ in range(run.rng.randint(1, 3))) for _ in range(3000)]
    ksx = [key_sx(k) for k in keys]
    m_tc = drv.ask_many([f"(c18.tup_cpp {k})" for k in ksx])
    m_tp = drv.ask_many([f"(c18.tup_py {k})" for k in ksx])
    m_kc = drv.ask_many([f"(c18.key_cpp {k})" for k in ksx])
    m_kp = drv.ask_many([f"(c18.key_py {k})" for k in ksx])

    def fix(v):  # a lone atom "err" parses as str
        return v

    with mock.patch.object(U, "is_compiling", lambda: True):
        py_t = [canon_tup(U._unravel_key_to_tuple(k)) for k in keys]
        py_k = [canon_key(U.unravel_key, k) for k in keys]
        py_l = [canon_key(lambda kk: tuple(U.unravel_key_list([kk])), k) for k in keys[:500]]
    cc_t = [canon_tup(C._unravel_key_to_tuple(k)) for k in keys]
    cc_k = [canon_key(C.unravel_key, k) for k in keys]
    # the pre-built extension actually imported by the library must be the working tree's source
    from tensordict import _C as builtC
    for i, k in enumerate(keys):
        run.case(("key", ksx[i]), nontrivial=isinstance(k, tuple))
        d = 0
        kk = k
        run.count("key.kind", "tuple" if isinstance(k, tuple) else type(k).__name__)
        run.corr("tup_cpp", ksx[i], cc_t[i], parse_sx(m_tc[i]))
        run.corr("tup_py", ksx[i], py_t[i], parse_sx(m_tp[i]))
        run.corr("key_cpp", ksx[i], cc_k[i], parse_sx(m_kc[i]))
        run.corr("key_py", ksx[i], py_k[i], parse_sx(m_kp[i]))
        if py_t[i] != cc_t[i]:
            run.oracle_fail("unravel_tuple", ksx[i], f"python={py_t[i]} c++={cc_t[i]}", "tup")
        elif py_k[i] != cc_k[i]:
            run.oracle_fail("unravel_key", ksx[i], f"python={py_k[i]} c++={cc_k[i]}", "key")
        else:
            run.oracle_ok("unravel")
        if i < 2000:
            bt = canon_tup(builtC._unravel_key_to_tuple(k))
            if bt != cc_t[i]:
                raise Infra("tensordict/_C*.so is stale w.r.t. tensordict/csrc (rebuild the extension)")
    run.sample({"stream": "key", "case": ksx[len(ksx) // 2], "cpp": m_kc[len(ksx) // 2], "py": m_kp[len(ksx) // 2]})

    lap("keys")
    # 3b''. call-level unravel_key_list (both overloads) / unravel_keys, and the key specification
    import c18_keys
    c18_keys.key_calls(run, C, keys)

    lap("key_calls")
    # 3b'. the dual pair infer_size_impl / _infer_size_impl
    import c18_infer
    c18_infer.infer_size(run)
    c18_infer.neg_dim(run)
    c18_infer.translator_selftest(run)

    lap("infer_size+neg_dim")
    # 3b3. _check_keys on both branches
    import c18_checkkeys
    c18_checkkeys.check_keys(run)
    c18_checkkeys.seq_keys(run)
    c18_checkkeys.prob_seq_keys(run)

    lap("check_keys+seq_keys")
    # 3b4. _parse_to: native parser vs its Python twin
    import c18_parseto
    c18_parseto.parse_to(run)

    lap("parse_to")
    # 3b5. _new_unsafe: unchecked constructor vs its compile-branch fallback to the checked one
    import c18_newunsafe
    c18_newunsafe.new_unsafe(run)

    # 3b6. _from_tensordict key validation on both branches
    import c18_fromtd
    c18_fromtd.from_td(run)

    # 3b7. memoised class predicates (memo off under compile)
    import c18_memo
    c18_memo.memo(run)

    # 3b8. consolidate: the contiguity test on both branches (open finding C18-consolidate-unit-stride)
    import c18_consolidate
    c18_consolidate.consolidate_leaves(run)

    # 3c. batch-size spellings and key-aligned value lists (both branches, direct oracle)
    import c18_programs
    c18_programs.helper_duals(run)
    lap("helper_duals")
    # 4. programs: eager vs compiled
    c18_programs.programs(run)
    lap("programs")
    run.notes.append(f"wall seconds per section: {_times}")
    if run.tier == "thorough":
        run.leanchecker(["TdVerif.Props.C18"])
    run.finish("proof")


if __name__ == "__main__":
    main_guard(main)
