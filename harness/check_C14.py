"""C14 — TensorDict modules read in_keys, write out_keys; sequences compose soundly (DESIGN §6 C14)."""
from __future__ import annotations

import itertools

from common import Infra, Run, main_guard, parse_sx, time_limit

import c14_gen as G


def ask(drv, reqs, budget=24000):
    out, chunk, size = [], [], 0
    for r in reqs:
        if chunk and size + 3 * len(r) > budget:
            out += drv.ask_many(chunk)
            chunk, size = [], 0
        chunk.append(r)
        size += 3 * len(r)
    if chunk:
        out += drv.ask_many(chunk)
    return out


def subsets(xs, rng, cap):
    allsub = [list(c) for r in range(len(xs) + 1) for c in itertools.combinations(xs, r)]
    if len(allsub) <= cap:
        return allsub
    return [allsub[0], allsub[-1]] + rng.sample(allsub[1:-1], cap - 2)


def main():
    run = Run("C14")
    run.rule = ("random module graphs of 1-5 TensorDictModules over the key universe {a,b,c,d,(n,x),(n,y)} + the sink '_' (overwritten keys, keys read and written, "
                "multi-output modules, 35% single-assignment programs), as ModuleList- and ModuleDict-based sequences; every subset of the universe as in_keys and "
                "every subset of the out_keys as out_keys of select_subsequence; a case is non-trivial if its (program, input/selection) text is new and the program has a module with an in_key")
    run.trusted += [
        "Model/C14Seq.lean is a hand transcription of TensorDictModule.forward/_write_to_tensordict, TensorDictSequential._compute_in_and_out_keys, "
        "select_subsequence (both passes) and the _OutKeysSelect hook; validated on every run against the library (in/out keys, results of runs, kept modules of every selection)",
        "the module functions are integer hashes of (function id, output index, inputs): equal values <=> equal dataflow up to hash collisions (61-bit)",
    ]
    run.assumptions += [
        "keys of the universe have no prefix conflicts ('n' is never a leaf); no module reads the sink '_'",
        "probabilistic modules: decision logic only, checked differentially (oracle) with deterministic distributions; sampling is torch",
    ]
    run.build_and_audit(["TdVerif.Props.C14", "TdVerif.Props.C14Select", "TdVerif.Props.C14Auto"])
    import c13_shapes
    c13_shapes.check(run, "C14")   # the hand-transcribed functions still have the shape that was transcribed
    if run.tier == "thorough":
        run.leanchecker(["TdVerif.Props.C14", "TdVerif.Lemmas.C14", "TdVerif.Lemmas.C14Nested", "TdVerif.Model.C14Seq", "TdVerif.Model.C14Prob"])
    drv = run.driver()
    rng = run.rng
    quick = run.tier == "quick"

    import torch  # noqa: F401
    from tensordict import TensorDict  # noqa: F401

    # ------------------------------------------------------------------ plain sequences
    n_prog = 160 if quick else 1500
    cap = 24 if quick else 64
    progs = []
    import json
    from common import VERIF
    corpus = [G.prog_from_sx(json.loads(pth.read_text())["prog"]) for pth in sorted((VERIF / "corpus" / "C14").glob("*.json"))]
    run.count("corpus.cases", len(corpus))
    for it in range(n_prog + len(corpus)):
        prog = corpus[it] if it < len(corpus) else G.gen_prog(rng)
        envs = [G.gen_env(rng, prog, "good"), G.gen_env(rng, prog, rng.choice(["good", "missing", "all"]))]
        outk = []
        for k in G.all_outs(prog):
            if k not in outk:
                outk.append(k)
        sel_out = subsets(outk, rng, cap)
        sel_in = subsets(G.UNIVERSE, rng, cap)
        both = [(rng.choice(sel_in), rng.choice(sel_out)) for _ in range(6)]
        progs.append((prog, envs, sel_out, sel_in, both))
    reqs = []
    for prog, envs, sel_out, sel_in, both in progs:
        psx = G.prog_sx(prog)
        reqs.append(f"(c14.keys {psx})")
        reqs += [f"(c14.run {psx} {G.keys_sx('env', e)})" for e in envs]
        reqs += [f"(c14.select {psx} none {G.keys_sx('out', s)})" for s in sel_out]
        reqs += [f"(c14.select {psx} {G.keys_sx('in', k)} none)" for k in sel_in]
        reqs += [f"(c14.select {psx} {G.keys_sx('in', k)} {G.keys_sx('out', s)})" for k, s in both]
    answers = iter(ask(drv, reqs))

    for pi, (prog, envs, sel_out, sel_in, both) in enumerate(progs):
        psx = G.prog_sx(prog)
        ssa = G.is_ssa(prog)
        nontriv = any(m["ins"] for m in prog)
        run.count("prog.modules", len(prog))
        run.count("prog.ssa", ssa)
        run.count("prog.overwrites", len([k for k in G.all_outs(prog) if k != G.SINK]) != len({k for k in G.all_outs(prog) if k != G.SINK}))
        container = "dict" if pi % 3 == 0 else "list"
        run.count("prog.container", container)
        with time_limit(90):
            seq = G.build_seq(prog, container)
        # in_keys / out_keys
        m_keys = parse_sx(next(answers))
        impl_keys = [[G.parse_key(parse_sx(G.key_sx(k))) for k in seq.in_keys], [G.parse_key(parse_sx(G.key_sx(k))) for k in seq.out_keys]]
        run.case(("keys", psx), nontrivial=nontriv)
        run.corr("in_out_keys", psx, impl_keys, [[G.parse_key(k) for k in m_keys[0]], [G.parse_key(k) for k in m_keys[1]]])
        # runs
        finals = []
        for e in envs:
            esx = G.keys_sx("env", e)
            run.case(("run", psx, esx), nontrivial=nontriv)
            model = G.model_env(parse_sx(next(answers)))
            td = G.make_input(e)
            before = {k: v for k, v in td.items(True, True)}
            try:
                with time_limit(90):
                    out = seq(td)
                impl = G.td_items(out)
            except TimeoutError:
                raise
            except Exception:  # noqa: BLE001
                out, impl = None, "err"
            run.count("run.outcome", "err" if impl == "err" else "ok")
            run.corr("run", [psx, esx], impl, model)
            ref = G.reference_run(prog, e)
            if (ref is None) != (impl == "err") or (ref is not None and ref != impl):
                run.oracle_fail("sequential_values", [psx, esx], f"sequence result {str(impl)[:200]} != modules applied one after another {str(ref)[:200]}", "values")
            else:
                run.oracle_ok("sequential_values")
            if pi < 2:
                run.sample({"stream": "run", "program": psx, "input": esx, "impl": str(impl)[:300]})
            if out is not None:
                finals.append((e, out))
                # oracle: frame — entries that are not out_keys are the very same objects, nothing else appears
                outs = {k for k in G.all_outs(prog) if k != G.SINK}
                bad = [k for k, v in before.items() if k not in outs and out.get(k, None) is not v]
                extra = [k for k in out.keys(True, True) if k not in before and k not in outs]
                if out is not td or bad or extra:
                    run.oracle_fail("frame", [psx, esx], f"non-out entries changed {bad} / unexpected entries {extra} / returned object is input: {out is td}", "frame")
                else:
                    run.oracle_ok("frame")
        # oracle: the advertised in_keys are sufficient and determine the outputs
        if all(G.SINK not in m["ins"] for m in prog):
            try:
                with time_limit(90):
                    r1 = seq(G.make_input(list(seq.in_keys)))
                    noise = [k for k in G.UNIVERSE if k not in seq.in_keys]
                    td2 = G.make_input(list(seq.in_keys))
                    for k in noise:
                        if rng.random() < 0.5:
                            td2.set(k, torch.tensor(12345 + len(str(k)), dtype=torch.int64))
                    r2 = seq(td2)
                vals1 = {k: int(r1.get(k).item()) for k in seq.out_keys if k != G.SINK}
                vals2 = {k: int(r2.get(k).item()) for k in seq.out_keys if k != G.SINK}
                if vals1 != vals2:
                    run.oracle_fail("in_keys_determine", psx, f"outputs depend on entries outside in_keys: {vals1} vs {vals2}", "determine")
                else:
                    run.oracle_ok("in_keys_determine")
            except TimeoutError:
                raise
            except Exception as ex:  # noqa: BLE001
                run.oracle_fail("in_keys_sufficient", psx, f"sequence fails on an input holding exactly its in_keys {list(seq.in_keys)}: {type(ex).__name__}", "sufficient")
        # selections
        def do_select(ik, ok):
            try:
                with time_limit(90):
                    sub = seq.select_subsequence(in_keys=None if ik is None else list(ik), out_keys=None if ok is None else list(ok))
                if container == "dict":
                    # a ModuleDict-based sequence keeps the names of the retained modules
                    names = list(sub.module.keys())
                    want = [f"layer{i}" for i in G.kept_fids(sub)]
                    if names != want:
                        run.oracle_fail("select_names", [psx, str(ik), str(ok)], f"retained modules {want} are registered as {names}", "select_names")
                    else:
                        run.oracle_ok("select_names")
                return sub, ["ok"] + G.kept_fids(sub)
            except ValueError:
                return None, ["err"]

        for s in sel_out:
            model = parse_sx(next(answers))
            run.case(("sel_out", psx, str(s)), nontrivial=nontriv)
            sub, impl = do_select(None, s)
            run.corr("select_out", [psx, str(s)], impl, model)
            if sub is not None and finals:
                e, full = finals[0]
                try:
                    with time_limit(90):
                        r = sub(G.make_input(e))
                    bad = [k for k in s if k != G.SINK and int(r.get(k).item()) != int(full.get(k).item())]
                except TimeoutError:
                    raise
                except Exception as ex:  # noqa: BLE001
                    bad = [f"raised {type(ex).__name__}"]
                if bad:
                    run.oracle_fail("select_out", [psx, str(s), str(e)], f"subsequence for out_keys {s} differs from the full sequence on {bad}", "select_out")
                else:
                    run.oracle_ok("select_out")
        for kk in sel_in:
            model = parse_sx(next(answers))
            run.case(("sel_in", psx, str(kk)), nontrivial=nontriv)
            sub, impl = do_select(kk, None)
            run.corr("select_in", [psx, str(kk)], impl, model)
            if sub is not None and finals:
                e, full = finals[0]
                # feed the subsequence the values the selected keys have in the full run
                present = [k for k in kk if k in full.keys(True, True)]
                td = TensorDict({}, batch_size=[])
                for k in present:
                    td.set(k, full.get(k))
                try:
                    with time_limit(90):
                        r = sub(td)
                    bad = [k for k in sub.out_keys if k != G.SINK and int(r.get(k).item()) != int(full.get(k).item())]
                except TimeoutError:
                    raise
                except Exception as ex:  # noqa: BLE001
                    bad = [f"raised {type(ex).__name__}"]
                if bad:
                    run.oracle_fail("select_in", [psx, str(kk), str(e)], f"subsequence for in_keys {kk} (modules {impl[1:]}) differs from the full sequence on {bad}",
                                    "select_in:" + ("ssa" if ssa else "non-ssa"))
                else:
                    run.oracle_ok("select_in")
        for kk, s in both:
            model = parse_sx(next(answers))
            run.case(("sel_both", psx, str(kk), str(s)), nontrivial=nontriv)
            sub, impl = do_select(kk, s)
            run.corr("select_both", [psx, str(kk), str(s)], impl, model)

    import c14_more
    c14_more.run_more(run, drv, ask)
    run.finish("proof")


if __name__ == "__main__":
    main_guard(main)
