#!/bin/bash
# mk_workspace.sh <name> : scratch copy of /verif and a git worktree of /repo for one builder
set -e
N="$1"; W=/tmp/b_$N
rm -rf "$W"; mkdir -p "$W"
rsync -a --exclude .git --exclude .build --exclude replays /verif/ "$W/verif/"
git -C /repo worktree prune
git -C /repo branch -D "b_$N" -q 2>/dev/null || true
git -C /repo worktree add -q "$W/repo" -b "b_$N"
cp /repo/tensordict/_C*.so "$W/repo/tensordict/"
echo "$W"
