"""C18: `_check_keys` (tensordict/utils.py) on both branches of its `is_compiling()` test.

Operands are real tensordicts whose key sets are equal / subset / superset / disjoint, in every operand order
and with shuffled insertion orders; both branches are forced by patching `tensordict.utils.is_compiling`.
Streams: check_keys_eager / check_keys_compile (model = Model/CheckKeys.lean); oracle `check_keys`: the two
branches give the same outcome (same KeyError / same key list / same set).
"""
from __future__ import annotations

import itertools
import unittest.mock as mock

import torch

from common import parse_sx


def _enc(k):
    return k if isinstance(k, str) else ".".join(k)


def _canon(out, strict):
    if strict:
        return ["keys"] + [_enc(k) for k in out]
    return ["set"] + sorted(_enc(k) for k in out)


def _canon_model(m):
    if isinstance(m, list) and m and m[0] == "set":
        return ["set"] + sorted(m[1:])
    return m


def check_keys(run):
    import tensordict.utils as U
    from tensordict import TensorDict

    drv = run._drv
    rng = run.rng
    universe = ["a", "b", "c", ("n", "x"), ("n", "y")]
    subsets = [list(c) for r in range(len(universe) + 1) for c in itertools.combinations(universe, r)]

    def mk(keys):
        td = TensorDict({}, batch_size=[2])
        for k in keys:
            td.set(k, torch.zeros(2))
        return td

    cases = []
    for s1 in subsets:
        for s2 in subsets:
            cases.append([s1, s2])
    n3 = 400 if run.tier == "quick" else 6000
    for _ in range(n3):
        base = rng.choice(subsets)
        ops = []
        for _ in range(rng.choice([3, 3, 4])):
            kind = rng.choice(["same", "same", "perm", "sub", "sup", "other"])
            ks = list(base)
            if kind == "sub" and ks:
                ks.remove(rng.choice(ks))
            elif kind == "sup":
                extra = [u for u in universe if u not in ks]
                if extra:
                    ks.append(rng.choice(extra))
            elif kind == "other":
                ks = list(rng.choice(subsets))
            if kind != "same":
                rng.shuffle(ks)
            ops.append(ks)
        cases.append(ops)
    modes = [(True, False, False), (False, False, False), (True, True, True), (False, True, True)]
    for ci, ops in enumerate(cases):
        tds = [mk(ks) for ks in ops]
        for strict, inc, leaves in (modes if ci % 4 == 0 or len(ops) > 2 else modes[:2] if ci % 2 else modes[2:]):
            outs = []
            for comp in (False, True):
                with mock.patch.object(U, "is_compiling", lambda c=comp: c):
                    try:
                        outs.append(_canon(U._check_keys(tds, strict=strict, include_nested=inc, leaves_only=leaves), strict))
                    except KeyError:
                        outs.append("KeyError")
                    except Exception as e:
                        outs.append("err:" + type(e).__name__)
            views = [[_enc(k) for k in td.keys(include_nested=inc, leaves_only=leaves)] for td in tds]
            req = "(c18.check_keys " + ("strict" if strict else "loose") + "".join(" (" + " ".join(v) + ")" for v in views) + ")"
            m = parse_sx(drv.ask(req))
            rel = "equal" if all(set(v) == set(views[0]) for v in views) else (
                "later-extra" if all(set(views[0]) <= set(v) for v in views[1:]) else
                "later-missing" if all(set(v) <= set(views[0]) for v in views[1:]) else "mixed")
            run.case(("check_keys", req))
            run.count("check_keys.relation", rel)
            run.count("check_keys.mode", ("strict" if strict else "loose") + ("+nested" if inc else ""))
            run.count("check_keys.operands", len(ops))
            run.corr("check_keys_eager", req, outs[0], _canon_model(m[0]))
            run.corr("check_keys_compile", req, outs[1], _canon_model(m[1]))
            if outs[0] != outs[1]:
                run.oracle_fail("check_keys", {"request": req, "strict": strict}, f"eager branch={outs[0]} compile branch={outs[1]}", "check_keys:" + rel)
            else:
                run.oracle_ok("check_keys")
    run.sample({"stream": "check_keys", "case": "(c18.check_keys strict (a b) (b a c))", "model": drv.ask("(c18.check_keys strict (a b) (b a c))")})
