"""C18: `_check_keys` (tensordict/utils.py) on both branches of its `is_compiling()` test.

Operands are real tensordicts whose key sets are equal / subset / superset / disjoint, in every operand order
and with shuffled insertion orders; both branches are forced by patching `tensordict.utils.is_compiling`.
Streams: check_keys_eager / check_keys_compile (model = Model/CheckKeys.lean); oracle `check_keys`: the two
branches give the same outcome (same KeyError / same key list / same set).
"""
from __future__ import annotations

import itertools
import unittest.mock as mock

import torch

from common import parse_sx


def _enc(k):
    return k if isinstance(k, str) else ".".join(k)


def _canon(out, strict):
    if strict:
        return ["keys"] + [_enc(k) for k in out]
    return ["set"] + sorted(_enc(k) for k in out)


def _canon_model(m):
    if isinstance(m, list) and m and m[0] == "set":
        return ["set"] + sorted(m[1:])
    return m


def check_keys(run):
    import tensordict.utils as U
    from tensordict import TensorDict

    drv = run._drv
    rng = run.rng
    universe = ["a", "b", "c", ("n", "x"), ("n", "y")]
    subsets = [list(c) for r in range(len(universe) + 1) for c in itertools.combinations(universe, r)]

    def mk(keys):
        td = TensorDict({}, batch_size=[2])
        for k in keys:
            td.set(k, torch.zeros(2))
        return td

    cases = []
    for s1 in subsets:
        for s2 in subsets:
            cases.append([s1, s2])
    n3 = 400 if run.tier == "quick" else 6000
    for _ in range(n3):
        base = rng.choice(subsets)
        ops = []
        for _ in range(rng.choice([3, 3, 4])):
            kind = rng.choice(["same", "same", "perm", "sub", "sup", "other"])
            ks = list(base)
            if kind == "sub" and ks:
                ks.remove(rng.choice(ks))
            elif kind == "sup":
                extra = [u for u in universe if u not in ks]
                if extra:
                    ks.append(rng.choice(extra))
            elif kind == "other":
                ks = list(rng.choice(subsets))
            if kind != "same":
                rng.shuffle(ks)
            ops.append(ks)
        cases.append(ops)
    modes = [(True, False, False), (False, False, False), (True, True, True), (False, True, True)]
    # one tensordict per distinct (ordered) key list; both branches patched once around the whole sweep
    made = {}

    def mk_cached(ks):
        key = tuple(_enc(k) for k in ks)
        if key not in made:
            made[key] = mk(ks)
        return made[key]

    pending = []
    for ci, ops in enumerate(cases):
        tds = [mk_cached(ks) for ks in ops]
        for strict, inc, leaves in (modes if ci % 4 == 0 or len(ops) > 2 else modes[:2] if ci % 2 else modes[2:]):
            views = [[_enc(k) for k in td.keys(include_nested=inc, leaves_only=leaves)] for td in tds]
            req = "(c18.check_keys " + ("strict" if strict else "loose") + "".join(" (" + " ".join(v) + ")" for v in views) + ")"
            pending.append((tds, strict, inc, leaves, views, req, len(ops)))
    results = {False: [], True: []}
    for comp in (False, True):
        with mock.patch.object(U, "is_compiling", lambda c=comp: c):
            for tds, strict, inc, leaves, views, req, nops in pending:
                try:
                    results[comp].append(_canon(U._check_keys(tds, strict=strict, include_nested=inc, leaves_only=leaves), strict))
                except KeyError:
                    results[comp].append("KeyError")
                except Exception as e:
                    results[comp].append("err:" + type(e).__name__)
    answers = drv.ask_many([p[5] for p in pending])
    for i, (tds, strict, inc, leaves, views, req, nops) in enumerate(pending):
        outs = [results[False][i], results[True][i]]
        m = parse_sx(answers[i])
        rel = "equal" if all(set(v) == set(views[0]) for v in views) else (
            "later-extra" if all(set(views[0]) <= set(v) for v in views[1:]) else
            "later-missing" if all(set(v) <= set(views[0]) for v in views[1:]) else "mixed")
        run.case(("check_keys", req))
        run.count("check_keys.relation", rel)
        run.count("check_keys.mode", ("strict" if strict else "loose") + ("+nested" if inc else ""))
        run.count("check_keys.operands", nops)
        run.corr("check_keys_eager", req, outs[0], _canon_model(m[0]))
        run.corr("check_keys_compile", req, outs[1], _canon_model(m[1]))
        if outs[0] != outs[1]:
            run.oracle_fail("check_keys", {"request": req, "strict": strict}, f"eager branch={outs[0]} compile branch={outs[1]}", "check_keys:" + rel)
        else:
            run.oracle_ok("check_keys")
    run.sample({"stream": "check_keys", "case": "(c18.check_keys strict (a b) (b a c))", "model": drv.ask("(c18.check_keys strict (a b) (b a c))")})


def seq_keys(run):
    """`TensorDictSequential.forward` (selected out keys): the list handed to `tensordict.update(keys_to_update=…)`
    on both branches (forced by patching `is_compiling` in tensordict.nn.sequence), recorded through a
    TensorDict subclass; model = CheckKeys.seqKeysEager / seqKeysCompile; oracle: same final tensordict."""
    import tensordict.nn.sequence as S
    from tensordict import TensorDict
    from tensordict.nn import TensorDictModule, TensorDictSequential

    drv = run._drv
    rng = run.rng
    rec = []

    class RecTD(TensorDict):
        _is_input = False

        def update(self, other, **kw):
            if self.__dict__.get("_rec_input") and kw.get("keys_to_update") is not None:
                rec.append([_enc(k) for k in kw["keys_to_update"]])
            return super().update(other, **kw)

    pool = ["a", "b", ("n", "x"), ("n", "y"), "c"]
    n = 40 if run.tier == "quick" else 600
    for _ in range(n):
        in_keys = rng.sample(pool, rng.randint(1, 4))
        mods = []
        outs = []
        for j in range(rng.randint(1, 3)):
            ik = rng.choice(in_keys + outs)
            ok = rng.choice([f"o{j}", ("n", f"o{j}"), rng.choice(in_keys)])
            mods.append(TensorDictModule(lambda x: x + 1, in_keys=[ik], out_keys=[ok]))
            outs.append(ok)
        sel = rng.sample(outs, rng.randint(1, len(outs)))
        seq = TensorDictSequential(*mods, selected_out_keys=sel)
        results = []
        recs = []
        for comp in (False, True):
            td = RecTD({}, batch_size=[2])
            for k in in_keys:
                td.set(k, torch.zeros(2))
            td.__dict__["_rec_input"] = True
            rec.clear()
            with mock.patch.object(S, "is_compiling", lambda c=comp: c):
                try:
                    out = seq(td)
                    results.append(sorted((_enc(k), v.tolist()) for k, v in out.items(True, True)))
                except Exception as e:
                    results.append("err:" + type(e).__name__)
            recs.append(sorted(rec[-1]) if rec else None)
        out_keys = [_enc(k) for k in seq.out_keys]
        td_keys = [_enc(k) for k in in_keys]
        # the leaves of the input, in its own order
        m = parse_sx(drv.ask("(c18.seq_keys (" + " ".join(out_keys) + ") (" + " ".join(td_keys) + "))"))
        run.case(("seq_keys", tuple(out_keys), tuple(td_keys)))
        run.count("seq_keys.recorded", recs[0] is not None)
        if recs[0] is not None and recs[1] is not None:
            run.corr("seq_keys_eager", [out_keys, td_keys], recs[0], sorted(m[0]))
            run.corr("seq_keys_compile", [out_keys, td_keys], recs[1], sorted(m[1]))
        if results[0] != results[1]:
            run.oracle_fail("seq_forward", {"in": td_keys, "out": out_keys}, f"eager branch={results[0]} compile branch={results[1]}", "seq_forward")
        else:
            run.oracle_ok("seq_forward")


def prob_seq_keys(run):
    """the same key union in `ProbabilisticTensorDictSequential.forward` (tensordict/nn/probabilistic.py), both branches
    forced by patching `is_compiling` there; deterministic interaction type (the mean), recording subclass as above."""
    import tensordict.nn.probabilistic as Pm
    from tensordict import TensorDict
    from tensordict.nn import InteractionType, ProbabilisticTensorDictModule, ProbabilisticTensorDictSequential, TensorDictModule
    from torch.distributions import Normal

    drv = run._drv
    rng = run.rng
    rec = []

    class RecTD(TensorDict):
        def update(self, other, **kw):
            if self.__dict__.get("_rec_input") and kw.get("keys_to_update") is not None:
                rec.append([_enc(k) for k in kw["keys_to_update"]])
            return super().update(other, **kw)

    n = 12 if run.tier == "quick" else 150
    extras_pool = ["other", ("n", "x"), "z"]
    for _ in range(n):
        extras = rng.sample(extras_pool, rng.randint(0, 3))
        overwrite_loc = rng.random() < 0.6
        mods = []
        if overwrite_loc:
            mods.append(TensorDictModule(lambda x: x + 1, in_keys=["loc"], out_keys=["loc"]))
        if extras and rng.random() < 0.5:
            mods.append(TensorDictModule(lambda x: x + 5, in_keys=[extras[0]], out_keys=[extras[0]]))
        prob = ProbabilisticTensorDictModule(in_keys=["loc", "scale"], out_keys=["sample"], distribution_class=Normal,
                                             default_interaction_type=InteractionType.DETERMINISTIC)
        seq = ProbabilisticTensorDictSequential(*mods, prob)
        seq.select_out_keys("sample")
        results, recs = [], []
        in_keys = ["loc", "scale"] + extras
        for comp in (False, True):
            td = RecTD({}, batch_size=[2])
            for k in in_keys:
                td.set(k, torch.ones(2) if k == "scale" else torch.zeros(2))
            td.__dict__["_rec_input"] = True
            rec.clear()
            with mock.patch.object(Pm, "is_compiling", lambda c=comp: c):
                try:
                    out = seq(td)
                    results.append(sorted((_enc(k), v.tolist()) for k, v in out.items(True, True)))
                except Exception as e:
                    results.append("err:" + type(e).__name__)
            recs.append(sorted(rec[-1]) if rec else None)
        out_keys = [_enc(k) for k in seq.out_keys]
        td_keys = [_enc(k) for k in in_keys]
        m = parse_sx(drv.ask("(c18.seq_keys (" + " ".join(out_keys) + ") (" + " ".join(td_keys) + "))"))
        run.case(("prob_seq_keys", tuple(td_keys), overwrite_loc, len(mods)))
        run.count("prob_seq_keys.recorded", recs[0] is not None and recs[1] is not None)
        if recs[0] is not None and recs[1] is not None:
            run.corr("prob_seq_keys_eager", [out_keys, td_keys], recs[0], sorted(m[0]))
            run.corr("prob_seq_keys_compile", [out_keys, td_keys], recs[1], sorted(m[1]))
        if results[0] != results[1]:
            run.oracle_fail("prob_seq_forward", {"in": td_keys, "out": out_keys}, f"eager branch={results[0]} compile branch={results[1]}", "prob_seq_forward")
        else:
            run.oracle_ok("prob_seq_forward")
