"""C09 — arithmetic, comparisons and reductions act entry by entry, matched by key (DESIGN §6 C09)."""
from __future__ import annotations

import itertools

import torch

import c09_lib as L
from common import Infra, Run, err_class, main_guard, parse_sx, sx, time_limit


def main():
    run = Run("C09")
    run.rule = ("pairing streams: every fused (_foreach) arithmetic method found by ast in TensorDictBase, its in-place form and the arithmetic / "
                "comparison / logical operators, on operands whose leaves are inserted in independently shuffled insertion+nesting order "
                "(same keys / missing / extra / both), default in {None, 'intersection', tensor}, scalar / 0-d / batch-shaped / broadcastable tensor "
                "operands, locked or not; reductions: every front-end x batch shapes x dim spellings (int, negative, tuple, None, absent, 'feature', "
                "out of range) x keepdim x names; a case is non-trivial when the operand tensordict has >=2 leaves in an order different from self's "
                "or the tensor operand has ndim>0 or a dim is given")
    run.trusted += [
        "torch itself computes every leaf value on both sides (the model only says WHICH entries / operands / dims are handed to torch); "
        "model terms are evaluated with the same torch.Tensor method on the entries the model pairs",
        "Model/C09KV.lean, Model/C09Shape.lean: hand transcription of _items_list/_values_list, the fused binary/ternary/unary methods, the comparison "
        "operators, expand_as_right/_maybe_broadcast_other and _cast_reduction (validated each run by the streams below)",
        "the spec side of Model/C09Shape.lean (Tensor.expand coordinate map, shape of a torch reduction) is our rendering of torch, validated each run "
        "against torch on the enumerated shape grid",
    ]
    run.assumptions += [
        "keys of a tensordict are unique (theorems carry Nodup of the key lists)",
        "comparison operators are modelled on operands without empty sub-tensordicts and without a leaf facing a node under one key",
        "tensorclasses / sub-tensordicts / params / all / any / logsumexp / std / var values are checked by the per-key torch oracle only (extended domain); lazy stacks, clamp, where and reduce=True are modelled",
    ]
    torch.set_num_threads(2)
    run.build_and_audit(["TdVerif.Props.C09"])
    import c09_shape
    c09_shape.source_shape(run)
    if run.tier == "thorough":
        run.leanchecker(["TdVerif.Props.C09"])
    drv = run.driver()

    import c09_streams as S
    ctx = S.Ctx(run, drv)
    S.stream_expand_as_right(ctx)
    S.stream_binary(ctx)
    S.stream_ternary(ctx)
    S.stream_clamp_where(ctx)
    S.stream_compare(ctx)
    S.stream_unary(ctx)
    S.stream_reductions(ctx)
    S.stream_reduce_true(ctx)
    S.stream_reduce_all(ctx)
    S.stream_lazy_binary(ctx)
    S.stream_binary_containers(ctx)
    S.stream_lazy_compare(ctx)
    S.stream_nested_lazy(ctx)
    S.extended_oracle(ctx)
    S.container_matrix(ctx)
    run.finish("proof")


if __name__ == "__main__":
    main_guard(main)
