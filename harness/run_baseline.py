"""Run the repository's pinned suite (guard off) on a tree and compare with /root/.vp/BASELINE.json.
usage: run_baseline.py [tree=/repo] [tag]   -> prints stable-pass tests that no longer pass"""
import json, os, subprocess, sys, xml.etree.ElementTree as ET
from pathlib import Path

tree = sys.argv[1] if len(sys.argv) > 1 else "/repo"
tag = sys.argv[2] if len(sys.argv) > 2 else "run"
out = Path("/verif/.build"); out.mkdir(exist_ok=True)
xml = out / f"baseline_{tag}.xml"
env = dict(os.environ); env.pop("TENSORDICT_VERIF", None)
env["PYTHONPATH"] = tree
p = subprocess.run(["/venv/bin/python", "-m", "pytest", "-ra", "-q", "-p", "no:cacheprovider", "--timeout=900",
                    "--continue-on-collection-errors", f"--junitxml={xml}"], cwd=tree, env=env, capture_output=True, text=True)
(out / f"baseline_{tag}.log").write_text(p.stdout[-200000:] + p.stderr[-20000:])
base = json.load(open("/root/.vp/BASELINE.json"))
passed = set()
for tc in ET.parse(xml).getroot().iter("testcase"):
    if not any(ch.tag in ("failure", "error", "skipped") for ch in tc):
        passed.add(f"{tc.get('classname')}::{tc.get('name')}")
missing = [t for t in base["stable_pass"] if t not in passed]
print(f"tree={tree} passed={len(passed)} stable_pass={len(base['stable_pass'])} missing={len(missing)}")
for t in missing[:60]:
    print("  MISSING", t)
