#!/bin/bash
# pick_fixes.sh <branch>: cherry-pick onto /repo main, in branch order, every commit of <branch> not yet applied (by patch-id).
# If the builder's frozen snapshot records the head it was validated with (/tmp/<branch>/snap/SNAP_HEAD), only commits up to it are picked.
cd /repo
B="$1"; TIP="$B"
SH="/tmp/$B/snap/SNAP_HEAD"
if [ -f "$SH" ] && git rev-parse -q --verify "$(cat $SH)^{commit}" >/dev/null; then TIP="$(cat $SH)"; fi
NEW=$(git cherry main "$TIP" | grep '^+' | cut -d' ' -f2)
for c in $(git rev-list --reverse --topo-order main.."$TIP"); do
  echo "$NEW" | grep -q "$c" || continue
  if git cherry-pick "$c" >/dev/null 2>&1; then echo "picked $(git log -1 --format='%h %s' "$c" | cut -c1-110)"; else echo "CONFLICT-SKIPPED $(git log -1 --format="%h %s" "$c" | cut -c1-120)"; git cherry-pick --abort; fi
done
