#!/bin/bash
# pick_fixes.sh <branch>: cherry-pick onto /repo main, in branch order, every commit of <branch> not yet applied (by patch-id)
cd /repo
NEW=$(git cherry main "$1" | grep '^+' | cut -d' ' -f2)
for c in $(git rev-list --reverse --topo-order main.."$1"); do
  echo "$NEW" | grep -q "$c" || continue
  if git cherry-pick "$c" >/dev/null 2>&1; then echo "picked $(git log -1 --format='%h %s' "$c" | cut -c1-110)"; else echo "CONFLICT-SKIPPED $(git log -1 --format="%h %s" "$c" | cut -c1-120)"; git cherry-pick --abort; fi
done
