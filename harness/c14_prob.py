"""C14 probabilistic modules.

(1) correspondence of the decision logic `_dist_sample` with Model/C14Prob.lean on stub distributions covering every
    combination of capabilities; (2) differential oracle on real distributions: for every InteractionType the sample equals
    the statistic of a distribution built independently from the same parameters (RANDOM: same seed), the log-probability
    equals `dist.log_prob(sample)`, other entries are untouched, num_samples expands the batch.
"""
from __future__ import annotations

import itertools
import warnings

import torch
import torch.distributions as D

from common import time_limit

TAG = {"det_sample": 1.0, "mode": 2.0, "median": 3.0, "mean": 4.0, "rsample": 7.0, "sample": 8.0}


def make_stub(ds, sup, mo, me, mn, rs):
    class Stub(D.Distribution):
        arg_constraints = {}
        has_rsample = rs

        def __init__(self):
            super().__init__(validate_args=False)

        @property
        def support(self):
            if sup == "not_impl":
                raise NotImplementedError
            return D.constraints.real if sup == "real" else D.constraints.positive

        @property
        def mode(self):
            if not mo:
                raise AttributeError("mode")
            return torch.tensor(TAG["mode"])

        @property
        def median(self):
            if not me:
                raise AttributeError("median")
            return torch.tensor(TAG["median"])

        def rsample(self, shape=torch.Size()):
            return torch.full(tuple(shape), TAG["rsample"])

        def sample(self, shape=torch.Size()):
            return torch.full(tuple(shape), TAG["sample"])

    if ds:
        Stub.deterministic_sample = property(lambda self: torch.tensor(TAG["det_sample"]))
    if mn == "ok":
        Stub.mean = property(lambda self: torch.tensor(TAG["mean"]))
    elif mn == "not_impl":
        def _m(self):
            raise NotImplementedError
        Stub.mean = property(_m)
    else:
        # D.Distribution defines `mean` (raising NotImplementedError); make the attribute really absent
        def _absent(self):
            raise AttributeError("mean")
        Stub.mean = property(_absent)
    return Stub


def classify(t, n_emp):
    if t.ndim == 0:
        v = float(t)
        for k, tv in TAG.items():
            if v == tv:
                # an empirical mean of constant draws has the draw's tag: distinguished by the call log instead
                return k
    return "other"


def decision_stream(run, drv, ask):
    import tensordict.nn.probabilistic as P
    from tensordict.nn import ProbabilisticTensorDictModule
    from tensordict.nn.probabilistic import InteractionType
    mod = ProbabilisticTensorDictModule(in_keys=["loc"], out_keys=["x"], distribution_class=D.Normal)
    its = ["mode", "median", "mean", "random", "deterministic"]
    regs = ["none", "mode", "mean", "deterministic", "median"]
    combos = list(itertools.product(its, [True, False], regs, ["real", "other", "not_impl"], [True, False], [True, False],
                                    ["absent", "not_impl", "ok"], [True, False]))
    if run.tier == "quick":
        combos = run.rng.sample(combos, 700)
    reqs = [f"(c14.dist_sample {it} {str(ds).lower()} {reg} {sup} {str(mo).lower()} {str(me).lower()} {mn} {str(rs).lower()})"
            for it, ds, reg, sup, mo, me, mn, rs in combos]
    answers = ask(drv, reqs)
    for (it, ds, reg, sup, mo, me, mn, rs), model in zip(combos, answers):
        run.case(("dist_sample", it, ds, reg, sup, mo, me, mn, rs))
        Stub = make_stub(ds, sup, mo, me, mn, rs)
        calls = []
        orig_r, orig_s = Stub.rsample, Stub.sample

        def rsample(self, shape=torch.Size(), _o=orig_r):
            calls.append(("rsample", tuple(shape)))
            return _o(self, shape)

        def sample(self, shape=torch.Size(), _o=orig_s):
            calls.append(("sample", tuple(shape)))
            return _o(self, shape)
        Stub.rsample, Stub.sample = rsample, sample
        if reg != "none":
            P.DETERMINISTIC_REGISTER[Stub] = InteractionType(reg)
        try:
            with warnings.catch_warnings():
                warnings.simplefilter("ignore")
                with time_limit(60):
                    out = mod._dist_sample(Stub(), interaction_type=InteractionType(it))
            kind = classify(out, mod.n_empirical_estimate)
            if calls and calls[0][1] == (mod.n_empirical_estimate,):
                kind = "emp_mean_" + calls[0][0]
            elif calls:
                kind = calls[0][0]
        except NotImplementedError:
            kind = "not_impl"
        except TimeoutError:
            raise
        except Exception as e:  # noqa: BLE001
            kind = "raised:" + type(e).__name__
        finally:
            P.DETERMINISTIC_REGISTER.pop(Stub, None)
        run.count("dist_sample.pick", kind)
        run.corr("dist_sample", [it, ds, reg, sup, mo, me, mn, rs], kind, model)


def real_oracle(run):
    from tensordict import TensorDict
    from tensordict.nn import ProbabilisticTensorDictModule, TensorDictModule, ProbabilisticTensorDictSequential, set_interaction_type
    from tensordict.nn.probabilistic import InteractionType
    from tensordict.nn.distributions import Delta

    def indep_normal(loc, scale):
        return D.Independent(D.Normal(loc, scale), 1)
    dists = {
        "Normal": (D.Normal, ["loc", "scale"]),
        "IndepNormal": (indep_normal, ["loc", "scale"]),
        "Delta": (Delta, ["param"]),
        "Categorical": (lambda logits: D.Categorical(logits=logits), ["logits"]),
    }
    for (dname, (cls, keys)), it, rlp, ns in itertools.product(dists.items(), list(InteractionType), [False, True], [None, 3]):
        case = [dname, str(it), rlp, ns]
        run.case(("prob", dname, str(it), rlp, ns))
        torch.manual_seed(11)
        params = {"loc": torch.randn(4, 3), "scale": torch.rand(4, 3) + 0.5, "param": torch.randn(4, 3), "logits": torch.randn(4, 3)}
        td = TensorDict({k: params[k] for k in keys}, batch_size=[4])
        td["other"] = torch.arange(4.0)
        before = {k: v for k, v in td.items()}
        try:
            mod = ProbabilisticTensorDictModule(in_keys=keys, out_keys=["x"], distribution_class=cls, return_log_prob=rlp, num_samples=ns)
        except TypeError:
            try:
                mod = ProbabilisticTensorDictModule(in_keys=keys, out_keys=["x"], distribution_class=cls, return_log_prob=rlp)
                if ns is not None:
                    continue
            except Exception:  # noqa: BLE001
                continue
        ref = cls(**{k: params[k] for k in keys})
        try:
            with warnings.catch_warnings():
                warnings.simplefilter("ignore")
                with time_limit(90), set_interaction_type(it):
                    torch.manual_seed(5)
                    out = mod(td)
        except TimeoutError:
            raise
        except Exception as e:  # noqa: BLE001  (statistic not available for this distribution: e.g. Categorical.median)
            run.count("prob.unavailable", f"{dname}/{it}:{type(e).__name__}")
            continue
        x = out["x"]
        # reference statistic from an independently built distribution
        torch.manual_seed(5)
        try:
            if it == InteractionType.RANDOM:
                shape = torch.Size(()) if ns is None else torch.Size((ns,)) if isinstance(ns, int) else ns
                want = ref.rsample(shape) if ref.has_rsample else ref.sample(shape)
            elif it == InteractionType.MODE:
                want = ref.mode
            elif it == InteractionType.MEAN:
                want = ref.mean
            elif it == InteractionType.MEDIAN:
                want = ref.median
            else:
                want = ref.deterministic_sample if hasattr(ref, "deterministic_sample") else (ref.mode if dname == "Categorical" else ref.mean)
        except Exception:  # noqa: BLE001
            run.count("prob.no_reference", f"{dname}/{it}")
            continue
        if ns is not None and it != InteractionType.RANDOM:
            want = want.expand((ns,) + tuple(want.shape)) if x.shape != want.shape else want
        bad = []
        if x.shape != want.shape or not torch.allclose(x.float(), want.float(), equal_nan=True):
            bad.append("sample != statistic of the distribution built from the same parameters")
        if rlp:
            lp = out[mod.log_prob_key]
            try:
                want_lp = ref.log_prob(x)
                if lp.shape != want_lp.shape or not torch.allclose(lp, want_lp, equal_nan=True):
                    bad.append("log-prob != dist.log_prob(sample)")
            except Exception:  # noqa: BLE001
                pass
        lost = [k for k, v in before.items() if td.get(k) is not v]
        if lost and ns is None:
            bad.append(f"input entries replaced: {lost}")
        if bad:
            run.oracle_fail("probabilistic", case, "; ".join(bad), "prob:" + dname + ":" + str(it))
        else:
            run.oracle_ok("probabilistic")


def seq_oracle(run, drv=None):
    """ProbabilisticTensorDictSequential: deterministic part + probabilistic head. get_dist / log_prob / forward agree with
    a distribution built by hand from the parameters the deterministic part computes; other entries untouched."""
    from tensordict import TensorDict
    from tensordict.nn import (ProbabilisticTensorDictModule, ProbabilisticTensorDictSequential, TensorDictModule,
                               set_interaction_type, CompositeDistribution)
    from tensordict.nn.probabilistic import InteractionType

    def params_fn(x):
        return x * 2 + 1, x.abs() + 0.5
    for it, rlp, inplace in itertools.product(list(InteractionType), [False, True], [None, True, False]):
        case = ["prob_seq", str(it), rlp, inplace]
        run.case(("prob_seq", str(it), rlp, str(inplace)))
        torch.manual_seed(3)
        x = torch.randn(4, 3)
        td = TensorDict({"x": x, "other": torch.arange(4.0)}, batch_size=[4])
        before = {k: v for k, v in td.items()}
        kw = {} if inplace is None else {"inplace": inplace}
        try:
            seq = ProbabilisticTensorDictSequential(
                TensorDictModule(params_fn, in_keys=["x"], out_keys=["loc", "scale"]),
                ProbabilisticTensorDictModule(in_keys=["loc", "scale"], out_keys=["a"], distribution_class=D.Normal, return_log_prob=rlp),
                **kw)
        except TypeError:
            continue
        loc, scale = params_fn(x)
        ref = D.Normal(loc, scale)
        bad = []
        try:
            with warnings.catch_warnings():
                warnings.simplefilter("ignore")
                with time_limit(90), set_interaction_type(it):
                    torch.manual_seed(9)
                    out = seq(td.copy() if inplace is None else td)
                    dist = seq.get_dist(td.select("x", "other").copy())
        except TimeoutError:
            raise
        except Exception as e:  # noqa: BLE001
            run.count("prob.unavailable", f"seq/{it}:{type(e).__name__}")
            continue
        if not (torch.equal(dist.loc, loc) and torch.equal(dist.scale, scale)):
            bad.append("get_dist is not the distribution of the parameters the deterministic part computes")
        torch.manual_seed(9)
        try:
            want = {InteractionType.RANDOM: lambda: ref.rsample(), InteractionType.MODE: lambda: ref.mode, InteractionType.MEAN: lambda: ref.mean,
                    InteractionType.MEDIAN: lambda: ref.icdf(torch.tensor(0.5)), InteractionType.DETERMINISTIC: lambda: ref.mean}[it]()
        except Exception:  # noqa: BLE001
            want = None
        a = out.get("a", None)
        if a is None:
            bad.append("sample key missing from the output")
        elif want is not None and not torch.allclose(a, want):
            bad.append("sample != statistic of the reference distribution")
        if rlp and a is not None:
            lpk = seq.log_prob_key if hasattr(seq, "log_prob_key") else "sample_log_prob"
            lp = out.get(lpk, None)
            if lp is None or not torch.allclose(lp, ref.log_prob(a)):
                bad.append("log-prob entry != dist.log_prob(sample)")
        if a is not None:
            # log_prob() of the sequence on a tensordict holding the sample
            try:
                with warnings.catch_warnings():
                    warnings.simplefilter("ignore")
                    probe = TensorDict({"x": x, "a": a.detach()}, batch_size=[4])
                    lp2 = seq.log_prob(probe)
                lp2 = lp2 if isinstance(lp2, torch.Tensor) else lp2.get(seq.log_prob_key)
                if not torch.allclose(lp2, ref.log_prob(a.detach())):
                    bad.append("seq.log_prob(td) != dist.log_prob(td[sample])")
            except Exception as e:  # noqa: BLE001
                run.count("prob.unavailable", f"seq.log_prob/{it}:{type(e).__name__}")
        if inplace in (None, True):
            src = td if inplace is True else None
            if src is not None:
                lost = [k for k, v in before.items() if src.get(k) is not v]
                if lost:
                    bad.append(f"input entries replaced: {lost}")
        if bad:
            run.oracle_fail("probabilistic", case, "; ".join(bad), "prob_seq:" + str(it))
        else:
            run.oracle_ok("probabilistic")

    composite_oracle(run, drv)


def composite_oracle(run, drv=None):
    """CompositeDistribution heads (a Normal and an Independent(Normal)): for composite_lp_aggregate on/off x num_samples None/k x every
    interaction type, the log-probabilities the module writes equal (shape and value) both `module.get_dist(params).log_prob(sample)`
    and the plain torch distributions built from the same parameters; samples have the advertised shape and the named statistic."""
    from tensordict import TensorDict
    from tensordict.nn import (CompositeDistribution, ProbabilisticTensorDictModule, set_composite_lp_aggregate, set_interaction_type)
    from tensordict.nn.probabilistic import InteractionType

    def indep_normal(loc, scale):
        return D.Independent(D.Normal(loc, scale), 1)
    from common import parse_sx
    for second, agg, ns, it in itertools.product(["indep_normal", "categorical", "normal_feature"], [True, False], [None, 4], list(InteractionType)):
        case = ["composite", second, "aggregate" if agg else "per-key", ns, str(it)]
        run.case(("composite", second, agg, ns, str(it)))
        torch.manual_seed(4)
        td = TensorDict({"params": {"x": {"loc": torch.randn(3), "scale": torch.rand(3) + 0.5},
                                    "y": ({"loc": torch.randn(3, 2), "scale": torch.rand(3, 2) + 0.5} if second != "categorical"
                                          else {"logits": torch.randn(3, 5)})},
                         "other": torch.arange(3.0)}, [3])
        p = td["params"]
        ydist = {"indep_normal": indep_normal, "categorical": D.Categorical, "normal_feature": D.Normal}[second]
        yshape = (3,) if second == "categorical" else (3, 2)
        yextra = [2] if second == "normal_feature" else []      # feature dims the head's log_prob does not reduce itself
        bad = []
        try:
            with warnings.catch_warnings():
                warnings.simplefilter("ignore")
                with time_limit(60), set_composite_lp_aggregate(agg):
                    mod = ProbabilisticTensorDictModule(
                        in_keys=["params"], out_keys=["x", "y"], distribution_class=CompositeDistribution,
                        distribution_kwargs={"distribution_map": {"x": D.Normal, "y": ydist}},
                        return_log_prob=True, num_samples=ns, default_interaction_type=it)
                    with set_interaction_type(it):
                        out = mod(td.clone())
                        dist = mod.get_dist(td.clone())
                        lp_dist = dist.log_prob(out.select("x", "y"))
        except TimeoutError:
            raise
        except Exception as e:  # noqa: BLE001  (statistic unavailable, or num_samples with a non-random type)
            run.count("prob.unavailable", f"composite/{second}/{'agg' if agg else 'perkey'}/{ns}/{it}:{type(e).__name__}")
            continue
        lead = () if ns is None or it != InteractionType.RANDOM else (ns,)
        if ns is not None and it == InteractionType.RANDOM:
            lead = (ns,)
        if tuple(out["x"].shape) != (*lead, 3) or tuple(out["y"].shape) != (*lead, *yshape):
            bad.append(f"sample shapes {tuple(out['x'].shape)}, {tuple(out['y'].shape)}")
        else:
            lx = D.Normal(p["x", "loc"], p["x", "scale"]).log_prob(out["x"])
            if second != "categorical":
                ly_full = D.Normal(p["y", "loc"], p["y", "scale"]).log_prob(out["y"])
                ly = ly_full.sum(-1)
                ymode = p["y", "loc"]
            else:
                ly = D.Categorical(logits=p["y", "logits"]).log_prob(out["y"])
                ymode = p["y", "logits"].argmax(-1)
            if it == InteractionType.MODE and not (torch.allclose(out["x"], p["x", "loc"]) and torch.equal(out["y"].to(ymode.dtype), ymode)):
                bad.append("mode is not the mode of the heads")
            if it == InteractionType.MEAN and second != "categorical" and not (torch.allclose(out["x"], p["x", "loc"]) and torch.allclose(out["y"], ymode)):
                bad.append("mean is not the mean of the heads")
            if agg:
                want = lx + ly
                got = out.get(mod.log_prob_key, None)
                if got is None or got.shape != want.shape or not torch.allclose(got, want):
                    bad.append(f"aggregated log-prob written by the module: shape {None if got is None else tuple(got.shape)} vs {tuple(want.shape)} / values")
                if not isinstance(lp_dist, torch.Tensor) or lp_dist.shape != want.shape or not torch.allclose(lp_dist, want):
                    bad.append(f"get_dist(params).log_prob(sample): shape {tuple(lp_dist.shape) if isinstance(lp_dist, torch.Tensor) else type(lp_dist).__name__} "
                               f"vs the module's {tuple(want.shape)} / values")
            else:
                for name, want in (("x", lx), ("y", ly_full if second == "normal_feature" else ly)):
                    keys = [k for k in out.keys(True, True) if "log_prob" in str(k) and name in str(k)]
                    if not keys:
                        bad.append(f"no log-prob entry for head {name}")
                        continue
                    got = out.get(keys[0])
                    if got.shape != want.shape or not torch.allclose(got, want):
                        bad.append(f"log-prob of head {name} written by the module: shape {tuple(got.shape)} vs {tuple(want.shape)} / values")
                    dgot = lp_dist.get(keys[0], None) if not isinstance(lp_dist, torch.Tensor) else None
                    if dgot is None or dgot.shape != want.shape or not torch.allclose(dgot, want):
                        bad.append(f"get_dist(params).log_prob(sample)[{keys[0]}] differs from the module's entry")
        if drv is not None and not bad:
            sb = list(out.batch_size)
            ans = parse_sx(drv.ask(f"(c14.lp_shape ({' '.join(map(str, sb))}) (() ({' '.join(map(str, yextra))})))"))
            if agg:
                impl_shapes = [list(lp_dist.shape), list(out.get(mod.log_prob_key).shape)]
                model_shapes = [ans[0] if isinstance(ans[0], list) else [], ans[1] if isinstance(ans[1], list) else []]
            else:
                kx = [k for k in out.keys(True, True) if "log_prob" in str(k) and "x" in str(k)][0]
                ky = [k for k in out.keys(True, True) if "log_prob" in str(k) and "y" in str(k)][0]
                impl_shapes = [list(out.get(kx).shape), list(out.get(ky).shape)]
                model_shapes = [list(x) if isinstance(x, list) else [] for x in ans[2]]
            run.corr("log_prob_shapes", case, impl_shapes, model_shapes)
        if not torch.equal(out["other"] if ns is None or it != InteractionType.RANDOM else out["other"][0], td["other"]):
            bad.append("an unrelated entry changed")
        if bad:
            run.oracle_fail("probabilistic", case, "; ".join(bad), f"composite:{second}:{'agg' if agg else 'perkey'}:{ns}:{it}")
        else:
            run.oracle_ok("probabilistic")
            run.count("prob.composite_ok", f"{second}/{'agg' if agg else 'perkey'}/{ns}/{it}")


def context_oracle(run):
    """set_interaction_type / set_skip_existing restore the previous mode, nested and on exceptions"""
    from tensordict.nn import set_interaction_type, set_skip_existing, skip_existing
    from tensordict.nn.probabilistic import InteractionType, interaction_type
    rng = run.rng
    for _ in range(40):
        depth = rng.randint(1, 4)
        modes = [rng.choice(list(InteractionType)) for _ in range(depth)]
        skips = [rng.choice([True, False]) for _ in range(depth)]
        raise_at = rng.choice([None] + list(range(depth)))
        base_it, base_sk = interaction_type(), skip_existing()
        seen = []

        def nest(i):
            if i == depth:
                return
            with set_interaction_type(modes[i]), set_skip_existing(skips[i]):
                seen.append((interaction_type() == modes[i], skip_existing() == skips[i]))
                if raise_at == i:
                    raise KeyError("boom")
                nest(i + 1)
                seen.append((interaction_type() == modes[i], skip_existing() == skips[i]))
        try:
            nest(0)
        except KeyError:
            pass
        run.case(("ctx", tuple(map(str, modes)), tuple(skips), raise_at))
        if not all(a and b for a, b in seen) or interaction_type() != base_it or skip_existing() != base_sk:
            run.oracle_fail("context_state", [list(map(str, modes)), skips, raise_at], "interaction type / skip_existing mode not restored", "context_state")
        else:
            run.oracle_ok("context_state")


def run_prob(run, drv, ask):
    decision_stream(run, drv, ask)
    real_oracle(run)
    seq_oracle(run, drv)
    context_oracle(run)
