"""C14 probabilistic modules.

(1) correspondence of the decision logic `_dist_sample` with Model/C14Prob.lean on stub distributions covering every
    combination of capabilities; (2) differential oracle on real distributions: for every InteractionType the sample equals
    the statistic of a distribution built independently from the same parameters (RANDOM: same seed), the log-probability
    equals `dist.log_prob(sample)`, other entries are untouched, num_samples expands the batch.
"""
from __future__ import annotations

import itertools
import warnings

import torch
import torch.distributions as D

from common import time_limit

TAG = {"det_sample": 1.0, "mode": 2.0, "median": 3.0, "mean": 4.0, "rsample": 7.0, "sample": 8.0}


def make_stub(ds, sup, mo, me, mn, rs):
    class Stub(D.Distribution):
        arg_constraints = {}
        has_rsample = rs

        def __init__(self):
            super().__init__(validate_args=False)

        @property
        def support(self):
            if sup == "not_impl":
                raise NotImplementedError
            return D.constraints.real if sup == "real" else D.constraints.positive

        @property
        def mode(self):
            if not mo:
                raise AttributeError("mode")
            return torch.tensor(TAG["mode"])

        @property
        def median(self):
            if not me:
                raise AttributeError("median")
            return torch.tensor(TAG["median"])

        def rsample(self, shape=torch.Size()):
            return torch.full(tuple(shape), TAG["rsample"])

        def sample(self, shape=torch.Size()):
            return torch.full(tuple(shape), TAG["sample"])

    if ds:
        Stub.deterministic_sample = property(lambda self: torch.tensor(TAG["det_sample"]))
    if mn == "ok":
        Stub.mean = property(lambda self: torch.tensor(TAG["mean"]))
    elif mn == "not_impl":
        def _m(self):
            raise NotImplementedError
        Stub.mean = property(_m)
    else:
        # D.Distribution defines `mean` (raising NotImplementedError); make the attribute really absent
        def _absent(self):
            raise AttributeError("mean")
        Stub.mean = property(_absent)
    return Stub


def classify(t, n_emp):
    if t.ndim == 0:
        v = float(t)
        for k, tv in TAG.items():
            if v == tv:
                # an empirical mean of constant draws has the draw's tag: distinguished by the call log instead
                return k
    return "other"


def decision_stream(run, drv, ask):
    import tensordict.nn.probabilistic as P
    from tensordict.nn import ProbabilisticTensorDictModule
    from tensordict.nn.probabilistic import InteractionType
    mod = ProbabilisticTensorDictModule(in_keys=["loc"], out_keys=["x"], distribution_class=D.Normal)
    its = ["mode", "median", "mean", "random", "deterministic"]
    regs = ["none", "mode", "mean", "deterministic", "median"]
    combos = list(itertools.product(its, [True, False], regs, ["real", "other", "not_impl"], [True, False], [True, False],
                                    ["absent", "not_impl", "ok"], [True, False]))
    if run.tier == "quick":
        combos = run.rng.sample(combos, 700)
    reqs = [f"(c14.dist_sample {it} {str(ds).lower()} {reg} {sup} {str(mo).lower()} {str(me).lower()} {mn} {str(rs).lower()})"
            for it, ds, reg, sup, mo, me, mn, rs in combos]
    answers = ask(drv, reqs)
    for (it, ds, reg, sup, mo, me, mn, rs), model in zip(combos, answers):
        run.case(("dist_sample", it, ds, reg, sup, mo, me, mn, rs))
        Stub = make_stub(ds, sup, mo, me, mn, rs)
        calls = []
        orig_r, orig_s = Stub.rsample, Stub.sample

        def rsample(self, shape=torch.Size(), _o=orig_r):
            calls.append(("rsample", tuple(shape)))
            return _o(self, shape)

        def sample(self, shape=torch.Size(), _o=orig_s):
            calls.append(("sample", tuple(shape)))
            return _o(self, shape)
        Stub.rsample, Stub.sample = rsample, sample
        if reg != "none":
            P.DETERMINISTIC_REGISTER[Stub] = InteractionType(reg)
        try:
            with warnings.catch_warnings():
                warnings.simplefilter("ignore")
                with time_limit(60):
                    out = mod._dist_sample(Stub(), interaction_type=InteractionType(it))
            kind = classify(out, mod.n_empirical_estimate)
            if calls and calls[0][1] == (mod.n_empirical_estimate,):
                kind = "emp_mean_" + calls[0][0]
            elif calls:
                kind = calls[0][0]
        except NotImplementedError:
            kind = "not_impl"
        except TimeoutError:
            raise
        except Exception as e:  # noqa: BLE001
            kind = "raised:" + type(e).__name__
        finally:
            P.DETERMINISTIC_REGISTER.pop(Stub, None)
        run.count("dist_sample.pick", kind)
        run.corr("dist_sample", [it, ds, reg, sup, mo, me, mn, rs], kind, model)


def real_oracle(run):
    from tensordict import TensorDict
    from tensordict.nn import ProbabilisticTensorDictModule, TensorDictModule, ProbabilisticTensorDictSequential, set_interaction_type
    from tensordict.nn.probabilistic import InteractionType
    from tensordict.nn.distributions import Delta

    def indep_normal(loc, scale):
        return D.Independent(D.Normal(loc, scale), 1)
    dists = {
        "Normal": (D.Normal, ["loc", "scale"]),
        "IndepNormal": (indep_normal, ["loc", "scale"]),
        "Delta": (Delta, ["param"]),
        "Categorical": (lambda logits: D.Categorical(logits=logits), ["logits"]),
    }
    for (dname, (cls, keys)), it, rlp, ns in itertools.product(dists.items(), list(InteractionType), [False, True], [None, 3]):
        case = [dname, str(it), rlp, ns]
        run.case(("prob", dname, str(it), rlp, ns))
        torch.manual_seed(11)
        params = {"loc": torch.randn(4, 3), "scale": torch.rand(4, 3) + 0.5, "param": torch.randn(4, 3), "logits": torch.randn(4, 3)}
        td = TensorDict({k: params[k] for k in keys}, batch_size=[4])
        td["other"] = torch.arange(4.0)
        before = {k: v for k, v in td.items()}
        try:
            mod = ProbabilisticTensorDictModule(in_keys=keys, out_keys=["x"], distribution_class=cls, return_log_prob=rlp, num_samples=ns)
        except TypeError:
            try:
                mod = ProbabilisticTensorDictModule(in_keys=keys, out_keys=["x"], distribution_class=cls, return_log_prob=rlp)
                if ns is not None:
                    continue
            except Exception:  # noqa: BLE001
                continue
        ref = cls(**{k: params[k] for k in keys})
        try:
            with warnings.catch_warnings():
                warnings.simplefilter("ignore")
                with time_limit(90), set_interaction_type(it):
                    torch.manual_seed(5)
                    out = mod(td)
        except TimeoutError:
            raise
        except Exception as e:  # noqa: BLE001  (statistic not available for this distribution: e.g. Categorical.median)
            if type(e) is RuntimeError:      # (NotImplementedError / ValueError: the statistic does not exist) a plain RuntimeError is a failure
                run.oracle_fail("probabilistic", [dname, str(it)], f"raised RuntimeError: {str(e)[:120]}", f"prob:raised:{it}")
            run.count("prob.unavailable", f"{dname}/{it}:{type(e).__name__}")
            continue
        x = out["x"]
        # reference statistic from an independently built distribution
        torch.manual_seed(5)
        try:
            if it == InteractionType.RANDOM:
                shape = torch.Size(()) if ns is None else torch.Size((ns,)) if isinstance(ns, int) else ns
                want = ref.rsample(shape) if ref.has_rsample else ref.sample(shape)
            elif it == InteractionType.MODE:
                want = ref.mode
            elif it == InteractionType.MEAN:
                want = ref.mean
            elif it == InteractionType.MEDIAN:
                want = ref.median
            else:
                want = ref.deterministic_sample if hasattr(ref, "deterministic_sample") else (ref.mode if dname == "Categorical" else ref.mean)
        except Exception:  # noqa: BLE001
            run.count("prob.no_reference", f"{dname}/{it}")
            continue
        if ns is not None and it != InteractionType.RANDOM:
            want = want.expand((ns,) + tuple(want.shape)) if x.shape != want.shape else want
        bad = []
        if x.shape != want.shape or not torch.allclose(x.float(), want.float(), equal_nan=True):
            bad.append("sample != statistic of the distribution built from the same parameters")
        if rlp:
            lp = out[mod.log_prob_key]
            try:
                want_lp = ref.log_prob(x)
                if lp.shape != want_lp.shape or not torch.allclose(lp, want_lp, equal_nan=True):
                    bad.append("log-prob != dist.log_prob(sample)")
            except Exception:  # noqa: BLE001
                pass
        lost = [k for k, v in before.items() if td.get(k) is not v]
        if lost and ns is None:
            bad.append(f"input entries replaced: {lost}")
        if bad:
            run.oracle_fail("probabilistic", case, "; ".join(bad), "prob:" + dname + ":" + str(it))
        else:
            run.oracle_ok("probabilistic")


def seq_oracle(run, drv=None):
    """ProbabilisticTensorDictSequential: deterministic part + probabilistic head. get_dist / log_prob / forward agree with
    a distribution built by hand from the parameters the deterministic part computes; other entries untouched."""
    from tensordict import TensorDict
    from tensordict.nn import (ProbabilisticTensorDictModule, ProbabilisticTensorDictSequential, TensorDictModule,
                               set_interaction_type, CompositeDistribution)
    from tensordict.nn.probabilistic import InteractionType

    def params_fn(x):
        return x * 2 + 1, x.abs() + 0.5
    for it, rlp, inplace in itertools.product(list(InteractionType), [False, True], [None, True, False]):
        case = ["prob_seq", str(it), rlp, inplace]
        run.case(("prob_seq", str(it), rlp, str(inplace)))
        torch.manual_seed(3)
        x = torch.randn(4, 3)
        td = TensorDict({"x": x, "other": torch.arange(4.0)}, batch_size=[4])
        before = {k: v for k, v in td.items()}
        kw = {} if inplace is None else {"inplace": inplace}
        try:
            seq = ProbabilisticTensorDictSequential(
                TensorDictModule(params_fn, in_keys=["x"], out_keys=["loc", "scale"]),
                ProbabilisticTensorDictModule(in_keys=["loc", "scale"], out_keys=["a"], distribution_class=D.Normal, return_log_prob=rlp),
                **kw)
        except TypeError:
            continue
        loc, scale = params_fn(x)
        ref = D.Normal(loc, scale)
        bad = []
        try:
            with warnings.catch_warnings():
                warnings.simplefilter("ignore")
                with time_limit(90), set_interaction_type(it):
                    torch.manual_seed(9)
                    out = seq(td.copy() if inplace is None else td)
                    dist = seq.get_dist(td.select("x", "other").copy())
        except TimeoutError:
            raise
        except Exception as e:  # noqa: BLE001
            run.count("prob.unavailable", f"seq/{it}:{type(e).__name__}")
            if not isinstance(e, NotImplementedError):      # only "this statistic does not exist" is a legitimate refusal
                run.oracle_fail("probabilistic", case, f"raised {type(e).__name__}: {str(e)[:120]}", f"prob_seq:raised:{it}")
            continue
        if not (torch.equal(dist.loc, loc) and torch.equal(dist.scale, scale)):
            bad.append("get_dist is not the distribution of the parameters the deterministic part computes")
        torch.manual_seed(9)
        try:
            want = {InteractionType.RANDOM: lambda: ref.rsample(), InteractionType.MODE: lambda: ref.mode, InteractionType.MEAN: lambda: ref.mean,
                    InteractionType.MEDIAN: lambda: ref.icdf(torch.tensor(0.5)), InteractionType.DETERMINISTIC: lambda: ref.mean}[it]()
        except Exception:  # noqa: BLE001
            want = None
        a = out.get("a", None)
        if a is None:
            bad.append("sample key missing from the output")
        elif want is not None and not torch.allclose(a, want):
            bad.append("sample != statistic of the reference distribution")
        if rlp and a is not None:
            lpk = seq.log_prob_key if hasattr(seq, "log_prob_key") else "sample_log_prob"
            lp = out.get(lpk, None)
            if lp is None or not torch.allclose(lp, ref.log_prob(a)):
                bad.append("log-prob entry != dist.log_prob(sample)")
        if a is not None:
            # log_prob() of the sequence on a tensordict holding the sample
            try:
                with warnings.catch_warnings():
                    warnings.simplefilter("ignore")
                    probe = TensorDict({"x": x, "a": a.detach()}, batch_size=[4])
                    lp2 = seq.log_prob(probe)
                lp2 = lp2 if isinstance(lp2, torch.Tensor) else lp2.get(seq.log_prob_key)
                if not torch.allclose(lp2, ref.log_prob(a.detach())):
                    bad.append("seq.log_prob(td) != dist.log_prob(td[sample])")
            except Exception as e:  # noqa: BLE001
                run.count("prob.unavailable", f"seq.log_prob/{it}:{type(e).__name__}")
                if not isinstance(e, NotImplementedError):
                    bad.append(f"seq.log_prob(td) raised {type(e).__name__}: {str(e)[:100]}")
        if inplace in (None, True):
            src = td if inplace is True else None
            if src is not None:
                lost = [k for k, v in before.items() if src.get(k) is not v]
                if lost:
                    bad.append(f"input entries replaced: {lost}")
        if bad:
            run.oracle_fail("probabilistic", case, "; ".join(bad), "prob_seq:" + str(it))
        else:
            run.oracle_ok("probabilistic")

    composite_oracle(run, drv)


def composite_oracle(run, drv=None):
    """CompositeDistribution heads (a Normal and an Independent(Normal)): for composite_lp_aggregate on/off x num_samples None/k x every
    interaction type, the log-probabilities the module writes equal (shape and value) both `module.get_dist(params).log_prob(sample)`
    and the plain torch distributions built from the same parameters; samples have the advertised shape and the named statistic."""
    from tensordict import TensorDict
    from tensordict.nn import (CompositeDistribution, ProbabilisticTensorDictModule, set_composite_lp_aggregate, set_interaction_type)
    from tensordict.nn.probabilistic import InteractionType

    def indep_normal(loc, scale):
        return D.Independent(D.Normal(loc, scale), 1)
    from common import parse_sx
    for second, agg, ns, it in itertools.product(["indep_normal", "categorical", "normal_feature"], [True, False], [None, 4], list(InteractionType)):
        case = ["composite", second, "aggregate" if agg else "per-key", ns, str(it)]
        run.case(("composite", second, agg, ns, str(it)))
        torch.manual_seed(4)
        td = TensorDict({"params": {"x": {"loc": torch.randn(3), "scale": torch.rand(3) + 0.5},
                                    "y": ({"loc": torch.randn(3, 2), "scale": torch.rand(3, 2) + 0.5} if second != "categorical"
                                          else {"logits": torch.randn(3, 5)})},
                         "other": torch.arange(3.0)}, [3])
        p = td["params"]
        ydist = {"indep_normal": indep_normal, "categorical": D.Categorical, "normal_feature": D.Normal}[second]
        yshape = (3,) if second == "categorical" else (3, 2)
        yextra = [2] if second == "normal_feature" else []      # feature dims the head's log_prob does not reduce itself
        bad = []
        try:
            with warnings.catch_warnings():
                warnings.simplefilter("ignore")
                with time_limit(60), set_composite_lp_aggregate(agg):
                    mod = ProbabilisticTensorDictModule(
                        in_keys=["params"], out_keys=["x", "y"], distribution_class=CompositeDistribution,
                        distribution_kwargs={"distribution_map": {"x": D.Normal, "y": ydist}},
                        return_log_prob=True, num_samples=ns, default_interaction_type=it)
                    with set_interaction_type(it):
                        out = mod(td.clone())
                        dist = mod.get_dist(td.clone())
                        lp_dist = dist.log_prob(out.select("x", "y"))
        except TimeoutError:
            raise
        except Exception as e:  # noqa: BLE001  (statistic unavailable)
            if type(e) is RuntimeError:
                run.oracle_fail("probabilistic", case, f"raised RuntimeError: {str(e)[:120]}", f"composite:raised:{it}")
            run.count("prob.unavailable", f"composite/{second}/{'agg' if agg else 'perkey'}/{ns}/{it}:{type(e).__name__}")
            continue
        lead = () if ns is None or it != InteractionType.RANDOM else (ns,)
        if ns is not None and it == InteractionType.RANDOM:
            lead = (ns,)
        if tuple(out["x"].shape) != (*lead, 3) or tuple(out["y"].shape) != (*lead, *yshape):
            bad.append(f"sample shapes {tuple(out['x'].shape)}, {tuple(out['y'].shape)}")
        else:
            lx = D.Normal(p["x", "loc"], p["x", "scale"]).log_prob(out["x"])
            if second != "categorical":
                ly_full = D.Normal(p["y", "loc"], p["y", "scale"]).log_prob(out["y"])
                ly = ly_full.sum(-1)
                ymode = p["y", "loc"]
            else:
                ly = D.Categorical(logits=p["y", "logits"]).log_prob(out["y"])
                ymode = p["y", "logits"].argmax(-1)
            if it == InteractionType.MODE and not (torch.allclose(out["x"], p["x", "loc"]) and torch.equal(out["y"].to(ymode.dtype), ymode)):
                bad.append("mode is not the mode of the heads")
            if it == InteractionType.MEAN and second != "categorical" and not (torch.allclose(out["x"], p["x", "loc"]) and torch.allclose(out["y"], ymode)):
                bad.append("mean is not the mean of the heads")
            if agg:
                want = lx + ly
                got = out.get(mod.log_prob_key, None)
                if got is None or got.shape != want.shape or not torch.allclose(got, want):
                    bad.append(f"aggregated log-prob written by the module: shape {None if got is None else tuple(got.shape)} vs {tuple(want.shape)} / values")
                if not isinstance(lp_dist, torch.Tensor) or lp_dist.shape != want.shape or not torch.allclose(lp_dist, want):
                    bad.append(f"get_dist(params).log_prob(sample): shape {tuple(lp_dist.shape) if isinstance(lp_dist, torch.Tensor) else type(lp_dist).__name__} "
                               f"vs the module's {tuple(want.shape)} / values")
            else:
                for name, want in (("x", lx), ("y", ly_full if second == "normal_feature" else ly)):
                    keys = [k for k in out.keys(True, True) if "log_prob" in str(k) and name in str(k)]
                    if not keys:
                        bad.append(f"no log-prob entry for head {name}")
                        continue
                    got = out.get(keys[0])
                    if got.shape != want.shape or not torch.allclose(got, want):
                        bad.append(f"log-prob of head {name} written by the module: shape {tuple(got.shape)} vs {tuple(want.shape)} / values")
                    dgot = lp_dist.get(keys[0], None) if not isinstance(lp_dist, torch.Tensor) else None
                    if dgot is None or dgot.shape != want.shape or not torch.allclose(dgot, want):
                        bad.append(f"get_dist(params).log_prob(sample)[{keys[0]}] differs from the module's entry")
        if drv is not None and not bad:
            sb = list(out.batch_size)
            ans = parse_sx(drv.ask(f"(c14.lp_shape ({' '.join(map(str, sb))}) (() ({' '.join(map(str, yextra))})))"))
            if agg:
                impl_shapes = [list(lp_dist.shape), list(out.get(mod.log_prob_key).shape)]
                model_shapes = [ans[0] if isinstance(ans[0], list) else [], ans[1] if isinstance(ans[1], list) else []]
            else:
                kx = [k for k in out.keys(True, True) if "log_prob" in str(k) and "x" in str(k)][0]
                ky = [k for k in out.keys(True, True) if "log_prob" in str(k) and "y" in str(k)][0]
                impl_shapes = [list(out.get(kx).shape), list(out.get(ky).shape)]
                model_shapes = [list(x) if isinstance(x, list) else [] for x in ans[2]]
            run.corr("log_prob_shapes", case, impl_shapes, model_shapes)
        if not torch.equal(out["other"] if ns is None or it != InteractionType.RANDOM else out["other"][0], td["other"]):
            bad.append("an unrelated entry changed")
        # frame: the module writes its advertised out_keys and nothing else
        with set_composite_lp_aggregate(agg):
            adv = {k if isinstance(k, str) else tuple(k) for k in mod.out_keys}
        written = {k for k in out.keys(True, True) if k not in set(td.keys(True, True))}
        if drv is not None:
            # the key sets themselves against the model (Prob.writtenKeys / advertisedKeys)
            ans = parse_sx(drv.ask(f"(c14.prob_keys {'true' if agg else 'false'} (x y) {mod.log_prob_key if agg else 'sample_log_prob'})"))
            run.corr("prob_frame_keys", case, [sorted(map(str, written)), sorted(map(str, adv))],
                     [sorted(map(str, ans[0])), sorted(map(str, ans[1]))])
        missing, extra = sorted(map(str, adv - written)), sorted(map(str, written - adv))
        if missing or extra:
            heads_only = agg and not missing and set(extra) <= {"x_log_prob", "y_log_prob"}
            run.oracle_fail("probabilistic_frame", case, f"advertised out_keys never written: {missing}; entries written that are not out_keys: {extra}",
                            "prob_frame:aggregate:per-head-log-probs" if heads_only else "prob_frame:other")
        else:
            run.oracle_ok("probabilistic_frame")
        if bad:
            run.oracle_fail("probabilistic", case, "; ".join(bad), f"composite:{second}:{'agg' if agg else 'perkey'}:{ns}:{it}")
        else:
            run.oracle_ok("probabilistic")
            run.count("prob.composite_ok", f"{second}/{'agg' if agg else 'perkey'}/{ns}/{it}")


def composite_direct_oracle(run):
    """CompositeDistribution used directly (no module): for nested head names, a name_map, aggregate on/off and a sample shape —
    samples carry the write names and `shape + batch`; log_prob / entropy are the (reduced) sums of the heads' own, or one
    `<name>_log_prob` / `<name>_entropy` entry per head; mode / mean are the heads'; cdf then icdf is the identity on Normal heads,
    also when icdf has to compute the cdf itself."""
    from tensordict import TensorDict
    from tensordict.nn import CompositeDistribution, set_composite_lp_aggregate

    def indep(loc, scale):
        return D.Independent(D.Normal(loc, scale), 1)
    for second, nested, mapped, agg, shape in itertools.product(["normal_feature", "indep_normal", "categorical"], [False, True], [False, True],
                                                               [True, False], [(), (4,)]):
        case = ["composite_direct", second, "nested" if nested else "flat", "name_map" if mapped else "-", "aggregate" if agg else "per-key", list(shape)]
        run.case(("composite_direct", second, nested, mapped, agg, shape))
        torch.manual_seed(5)
        yname = ("ag", "y") if nested else "y"
        ypar = {"logits": torch.randn(3, 5)} if second == "categorical" else {"loc": torch.randn(3, 2), "scale": torch.rand(3, 2) + 0.5}
        params = TensorDict({"x": {"loc": torch.randn(3), "scale": torch.rand(3) + 0.5}, yname: ypar}, [3])
        ycls = {"normal_feature": D.Normal, "indep_normal": indep, "categorical": D.Categorical}[second]
        xw = "xs" if mapped else "x"
        hx = D.Normal(params["x", "loc"], params["x", "scale"])
        hy = ycls(**params[yname].to_dict())
        bad = []
        try:
            with warnings.catch_warnings():
                warnings.simplefilter("ignore")
                with time_limit(60), set_composite_lp_aggregate(agg):
                    dist = CompositeDistribution(params, {"x": D.Normal, yname: ycls}, name_map={"x": "xs"} if mapped else None)
                    smp = dist.sample(torch.Size(shape))
                    lp = dist.log_prob(smp.clone())
                    ent = dist.entropy()
                    mode = dist.mode
                    mean = dist.mean if second != "categorical" else None
                    cdf = icdf = icdf2 = None
                    if second == "normal_feature":
                        cdf = dist.cdf(smp.clone())
                        icdf = dist.icdf(cdf.clone())
                        icdf2 = dist.icdf(smp.clone())
        except TimeoutError:
            raise
        except Exception as e:  # noqa: BLE001
            run.oracle_fail("composite_direct", case, f"raised {type(e).__name__}: {str(e)[:120]}", f"composite_direct:raised:{type(e).__name__}")
            continue

        def suff(name, s):
            return (*name[:-1], name[-1] + s) if isinstance(name, tuple) else name + s
        if tuple(smp.batch_size) != (*shape, 3):
            bad.append(f"sample batch_size {tuple(smp.batch_size)}")
        if set(smp.keys(True, True)) != {xw, yname}:
            bad.append(f"sample keys {sorted(map(str, smp.keys(True, True)))}")
        else:
            lx, ly = hx.log_prob(smp[xw]), hy.log_prob(smp[yname])
            ly_red = ly.sum(-1) if second == "normal_feature" else ly
            if agg:
                if not isinstance(lp, torch.Tensor) or tuple(lp.shape) != (*shape, 3) or not torch.allclose(lp, lx + ly_red):
                    bad.append("aggregated log_prob is not the reduced sum of the heads' log-probs")
            else:
                for nm, want in ((suff(xw, "_log_prob"), lx), (suff(yname, "_log_prob"), ly)):
                    got = lp.get(nm, None) if not isinstance(lp, torch.Tensor) else None
                    if got is None or got.shape != want.shape or not torch.allclose(got, want):
                        bad.append(f"log_prob entry {nm}")
                if not isinstance(lp, torch.Tensor) and tuple(lp.batch_size) != (*shape, 3):
                    bad.append(f"log_prob tensordict batch_size {tuple(lp.batch_size)}")
            ex, ey = hx.entropy(), hy.entropy()
            ey_red = ey.sum(-1) if second == "normal_feature" else ey
            if agg:
                if not isinstance(ent, torch.Tensor) or tuple(ent.shape) != (3,) or not torch.allclose(ent, ex + ey_red):
                    bad.append("aggregated entropy is not the reduced sum of the heads' entropies")
            else:
                for nm, want in ((suff(xw, "_entropy"), ex), (suff(yname, "_entropy"), ey)):
                    got = ent.get(nm, None) if not isinstance(ent, torch.Tensor) else None
                    if got is None or got.shape != want.shape or not torch.allclose(got, want):
                        bad.append(f"entropy entry {nm}")
            if not (torch.allclose(mode[xw], hx.mode) and torch.equal(mode[yname].float(), hy.mode.float())):
                bad.append("mode")
            if mean is not None and not (torch.allclose(mean[xw], hx.mean) and torch.allclose(mean[yname], hy.mean)):
                bad.append("mean")
            if cdf is not None:
                if not (torch.allclose(cdf[suff(xw, "_cdf")], hx.cdf(smp[xw])) and torch.allclose(cdf[suff(yname, "_cdf")], hy.cdf(smp[yname]))):
                    bad.append("cdf entries")
                for which, r in (("icdf(cdf)", icdf), ("icdf(sample)", icdf2)):
                    if not (torch.allclose(r[suff(xw, "_icdf")], smp[xw], atol=1e-3) and torch.allclose(r[suff(yname, "_icdf")], smp[yname], atol=1e-3)):
                        bad.append(which + " is not the sample")
        if bad:
            run.oracle_fail("composite_direct", case, "; ".join(bad), f"composite_direct:{second}:{'agg' if agg else 'perkey'}:{bad[0].split(' ')[0]}")
        else:
            run.oracle_ok("composite_direct")


def autoregressive_oracle(run):
    """ProbabilisticTensorDictSequential(return_composite=True) with heads whose parameters are computed from the sample of the
    previous head (x -> a -> b -> c), in every nesting of return_composite sequences (flat, a nested sequence holding one, two
    or all three interdependent heads, at the front or at the back, doubly nested): the log-probability of an output tensordict
    is log p(a) + log p(b | a) + log p(c | b) *for the a, b, c found in that tensordict* — what the modules wrote when they
    sampled —, aggregated or per head, under every interaction type."""
    from tensordict import TensorDict
    from tensordict.nn import (ProbabilisticTensorDictModule as PM, ProbabilisticTensorDictSequential as PS, TensorDictModule as TM,
                               set_composite_lp_aggregate, set_interaction_type)
    from tensordict.nn.probabilistic import InteractionType
    heads = [("a", "x", 1.0), ("b", "a", 10.0), ("c", "b", -3.0)]

    def stage(name, src, k):
        return [TM(lambda v, _k=k: (_k * v, torch.ones_like(v)), in_keys=[src], out_keys=[("p" + name, "loc"), ("p" + name, "scale")]),
                PM(in_keys={"loc": ("p" + name, "loc"), "scale": ("p" + name, "scale")}, out_keys=[name], distribution_class=D.Normal,
                   return_log_prob=True, log_prob_key=name + "_lp")]

    def build(layout):
        def rec(l):
            mods = []
            for item in l:
                if isinstance(item, list):
                    mods.append(PS(*rec(item), return_composite=True))
                else:
                    mods += stage(*heads[item])
            return mods
        return PS(*rec(layout), return_composite=True)
    layouts = {"flat": [0, 1, 2], "[a](b c)": [[0], 1, 2], "a (b c)": [0, [1, 2]], "(a b) c": [[0, 1], 2], "((a b c))": [[0, 1, 2]],
               "((a b) c)": [[[0, 1], 2]], "a ((b c))": [0, [[1, 2]]]}
    for (lname, layout), agg, it in itertools.product(layouts.items(), [True, False], list(InteractionType)):
        case = ["autoregressive", lname, "aggregate" if agg else "per-key", str(it)]
        run.case(("autoregressive", lname, agg, str(it)))
        torch.manual_seed(6)
        td = TensorDict({"x": torch.randn(4)}, [4])
        try:
            with warnings.catch_warnings():
                warnings.simplefilter("ignore")
                with time_limit(60), set_composite_lp_aggregate(agg), set_interaction_type(it):
                    seq = build(layout)
                    out = seq(td.clone())
                    lp = seq.log_prob(out.clone())
        except TimeoutError:
            raise
        except Exception as e:  # noqa: BLE001
            if it == InteractionType.MEDIAN:      # torch's Normal has no median
                run.count("prob.unavailable", f"autoregressive/{lname}/{agg}/{it}:{type(e).__name__}")
            else:
                run.oracle_fail("probabilistic", case, f"raised {type(e).__name__}: {str(e)[:120]}", f"autoregressive:raised:{type(e).__name__}")
            continue
        want = {}
        for name, src, k in heads:
            want[name] = D.Normal(k * (td["x"] if src == "x" else out[src]), 1.0).log_prob(out[name])
        bad = []
        for name in want:
            if not torch.allclose(out[name + "_lp"], want[name]):
                bad.append(f"the log-prob written by head {name} is not log p({name} | its parent) at the written samples")
        if isinstance(lp, torch.Tensor):
            tot = want["a"] + want["b"] + want["c"]
            if lp.shape != tot.shape or not torch.allclose(lp, tot):
                bad.append("log_prob(output) is not log p(a) + log p(b | a) + log p(c | b) at the samples of the output")
        else:
            for name in want:
                got = lp.get(name + "_log_prob", None)
                if got is None:
                    bad.append(f"per-head entry {name}_log_prob missing: {sorted(map(str, lp.keys(True, True)))}")
                elif not torch.allclose(got, want[name]):
                    bad.append(f"{name}_log_prob is not log p({name} | parent) at the sample of the tensordict")
        if bad:
            run.oracle_fail("probabilistic", case, "; ".join(bad), f"autoregressive:{'agg' if agg else 'perkey'}:{it}")
        else:
            run.oracle_ok("probabilistic")


def custom_lp_keys_oracle(run):
    """custom log_prob_key / log_prob_keys on a module with a CompositeDistribution: the log-probs are written under the
    advertised names (and hold the heads' log-probs), `module.log_prob(out)` uses the same names"""
    from tensordict import TensorDict
    from tensordict.nn import CompositeDistribution, ProbabilisticTensorDictModule, set_composite_lp_aggregate, set_interaction_type
    from tensordict.nn.probabilistic import InteractionType
    for agg, ns in itertools.product([True, False], [None, 4]):
        case = ["custom_lp_keys", "aggregate" if agg else "per-key", ns]
        run.case(("custom_lp_keys", agg, ns))
        torch.manual_seed(7)
        td = TensorDict({"params": {"x": {"loc": torch.randn(3), "scale": torch.rand(3) + 0.5},
                                    "y": {"loc": torch.randn(3, 2), "scale": torch.rand(3, 2) + 0.5}}}, [3])
        kw = {"log_prob_key": "my_lp"} if agg else {"log_prob_keys": ["lx", "ly"]}
        try:
            with warnings.catch_warnings():
                warnings.simplefilter("ignore")
                with time_limit(60), set_composite_lp_aggregate(agg), set_interaction_type(InteractionType.RANDOM):
                    mod = ProbabilisticTensorDictModule(in_keys=["params"], out_keys=["x", "y"], distribution_class=CompositeDistribution,
                                                        distribution_kwargs={"distribution_map": {"x": D.Normal, "y": D.Normal}},
                                                        return_log_prob=True, num_samples=ns, **kw)
                    out = mod(td.clone())
                    lp = mod.log_prob(out.clone())
                    adv = {k if isinstance(k, str) else tuple(k) for k in mod.out_keys}
        except TimeoutError:
            raise
        except Exception as e:  # noqa: BLE001
            run.oracle_fail("probabilistic_frame", case, f"raised {type(e).__name__}: {str(e)[:120]}", "custom_lp_keys:raised")
            continue
        p = td["params"]
        lx = D.Normal(p["x", "loc"], p["x", "scale"]).log_prob(out["x"])
        ly = D.Normal(p["y", "loc"], p["y", "scale"]).log_prob(out["y"])
        bad = []
        written = {k for k in out.keys(True, True) if k not in set(td.keys(True, True))}
        extra = written - adv - ({"x_log_prob", "y_log_prob"} if agg else set())     # (aggregate: recorded finding)
        if adv - written or extra:
            bad.append(f"advertised but not written {sorted(map(str, adv - written))}; written but not advertised {sorted(map(str, extra))}")
        else:
            if agg:
                if not torch.allclose(out["my_lp"], lx + ly.sum(-1)) or not isinstance(lp, torch.Tensor) or not torch.allclose(lp, lx + ly.sum(-1)):
                    bad.append("aggregated log-prob under the custom key")
            else:
                if not (torch.allclose(out["lx"], lx) and torch.allclose(out["ly"], ly)):
                    bad.append("per-head log-probs under the custom keys")
                if isinstance(lp, torch.Tensor) or set(lp.keys()) != {"lx", "ly"}:
                    bad.append("module.log_prob does not use the custom keys")
        if bad:
            run.oracle_fail("probabilistic_frame", case, "; ".join(bad), "custom_lp_keys:" + ("agg" if agg else "perkey"))
        else:
            run.oracle_ok("probabilistic_frame")


def prob_select_oracle(run):
    """select_subsequence / slicing on a ProbabilisticTensorDictSequential: whatever is retained (the probabilistic module or
    not), the selection is a sequence that runs and computes, for the requested out_keys, the values of the full sequence
    (deterministic interaction type); it raises only when no module is left."""
    from tensordict import TensorDict
    from tensordict.nn import (ProbabilisticTensorDictModule as PM, ProbabilisticTensorDictSequential as PS, TensorDictModule as TM,
                               set_interaction_type)
    from tensordict.nn.probabilistic import InteractionType

    def build(composite):
        mods = [TM(lambda x: (x + 1, torch.ones_like(x)), in_keys=["x"], out_keys=["loc", "scale"]),
                TM(lambda x: x * 2, in_keys=["x"], out_keys=["aux"]),
                PM(in_keys=["loc", "scale"], out_keys=["a"], distribution_class=D.Normal)]
        if composite:
            mods += [TM(lambda a: (a * 3, torch.ones_like(a)), in_keys=["a"], out_keys=["loc2", "scale2"]),
                     PM(in_keys={"loc": "loc2", "scale": "scale2"}, out_keys=["b"], distribution_class=D.Normal)]
            return PS(*mods, return_composite=True)
        return PS(*mods)
    for composite in (False, True):
        all_out = ["loc", "scale", "aux", "a"] + (["loc2", "scale2", "b"] if composite else [])
        requests = [("out", [k]) for k in all_out] + [("out", ["aux", "a"]), ("in", ["x"]), ("slice", (0, 2)), ("slice", (1, None)), ("slice", (0, 1))]
        for kind, arg in requests:
            case = ["prob_select", "composite" if composite else "last-only", kind, str(arg)]
            run.case(("prob_select", composite, kind, str(arg)))
            td = TensorDict({"x": torch.arange(3.0)}, [3])
            try:
                with warnings.catch_warnings():
                    warnings.simplefilter("ignore")
                    with time_limit(60), set_interaction_type(InteractionType.MODE):
                        seq = build(composite)
                        full = seq(td.clone())
                        if kind == "out":
                            sub = seq.select_subsequence(out_keys=list(arg))
                        elif kind == "in":
                            sub = seq.select_subsequence(in_keys=list(arg))
                        else:
                            sub = seq[slice(*arg)]
                        inp = td.clone() if kind != "slice" or arg[0] == 0 else full.select(*sub.in_keys).clone()
                        got = sub(inp)
            except TimeoutError:
                raise
            except Exception as e:  # noqa: BLE001
                run.oracle_fail("prob_selection", case, f"raised {type(e).__name__}: {str(e)[:140]}", f"prob_select:raised:{type(e).__name__}")
                continue
            want = list(arg) if kind == "out" else [k for k in sub.out_keys if isinstance(k, str) and k in full.keys()]
            bad = [k for k in want if k not in got.keys() or not torch.allclose(got[k], full[k])]
            if bad:
                run.oracle_fail("prob_selection", case, f"the selection differs from the full sequence on {bad}", "prob_select:values")
            else:
                run.oracle_ok("prob_selection")


def prob_seq_options_oracle(run):
    """ProbabilisticTensorDictSequential with its `inplace` setting and a `tensordict_out`: a destination given by the caller
    is the object returned and receives the out_keys whatever the setting; with inplace=False / "empty" and no destination a new
    tensordict is returned and the input is left as it is; MEAN on a distribution without a closed-form mean is the empirical mean."""
    from tensordict import TensorDict
    from tensordict.nn import (ProbabilisticTensorDictModule as PM, ProbabilisticTensorDictSequential as PS, TensorDictModule as TM,
                               set_interaction_type)
    from tensordict.nn.probabilistic import InteractionType

    def build(**kw):
        return PS(TM(lambda x: (x, torch.ones_like(x)), in_keys=["x"], out_keys=["loc", "scale"]),
                  PM(in_keys=["loc", "scale"], out_keys=["a"], distribution_class=D.Normal), **kw)
    for ip, with_out in itertools.product([None, True, False, "empty"], [False, True]):
        case = ["prob_seq_options", str(ip), "tensordict_out" if with_out else "-"]
        run.case(("prob_seq_options", str(ip), with_out))
        td = TensorDict({"x": torch.arange(2.0)}, [2])
        dest = TensorDict({"keep": torch.ones(2)}, [2])
        before = dict(td.items())
        try:
            with warnings.catch_warnings():
                warnings.simplefilter("ignore")
                with time_limit(60), set_interaction_type(InteractionType.MODE):
                    r = build(**({} if ip is None else {"inplace": ip}))(td, **({"tensordict_out": dest} if with_out else {}))
        except TimeoutError:
            raise
        except Exception as e:  # noqa: BLE001
            run.oracle_fail("prob_seq_options", case, f"raised {type(e).__name__}: {str(e)[:120]}", "prob_seq_options:raised")
            continue
        bad = []
        if with_out:
            if r is not dest:
                bad.append("a tensordict_out was given but another object was returned")
            elif set(dest.keys()) != {"keep", "loc", "scale", "a"}:
                bad.append(f"tensordict_out holds {sorted(dest.keys())}")
            if set(td.keys()) != {"x"}:
                bad.append(f"the input gained {sorted(set(td.keys()) - {'x'})} although a tensordict_out was given")
        elif ip in (False, "empty"):
            if r is td or set(r.keys()) != {"loc", "scale", "a"}:
                bad.append(f"inplace={ip}: returned the input / keys {sorted(r.keys())}")
            if set(td.keys()) != {"x"} or any(td[k] is not v for k, v in before.items()):
                bad.append(f"inplace={ip}: the input was modified: {sorted(td.keys())}")
        else:
            if r is not td or set(td.keys()) != {"x", "loc", "scale", "a"}:
                bad.append(f"inplace={ip}: expected the input with the out_keys, got {sorted(r.keys())}")
        if not bad and not torch.allclose(r["a"], torch.arange(2.0)):
            bad.append("values")
        if bad:
            run.oracle_fail("prob_seq_options", case, "; ".join(bad), "prob_seq_options:" + ("out" if with_out else str(ip)))
        else:
            run.oracle_ok("prob_seq_options")

    class TanhNormal(D.TransformedDistribution):       # torch's base `mean` raises NotImplementedError
        def __init__(self, loc, scale):
            super().__init__(D.Normal(loc, scale), [D.TanhTransform()])
    run.case(("prob_mean_fallback",))
    torch.manual_seed(8)
    mod = PM(in_keys=["loc", "scale"], out_keys=["a"], distribution_class=TanhNormal, n_empirical_estimate=4000)
    td = TensorDict({"loc": torch.tensor([0.0, 1.0, -0.5]), "scale": torch.full((3,), 0.05)}, [3])
    try:
        with warnings.catch_warnings():
            warnings.simplefilter("ignore")
            with time_limit(60), set_interaction_type(InteractionType.MEAN):
                got = mod(td)["a"]
        if got.shape != (3,) or not torch.allclose(got, torch.tanh(td["loc"]), atol=0.02):
            run.oracle_fail("probabilistic", ["prob_mean_fallback"], f"MEAN on a distribution without closed-form mean gave {got.tolist()}", "mean_fallback:values")
        else:
            run.oracle_ok("probabilistic")
    except TimeoutError:
        raise
    except Exception as e:  # noqa: BLE001
        run.oracle_fail("probabilistic", ["prob_mean_fallback"], f"MEAN on a distribution without closed-form mean raised {type(e).__name__} "
                        "instead of using the empirical mean of n_empirical_estimate draws", "mean_fallback:raised")


def context_oracle(run):
    """set_interaction_type / set_skip_existing restore the previous mode, nested and on exceptions"""
    from tensordict.nn import set_interaction_type, set_skip_existing, skip_existing
    from tensordict.nn.probabilistic import InteractionType, interaction_type
    rng = run.rng
    for _ in range(40):
        depth = rng.randint(1, 4)
        modes = [rng.choice(list(InteractionType)) for _ in range(depth)]
        skips = [rng.choice([True, False]) for _ in range(depth)]
        raise_at = rng.choice([None] + list(range(depth)))
        base_it, base_sk = interaction_type(), skip_existing()
        seen = []

        def nest(i):
            if i == depth:
                return
            with set_interaction_type(modes[i]), set_skip_existing(skips[i]):
                seen.append((interaction_type() == modes[i], skip_existing() == skips[i]))
                if raise_at == i:
                    raise KeyError("boom")
                nest(i + 1)
                seen.append((interaction_type() == modes[i], skip_existing() == skips[i]))
        try:
            nest(0)
        except KeyError:
            pass
        run.case(("ctx", tuple(map(str, modes)), tuple(skips), raise_at))
        if not all(a and b for a, b in seen) or interaction_type() != base_it or skip_existing() != base_sk:
            run.oracle_fail("context_state", [list(map(str, modes)), skips, raise_at], "interaction type / skip_existing mode not restored", "context_state")
        else:
            run.oracle_ok("context_state")


def run_prob(run, drv, ask):
    decision_stream(run, drv, ask)
    real_oracle(run)
    seq_oracle(run, drv)
    composite_direct_oracle(run)
    autoregressive_oracle(run)
    custom_lp_keys_oracle(run)
    prob_select_oracle(run)
    prob_seq_options_oracle(run)
    context_oracle(run)
