"""C14 probabilistic modules.

(1) correspondence of the decision logic `_dist_sample` with Model/C14Prob.lean on stub distributions covering every
    combination of capabilities; (2) differential oracle on real distributions: for every InteractionType the sample equals
    the statistic of a distribution built independently from the same parameters (RANDOM: same seed), the log-probability
    equals `dist.log_prob(sample)`, other entries are untouched, num_samples expands the batch.
"""
from __future__ import annotations

import itertools
import warnings

import torch
import torch.distributions as D

from common import time_limit

TAG = {"det_sample": 1.0, "mode": 2.0, "median": 3.0, "mean": 4.0, "rsample": 7.0, "sample": 8.0}


def make_stub(ds, sup, mo, me, mn, rs):
    class Stub(D.Distribution):
        arg_constraints = {}
        has_rsample = rs

        def __init__(self):
            super().__init__(validate_args=False)

        @property
        def support(self):
            if sup == "not_impl":
                raise NotImplementedError
            return D.constraints.real if sup == "real" else D.constraints.positive

        @property
        def mode(self):
            if not mo:
                raise AttributeError("mode")
            return torch.tensor(TAG["mode"])

        @property
        def median(self):
            if not me:
                raise AttributeError("median")
            return torch.tensor(TAG["median"])

        def rsample(self, shape=torch.Size()):
            return torch.full(tuple(shape), TAG["rsample"])

        def sample(self, shape=torch.Size()):
            return torch.full(tuple(shape), TAG["sample"])

    if ds:
        Stub.deterministic_sample = property(lambda self: torch.tensor(TAG["det_sample"]))
    if mn == "ok":
        Stub.mean = property(lambda self: torch.tensor(TAG["mean"]))
    elif mn == "not_impl":
        def _m(self):
            raise NotImplementedError
        Stub.mean = property(_m)
    else:
        # D.Distribution defines `mean` (raising NotImplementedError); make the attribute really absent
        def _absent(self):
            raise AttributeError("mean")
        Stub.mean = property(_absent)
    return Stub


def classify(t, n_emp):
    if t.ndim == 0:
        v = float(t)
        for k, tv in TAG.items():
            if v == tv:
                # an empirical mean of constant draws has the draw's tag: distinguished by the call log instead
                return k
    return "other"


def decision_stream(run, drv, ask):
    import tensordict.nn.probabilistic as P
    from tensordict.nn import ProbabilisticTensorDictModule
    from tensordict.nn.probabilistic import InteractionType
    mod = ProbabilisticTensorDictModule(in_keys=["loc"], out_keys=["x"], distribution_class=D.Normal)
    its = ["mode", "median", "mean", "random", "deterministic"]
    regs = ["none", "mode", "mean", "deterministic", "median"]
    combos = list(itertools.product(its, [True, False], regs, ["real", "other", "not_impl"], [True, False], [True, False],
                                    ["absent", "not_impl", "ok"], [True, False]))
    if run.tier == "quick":
        combos = run.rng.sample(combos, 700)
    reqs = [f"(c14.dist_sample {it} {str(ds).lower()} {reg} {sup} {str(mo).lower()} {str(me).lower()} {mn} {str(rs).lower()})"
            for it, ds, reg, sup, mo, me, mn, rs in combos]
    answers = ask(drv, reqs)
    for (it, ds, reg, sup, mo, me, mn, rs), model in zip(combos, answers):
        run.case(("dist_sample", it, ds, reg, sup, mo, me, mn, rs))
        Stub = make_stub(ds, sup, mo, me, mn, rs)
        calls = []
        orig_r, orig_s = Stub.rsample, Stub.sample

        def rsample(self, shape=torch.Size(), _o=orig_r):
            calls.append(("rsample", tuple(shape)))
            return _o(self, shape)

        def sample(self, shape=torch.Size(), _o=orig_s):
            calls.append(("sample", tuple(shape)))
            return _o(self, shape)
        Stub.rsample, Stub.sample = rsample, sample
        if reg != "none":
            P.DETERMINISTIC_REGISTER[Stub] = InteractionType(reg)
        try:
            with warnings.catch_warnings():
                warnings.simplefilter("ignore")
                with time_limit(10):
                    out = mod._dist_sample(Stub(), interaction_type=InteractionType(it))
            kind = classify(out, mod.n_empirical_estimate)
            if calls and calls[0][1] == (mod.n_empirical_estimate,):
                kind = "emp_mean_" + calls[0][0]
            elif calls:
                kind = calls[0][0]
        except NotImplementedError:
            kind = "not_impl"
        except TimeoutError:
            raise
        except Exception as e:  # noqa: BLE001
            kind = "raised:" + type(e).__name__
        finally:
            P.DETERMINISTIC_REGISTER.pop(Stub, None)
        run.count("dist_sample.pick", kind)
        run.corr("dist_sample", [it, ds, reg, sup, mo, me, mn, rs], kind, model)


def real_oracle(run):
    from tensordict import TensorDict
    from tensordict.nn import ProbabilisticTensorDictModule, TensorDictModule, ProbabilisticTensorDictSequential, set_interaction_type
    from tensordict.nn.probabilistic import InteractionType
    from tensordict.nn.distributions import Delta

    def indep_normal(loc, scale):
        return D.Independent(D.Normal(loc, scale), 1)
    dists = {
        "Normal": (D.Normal, ["loc", "scale"]),
        "IndepNormal": (indep_normal, ["loc", "scale"]),
        "Delta": (Delta, ["param"]),
        "Categorical": (lambda logits: D.Categorical(logits=logits), ["logits"]),
    }
    for (dname, (cls, keys)), it, rlp, ns in itertools.product(dists.items(), list(InteractionType), [False, True], [None, 3]):
        case = [dname, str(it), rlp, ns]
        run.case(("prob", dname, str(it), rlp, ns))
        torch.manual_seed(11)
        params = {"loc": torch.randn(4, 3), "scale": torch.rand(4, 3) + 0.5, "param": torch.randn(4, 3), "logits": torch.randn(4, 3)}
        td = TensorDict({k: params[k] for k in keys}, batch_size=[4])
        td["other"] = torch.arange(4.0)
        before = {k: v for k, v in td.items()}
        try:
            mod = ProbabilisticTensorDictModule(in_keys=keys, out_keys=["x"], distribution_class=cls, return_log_prob=rlp, num_samples=ns)
        except TypeError:
            try:
                mod = ProbabilisticTensorDictModule(in_keys=keys, out_keys=["x"], distribution_class=cls, return_log_prob=rlp)
                if ns is not None:
                    continue
            except Exception:  # noqa: BLE001
                continue
        ref = cls(**{k: params[k] for k in keys})
        try:
            with warnings.catch_warnings():
                warnings.simplefilter("ignore")
                with time_limit(30), set_interaction_type(it):
                    torch.manual_seed(5)
                    out = mod(td)
        except TimeoutError:
            raise
        except Exception as e:  # noqa: BLE001  (statistic not available for this distribution: e.g. Categorical.median)
            run.count("prob.unavailable", f"{dname}/{it}:{type(e).__name__}")
            continue
        x = out["x"]
        # reference statistic from an independently built distribution
        torch.manual_seed(5)
        try:
            if it == InteractionType.RANDOM:
                shape = torch.Size(()) if ns is None else torch.Size((ns,)) if isinstance(ns, int) else ns
                want = ref.rsample(shape) if ref.has_rsample else ref.sample(shape)
            elif it == InteractionType.MODE:
                want = ref.mode
            elif it == InteractionType.MEAN:
                want = ref.mean
            elif it == InteractionType.MEDIAN:
                want = ref.median
            else:
                want = ref.deterministic_sample if hasattr(ref, "deterministic_sample") else (ref.mode if dname == "Categorical" else ref.mean)
        except Exception:  # noqa: BLE001
            run.count("prob.no_reference", f"{dname}/{it}")
            continue
        if ns is not None and it != InteractionType.RANDOM:
            want = want.expand((ns,) + tuple(want.shape)) if x.shape != want.shape else want
        bad = []
        if x.shape != want.shape or not torch.allclose(x.float(), want.float(), equal_nan=True):
            bad.append("sample != statistic of the distribution built from the same parameters")
        if rlp:
            lp = out[mod.log_prob_key]
            try:
                want_lp = ref.log_prob(x)
                if lp.shape != want_lp.shape or not torch.allclose(lp, want_lp, equal_nan=True):
                    bad.append("log-prob != dist.log_prob(sample)")
            except Exception:  # noqa: BLE001
                pass
        lost = [k for k, v in before.items() if td.get(k) is not v]
        if lost and ns is None:
            bad.append(f"input entries replaced: {lost}")
        if bad:
            run.oracle_fail("probabilistic", case, "; ".join(bad), "prob:" + dname + ":" + str(it))
        else:
            run.oracle_ok("probabilistic")


def run_prob(run, drv, ask):
    decision_stream(run, drv, ask)
    real_oracle(run)
