"""C06 event histories: the C05 lock events + memoised reads + rebinding writes, on the real library (observed by the
monitor) and on the Lean model (`c06.run`).

For every read the harness records: bypass / miss / hit (as observed by c06_monitor), the canonical result, and
  * monitor oracle : on a hit, the cached object vs a fresh recomputation through `__wrapped__`
  * twin oracle    : the same read on an unlocked shallow copy of the subject (same leaves), result compared
"""
from __future__ import annotations

import gc
from pathlib import Path

import torch

import c05_hist as H5
import c06_monitor as M
from common import parse_sx, sx

BS = [2]
NT_BASE = 500000      # identities of non-tensor entries (the driver excludes them from `leaves_only` reads)


class Impl6(H5.Impl):
    """real objects; batch size [2] so that indexed (non-tensor) writes exist; lazy stacks along dim 1"""

    def __init__(self, scratch: Path):
        super().__init__(scratch)
        self.bs = list(BS)
        self.stack_dim = len(BS)
        self.allow_params = False  # (the memoised reads of a TensorDictParams are those of its content)
        self.allow_nts = False     # (non-tensor entries are leaves of the C06 content model)
        self.nt_no = {}            # id(non tensor object) -> obj number
        self.fresh_nt = set()      # (node id, key) whose entry is still a NonTensorData (first indexed write rebinds)
        self.results = set()       # ids of the tensordicts handed out by flatten_keys
        self.recent = []           # recent read events
        self.last_read = None
        self.alias = {}            # id(result object of a nested-valued read) -> index of its flat placeholder in `nodes`
        self.nmm6 = 0

    def node_id(self, obj):
        j = self.alias.get(id(obj))
        if j is not None:
            return j
        return super().node_id(obj)

    # ---------------------------------------------------------------- metadata helpers
    def index_of(self, n):
        for i, x in enumerate(self.nodes):
            if x is n:
                return i
        return None

    def names_of(self, n):
        """dimension names computed without the memoised property; None when the members of a stack disagree"""
        if self.is_lazy(n):
            ms = [self.names_of(m) for m in n.tensordicts]
            if any(m is None for m in ms) or any(m != ms[0] for m in ms[1:]):
                return None
            out = list(ms[0])
            out.insert(n.stack_dim, n._td_dim_name)
            return out
        names = n._td_dim_names
        return list(names) if names is not None else [None] * n.batch_dims

    def named(self, i):
        for n in self.reach(i):
            if self.is_lazy(n):
                if n._td_dim_name is not None:
                    return True
            elif self.is_tc(n):
                if n._tensordict._td_dim_names is not None:
                    return True
            elif n._td_dim_names is not None:
                return True
        return False

    def stacks_consistent_after(self, changed):
        """would every live lazy stack still have members with equal names if the nodes in `changed` got other names?"""
        for n in self.nodes:
            if n is None or not self.is_lazy(n):
                continue
            inside = [any(m is c for c in changed) for m in n.tensordicts]
            if any(inside) and not all(inside):
                return False
        return True

    def cache_nonempty(self):
        out = []
        for i, n in enumerate(self.nodes):
            if n is None:
                continue
            c = getattr(n, "_cache", None)
            if c and any(len(v) for v in c.values()):
                out.append(i)
        return out

    def underlying_no(self, v, source):
        """identity of the leaf a rebuilt entry wraps (BatchedTensor) or shares its storage with (detach)"""
        try:
            from torch._C._functorch import get_unwrapped, is_batchedtensor
            while is_batchedtensor(v):
                v = get_unwrapped(v)
        except ImportError:  # pragma: no cover
            pass
        if id(v) in self.leaf_no:
            return self.leaf_no[id(v)]
        try:
            ptr = v.data_ptr()
        except Exception:  # noqa
            return -1
        for leaf in source.values(True, True):
            if isinstance(leaf, torch.Tensor) and id(leaf) in self.leaf_no and leaf.data_ptr() == ptr:
                return self.leaf_no[id(leaf)]
        return -1

    def kids(self, n):
        from tensordict.base import _is_tensor_collection
        from tensordict.utils import is_non_tensor
        return [(k, v) for k, v in self.entries(n) if _is_tensor_collection(type(v)) and not is_non_tensor(v)]

    def leaf_ent(self, v):
        from tensordict.utils import is_non_tensor
        if isinstance(v, torch.Tensor):
            return ("l", self.leaf_no.get(id(v), -1))
        if is_non_tensor(v):
            return ("l", self.nt_no.get(id(v), -1))
        j = self.node_id(v)
        return ("n", j if j is not None else -1)

    def view(self):
        from tensordict.utils import is_non_tensor
        rows = []
        for i, n in enumerate(self.nodes):
            if n is None:
                rows.append("dead")
                continue
            raw = n._is_locked
            flag = "t" if raw is True else "f" if raw is False else "n"
            ps = set()
            for w in n._lock_parents_weakrefs:
                o = w()
                if o is None:
                    continue
                j = self.node_id(o)
                if j is not None:
                    ps.add(j)           # (non-tensor entries are not objects of the model)
            ents = []
            for k, v in self.entries(n):
                e = self.leaf_ent(v)
                if e[0] == "n":
                    ents.append([k, "n", e[1]])
                else:
                    ents.append([k, "l", e[1], 0])
            ents.sort(key=lambda e: e[0])
            rows.append([i, "L" if n.is_locked else "U", flag, sorted(ps), ents])
        return rows

    def _run(self, ev):
        from tensordict import LazyStackedTensorDict, NonTensorData, TensorDict
        kind = ev[0]
        if kind == "ctor":
            kids, leaves, lock = ev[1], ev[2], ev[3]
            d = {}
            for k, j in kids:
                d[k] = self.nodes[j]
            for k, no, ver in leaves:
                if k == "nt":
                    v = NonTensorData(f"v{no}", batch_size=BS)
                    self.nt_no[id(v)] = no
                    self.keep.append(v)
                    d[k] = v
                else:
                    t = torch.full(BS, float(ver))
                    self.leaf_no[id(t)] = no
                    self.keep.append(t)
                    d[k] = t
            td = TensorDict(d, batch_size=BS, device="cpu", lock=lock)
            # the constructor keeps NonTensorData objects? (re-register by key)
            for k, no, ver in leaves:
                if k == "nt":
                    v = td._tensordict["nt"]
                    self.nt_no[id(v)] = no
                    self.keep.append(v)
                    self.fresh_nt.add((len(self.nodes), "nt"))
            self.nodes.append(td)
        elif kind == "lazy":
            _, ms, lock = ev
            self.nodes.append(LazyStackedTensorDict(*[self.nodes[j] for j in ms], stack_dim=len(BS)))
        elif kind == "rebind":
            _, i, k, no = ev
            td = self.nodes[i]
            before = td._tensordict[k]
            td[no % 2] = {k: f"w{no}"}
            v = td._tensordict[k]
            if v is before:
                raise RuntimeError("an indexed non-tensor write left the entry bound to the same object (no re-bind, nothing invalidated)")
            self.nt_no[id(v)] = no
            self.keep.append(v)
            self.fresh_nt.discard((i, k))
        elif kind == "attr":
            _, i, field, value, depth, op = ev
            td = self.nodes[i]
            if op == "names_new":
                names = [f"n{value}"] if not self.is_lazy(td) else [f"n{value}", f"s{value}"]
                td.names = names
            elif op == "names_none":
                td.names = None
            elif op == "batch":
                td.batch_size = []
                td.batch_size = list(BS)
            elif op == "device":
                td.clear_device_()
                td.auto_device_()
                if any(n.device is None for n in self.reach(i)):
                    td._set_device(torch.device("cpu"))
            else:
                raise ValueError(op)
        elif kind == "mmap":
            _, i, news = ev
            self.nmm6 += 1
            td = self.nodes[i]
            td.memmap_(str(self.scratch / f"mm6_{self.nmm6}"), copy_existing=True)
            for j, k, no in news:
                v = self.nodes[j]._tensordict.get(k)
                self.leaf_no[id(v)] = no
                self.keep.append(v)
        elif kind == "read":
            self.last_read = self.read(ev)
        else:
            super()._run(ev)

    def new_leaf_tensor(self, ver=0):
        return torch.full(BS, float(ver))

    # ---------------------------------------------------------------- reads
    def read(self, ev):
        """-> dict(kind=hit|miss|bypass, result=canonical, stale=None|str, twin=None|str)"""
        _, i, meth, args = ev
        td = self.nodes[i]
        seen = []
        M.CALLBACK = seen.append
        try:
            out = self.call(td, meth, args)
        finally:
            M.CALLBACK = _noop
        top = [e for e in seen if e["self"] is td]
        e = top[-1] if top else None
        if e is None:
            kind = "unobserved"
        elif e["hit"]:
            kind = "hit"
        elif e["stored"]:
            kind = "miss"
        else:
            kind = "bypass"        # not consulted (or nothing stored)
        stale = None
        if e is not None and e["hit"]:
            ok, why = M.same_result(td, e["out"], e["fresh"])
            if not ok:
                stale = why
        res = self.canon(td, meth, out)
        twin = None
        if td.is_locked:
            try:
                tw = td.copy()
                M.ENABLED = False
                try:
                    tout = self.call(tw, meth, args)
                finally:
                    M.ENABLED = True
                a, b = self.canon(td, meth, out, ids=False), self.canon(tw, meth, tout, ids=False)
                if a != b:
                    twin = f"locked={a} twin={b}"
            except Exception as ex:  # noqa
                twin = None
        return {"kind": kind, "result": res, "stale": stale, "twin": twin}

    def call(self, td, meth, args):
        if meth == 0:
            return td._items_list(bool(args[0]), bool(args[1]))
        if meth == 1:
            return td._values_list(bool(args[0]), bool(args[1]))
        if meth == 2:
            return td.sorted_keys
        if meth == 3:
            return td._depth()
        if meth == 4:
            return td.flatten_keys(".")
        if meth == 5:
            return td._key_list()
        if meth == 6:
            return list(td._nested_keys(bool(args[0]), bool(args[1]), args[2]))
        if meth == 7:
            return td._get_str(H5.KID_KEYS[args[0]], None)
        if meth == 8:
            # the memo of torch.vmap: `td._add_batch_dim(in_dim=…, vmap_level=…)` is what a vmapped function receives
            in_dim, level = args
            got = []

            def f(t):
                got.append(t)
                return torch.zeros(())
            dim = in_dim
            if level == 1:
                torch.vmap(f, in_dims=(dim,))(td)
            else:
                torch.vmap(lambda d: torch.vmap(f, in_dims=(dim,))(td) + 0 * d)(torch.zeros(1))
            return got[0]
        if meth == 9:
            return td.detach()
        raise ValueError(meth)

    def canon(self, td, meth, out, ids=True):
        """the shape the Lean driver prints (sorted)"""
        def ent(v):
            e = self.leaf_ent(v)
            if not ids and (e[0] == "n" or not isinstance(v, torch.Tensor)):
                return [e[0], 0]          # the twin is a copy: nested containers and non-tensor payloads are new objects
            return [e[0], e[1]]

        def path(k):
            return [k] if isinstance(k, str) else list(k)
        if meth == 0:
            keys, vals = out
            return ["value", sorted([path(k), ent(v)] for k, v in zip(keys, vals))]
        if meth == 1:
            return ["values", sorted(ent(v) for v in out)]
        if meth == 2:
            return ["value", sorted([path(k), ["l", 0]] for k in out)]
        if meth == 3:
            return ["value", [[[], ["l", int(out)]]]]
        if meth == 4:
            items = sorted([k, ent(v)[1]] for k, v in out._tensordict.items())
            j = self.node_id(out)
            return ["object", j if (j is not None and ids) else -1, items]
        if meth in (8, 9):
            items = sorted([".".join(path(k)), self.underlying_no(v, td) if ids else 0] for k, v in out.items(True, True))
            j = self.node_id(out)
            return ["object", j if (j is not None and ids) else -1, items]
        if meth == 5:
            return ["value", sorted([[k], ["l", 0]] for k in out)]
        if meth == 6:
            return ["value", sorted([path(k), ["l", 0]] for k in out)]
        if meth == 7:
            if out is None:
                return ["value", []]
            key = None
            rows = []
            for m_idx, member in enumerate(out.tensordicts):
                rows.append([[str(m_idx), "?"], ent(member)])
            return ["value7", sorted(r[1] for r in rows)]
        raise ValueError(meth)


def _noop(ev):
    pass


ALLOCATING = (4, 8, 9)


def register_result(impl, ev, rd):
    """a tensordict-valued read allocates an object on every computation: it gets the next id on both sides.  `_add_batch_dim`
    and `detach` return nested tensordicts; the model's result is flat, so the object is represented by a flat placeholder."""
    from tensordict import TensorDict
    out = impl._last_out
    src = impl.nodes[ev[1]]
    idx = len(impl.nodes)
    impl.results.add(idx)
    if ev[2] == 4:
        impl.nodes.append(out)
    else:
        flat = {}
        for k, v in out.items(True, True):
            no = impl.underlying_no(v, src)
            leaf = next((x for x in src.values(True, True) if isinstance(x, torch.Tensor) and impl.leaf_no.get(id(x)) == no), None)
            if leaf is not None:
                flat[".".join([k] if isinstance(k, str) else list(k))] = leaf
        ph = TensorDict({}, batch_size=[])
        for k, leaf in flat.items():
            ph._tensordict[k] = leaf            # (keep the very leaf objects: no copy, no validation)
        impl.alias[id(out)] = idx
        impl.keep.append(out)
        impl.nodes.append(ph)
    rd["result"] = impl.canon(src, ev[2], out)


def canon_model_read(meth, a):
    """model answer of a read -> (kind, canonical result)"""
    kind, res = a[0], a[1]
    if res[0] == "value":
        rows = [[[str(x) for x in p[0]], [p[1][0], p[1][1]]] for p in res[1]]
        if meth == 1:
            return kind, ["values", sorted(r[1] for r in rows)]
        if meth == 7:
            return kind, (["value7", sorted(r[1] for r in rows)] if rows else ["value", []])
        return kind, ["value", sorted(rows)]
    return kind, ["object", res[1], sorted([str(e[0]), e[1]] for e in res[2])]


LEAF_KEYS6 = ["a", "b", "nt"]


def refs_of(ev):
    """node ids an event touches"""
    k = ev[0]
    if k == "ctor":
        return [j for _, j in ev[1]]
    if k == "lazy":
        return list(ev[1])
    if k == "mut":
        return [ev[1]] + ([ev[5][2]] if ev[5][0] == "addkid" else [])
    if k in ("exit", "pickle"):
        return []
    if k in ("attr", "mmap"):
        return [ev[1]]
    return [ev[1]]


def adopted(ev):
    """nodes an event binds into another tensordict"""
    k = ev[0]
    if k == "ctor":
        return [j for _, j in ev[1]]
    if k == "lazy":
        return list(ev[1])
    if k == "mut" and ev[5][0] == "addkid":
        return [ev[5][2]]
    if k == "mutp" and ev[6][0] == "addkid":
        return [ev[6][2]]
    return []


def gen_event6(rng, impl: Impl6, obj_counter, leaf_fns):
    ev = _gen_event6(rng, impl, obj_counter, leaf_fns)
    # binding a *named* tensordict into another one is not a pure binding: `_validate_value` makes the container adopt the
    # names (walking down its other entries) or clones the value when the names clash -- outside the event machine
    named = [j for j in adopted(ev) if impl.nodes[j] is not None and impl.named(j)]
    if not named and ev[0] in ("mut", "mutp") and adopted(ev) and impl.named(ev[1]):
        named = [ev[1]]          # a named container clones an entry whose names differ
    if named:
        j = named[0]
        return ("read", j, 5 if impl.is_lazy(impl.nodes[j]) else 2, [])
    # the tensordicts returned by flatten_keys are only allocation placeholders here: they share their (non-tensor) leaves with
    # their source, and a NonTensorData shared by two locked containers is a lock dependency the model does not represent
    if ev[0] != "read" and any(j in impl.results for j in refs_of(ev)):
        live = [i for i, n in enumerate(impl.nodes) if n is not None and i not in impl.results and not impl.is_lazy(n)]
        if live:
            return ("read", rng.choice(live), 2, [])
        return ("exit",)
    return ev


def rebuild_ok(impl, i):
    """`_add_batch_dim` / `detach` are rendered by the leaves they wrap: needs a tensor leaf (vmap) and no non-tensor entry below"""
    from tensordict.utils import is_non_tensor
    sub = impl.reach(i)
    has_nt = any(is_non_tensor(v) for x in sub for _, v in impl.entries(x))
    has_leaf = any(isinstance(v, torch.Tensor) for x in sub for _, v in impl.entries(x))
    return has_leaf and not has_nt


def _gen_event6(rng, impl: Impl6, obj_counter, leaf_fns):
    """the C05 generator plus reads and rebinding writes"""
    live = [i for i, n in enumerate(impl.nodes) if n is not None and i not in impl.results]
    r = rng.random()
    if live and r < 0.12 and impl.recent:
        # repeat a recent read (that is what produces hits)
        ev = rng.choice([e for e in impl.recent[-6:] if e[2] != 7] or impl.recent[-6:])
        if ev[2] != 7 and impl.nodes[ev[1]] is not None and (ev[2] in (5, 7)) == impl.is_lazy(impl.nodes[ev[1]]) and \
                (ev[2] in (5, 7) or not any(impl.is_lazy(x) for x in impl.reach(ev[1]))) and \
                (ev[2] not in (8, 9) or rebuild_ok(impl, ev[1])):
            return ev
    if live and r < 0.40:
        locked = [i for i in live if impl.nodes[i].is_locked]
        i = rng.choice(locked) if locked and rng.random() < 0.7 else rng.choice(live)
        n = impl.nodes[i]
        if impl.is_lazy(n):
            if rng.random() < 0.5:
                ki = rng.randint(0, 2)
                ents = [m._tensordict.get(H5.KID_KEYS[ki]) if not impl.is_lazy(m) else "lazy" for m in n.tensordicts]
                # stacking the members' entries needs entries of one kind: plain tensordicts (or a member without the key)
                if all(e is None or (not isinstance(e, str) and not impl.is_lazy(e)) for e in ents):
                    return ("read", i, 7, [ki])      # entry access through the stack
            return ("read", i, 5, [])
        if any(impl.is_lazy(x) for x in impl.reach(i)):
            # the keys of a nested lazy stack are the keys shared by its members, not its members: outside the content model
            return ("read", i, 2, [])
        m = rng.choice([0, 0, 1, 1, 2, 3, 4, 6, 8, 8, 9])
        if m in (8, 9):
            # rebuilt tensordicts over the same storages: needs a tensor leaf (vmap) and no non-tensor entry below
            if not rebuild_ok(impl, i):
                m = 1
            elif m == 8:
                return ("read", i, 8, [0, rng.choice([1, 1, 2])])     # (torch.vmap normalises in_dims: -1 is keyed as 0)
            else:
                return ("read", i, 9, [])
        if m in (0, 1):
            return ("read", i, m, [rng.randint(0, 1), rng.randint(0, 1)])
        if m == 6:
            f = rng.choice(leaf_fns)
            return ("read", i, 6, [rng.randint(0, 1), rng.randint(0, 1), f])
        return ("read", i, m, [])
    if live and r < 0.44:
        from tensordict import NonTensorData
        # the first indexed write turns a NonTensorData into a NonTensorStack; later ones land on an entry that is a stack already and
        # rebind it again (`maybe_to_stack` builds a new stack): every one of them is a `rebind` of the model
        from tensordict.utils import is_non_tensor
        # (a stack that was created while its holder was unlocked and locked with it afterwards refuses the write: lock error, nothing to model)
        cands = [(i, "nt") for i in live if not impl.is_lazy(impl.nodes[i]) and not impl.is_tc(impl.nodes[i]) and is_non_tensor(impl.nodes[i]._tensordict.get("nt"))
                 and (type(impl.nodes[i]._tensordict.get("nt")) is NonTensorData or not impl.nodes[i]._tensordict.get("nt").is_locked)]
        if cands:
            i, k = rng.choice(sorted(cands))
            obj_counter[0] += 1
            return ("rebind", i, k, NT_BASE + obj_counter[0])
    if live and r < 0.52:
        ev = gen_attr(rng, impl, live, obj_counter)
        if ev is not None:
            return ev
    if live and r < 0.55:
        ev = gen_mmap(rng, impl, live, obj_counter)
        if ev is not None:
            return ev
    ev = H5.gen_event(rng, impl, obj_counter)
    # storage conversions rebind every leaf: not part of the C06 model (checked by the targeted scenarios)
    if ev[0] in ("memmap", "share", "pickle"):
        return ("lock", ev[1])
    if ev[0] == "ctor":
        # use the C06 leaf universe (a non-tensor entry now and then)
        leaves = []
        for k in rng.sample(LEAF_KEYS6, rng.randint(0, 2)):
            obj_counter[0] += 1
            leaves.append((k, obj_counter[0] + (NT_BASE if k == "nt" else 0), 0))
        return ("ctor", ev[1], leaves, ev[3])
    if ev[0] == "mut":
        eff = ev[5]
        td = impl.nodes[ev[1]]
        if eff[0] == "write" and not impl.is_lazy(td):
            v = td._tensordict.get(eff[1])
            if v is not None and not isinstance(v, torch.Tensor):
                return ("lock", ev[1])
        if eff[0] == "addleaf" and eff[1] == "c":
            return ("mut", ev[1], ev[2], ev[3], ev[4], ("addleaf", "b", eff[2]))
    return ev


FULL_DEPTH = 99


def gen_attr(rng, impl, live, obj_counter):
    """a metadata assignment (accepted whatever the lock): (attr i field value depth op); field 0 names, 1 batch size, 2 device"""
    locked = [i for i in live if impl.nodes[i].is_locked]
    i = rng.choice(locked) if locked and rng.random() < 0.8 else rng.choice(live)
    td = impl.nodes[i]
    if impl.is_tc(td):
        return None
    sub = impl.reach(i)
    if any(impl.is_tc(x) for x in sub):
        return None
    obj_counter[0] += 1
    v = obj_counter[0]
    op = rng.choice(["names_new", "names_new", "names_none", "batch", "device"])
    if op in ("names_new", "names_none"):
        if impl.names_of(td) is None or any(impl.names_of(x) is None for x in sub):
            return None          # a stack whose members disagree raises half-way through the walk
        if not impl.stacks_consistent_after(sub) or not impl.is_tree(i):
            return None          # (a tensordict reachable twice is renamed by the first path before the second one compares names)
        if op == "names_new":
            return ("attr", i, 0, v, FULL_DEPTH, op)
        return ("attr", i, 0, v, 1, op)
    if op == "batch":
        if impl.is_lazy(td):
            return None
        if td._has_names():
            # shrinking the batch size of a named tensordict pushes `names = None` one level down
            if any(impl.names_of(x) is None for x in sub) or not impl.stacks_consistent_after(sub) or not impl.is_tree(i):
                return None
            return ("attr", i, 1, v, 1, op)
        return ("attr", i, 1, v, 0, op)
    if any(impl.is_lazy(x) for x in sub):
        return None              # `_set_device` does not reach the members of a nested lazy stack
    return ("attr", i, 2, v, FULL_DEPTH, op)


def gen_mmap(rng, impl, live, obj_counter):
    """`memmap_(new_dir, copy_existing=True)` on a plain tensordict, locked or not, memory-mapped already or not"""
    from tensordict.utils import is_non_tensor
    cands = [i for i in live if not impl.is_lazy(impl.nodes[i]) and not impl.is_tc(impl.nodes[i])]
    if not cands:
        return None
    locked = [i for i in cands if impl.nodes[i].is_locked]
    i = rng.choice(locked) if locked and rng.random() < 0.8 else rng.choice(cands)
    sub = impl.reach(i)
    if any(impl.is_tc(x) or impl.is_lazy(x) for x in sub):
        return None
    if any(is_non_tensor(v) for x in sub for _, v in impl.entries(x)):
        return None
    if any(c is x for c in impl.ctx for x in sub):
        return None
    news = []
    for x in sub:
        j = impl.index_of(x)
        if j is None:
            return None
        for k, v in impl.entries(x):
            if isinstance(v, torch.Tensor):
                obj_counter[0] += 1
                news.append((j, k, obj_counter[0]))
    return ("mmap", i, news)


def ev_sx6(ev, addr_of):
    if ev[0] == "attr":
        return sx("attr", ev[1], ev[2], ev[3], ev[4])
    if ev[0] == "mmap":
        return "(mmap %d (%s))" % (ev[1], " ".join("(%d %s %d)" % (j, k, no) for j, k, no in ev[2]))
    if ev[0] == "read":
        args = []
        for a in ev[3]:
            if callable(a):
                args.append(["obj", addr_of[id(a)][0], addr_of[id(a)][1]])
            else:
                args.append(int(a))
        return sx("read", ev[1], ev[2], *args)
    if ev[0] == "rebind":
        return sx("rebind", ev[1], ev[2], ev[3])
    return H5.ev_sx(ev)


def leaf_functions():
    """`is_leaf` callables with an identity (even = default behaviour, odd = every collection is a leaf) and their addresses"""
    from tensordict.base import _default_is_leaf
    from tensordict.base import _is_tensor_collection

    def f_default(cls):
        return _default_is_leaf(cls)

    def f_all(cls):
        return True
    fns = [f_default, f_all]
    addr_of = {id(f_default): (2, id(f_default) % 1000003), id(f_all): (3, id(f_all) % 1000003)}
    return fns, addr_of


def run_history6(rng, drv, n_events, scratch: Path):
    impl = Impl6(scratch)
    obj_counter = [0]
    fns, addr_of = leaf_functions()
    evs, answers = [], []
    for _ in range(n_events):
        ev = gen_event6(rng, impl, obj_counter, fns)
        if ev[0] == "read":
            n_before = len(impl.nodes)
            try:
                rd = impl.read(ev)
            except Exception as e:  # noqa
                rd = {"kind": "error:" + type(e).__name__ + ":" + str(e)[:80], "result": None, "stale": None, "twin": None}
            # a tensordict-valued read allocates an object on every computation: it gets the next id on both sides
            # (a hit on an object the harness has not seen: memoised by an internal call, e.g. `_add_batch_dim` of the holder)
            if ev[2] in ALLOCATING and rd["result"] is not None and (rd["kind"] != "hit" or impl.node_id(impl._last_out) is None):
                register_result(impl, ev, rd)
            rd["caches"] = impl.cache_nonempty()
            evs.append(ev)
            impl.recent.append(ev)
            answers.append(("read", rd))
            continue
        out = impl.run(ev)
        evs.append(ev)
        answers.append(("view", [out, impl.view()], impl.cache_nonempty()))
    impl.ctx.clear()
    line = "(c06.run " + " ".join(ev_sx6(e, addr_of) for e in evs) + ")"
    ans = parse_sx(drv.ask(line))
    return evs, answers, ans, addr_of


# keep the last object returned by a read reachable for the allocation bookkeeping
_orig_call = Impl6.call


def _call_keep(self, td, meth, args):
    out = _orig_call(self, td, meth, args)
    if meth in ALLOCATING and M.ENABLED:
        self._last_out = out
    return out


Impl6.call = _call_keep


def replay_events6(drv, texts, scratch: Path):
    """--replay / corpus: run a fixed C06 event list on both sides -> [(text, kind, impl answer, model answer)]"""
    impl = Impl6(scratch)
    fns, addr_of = leaf_functions()
    by_oid = {addr_of[id(f)][0] % 2: f for f in fns}
    evs = []
    for t in texts:
        p = parse_sx(t)
        if p[0] == "read":
            args = [by_oid[a[1] % 2] if isinstance(a, list) else a for a in p[3:]]
            evs.append(("read", p[1], p[2], args))
        elif p[0] == "rebind":
            evs.append(("rebind", p[1], str(p[2]), p[3]))
        elif p[0] == "attr":
            # the operation is a function of (field, depth): names_new = full depth, names_none = one level, …
            f, d = p[2], p[4]
            op = {0: "names_new" if d > 1 else "names_none", 1: "batch", 2: "device"}[f]
            evs.append(("attr", p[1], f, p[3], d, op))
        elif p[0] == "mmap":
            evs.append(("mmap", p[1], [(e[0], str(e[1]), e[2]) for e in p[2]]))
        else:
            evs.append(H5.sx_to_ev(t))
    rows = []
    for ev in evs:
        if ev[0] == "read":
            try:
                rd = impl.read(ev)
            except Exception as e:  # noqa
                rd = {"kind": "error:" + type(e).__name__, "result": None, "stale": None, "twin": None}
            if ev[2] in ALLOCATING and rd["result"] is not None and (rd["kind"] != "hit" or impl.node_id(impl._last_out) is None):
                register_result(impl, ev, rd)
            rd["caches"] = impl.cache_nonempty()
            rows.append(("read", rd))
        else:
            rows.append(("view", [impl.run(ev), impl.view()], impl.cache_nonempty()))
    ans = parse_sx(drv.ask("(c06.run " + " ".join(ev_sx6(e, addr_of) for e in evs) + ")"))
    impl.ctx.clear()
    return evs, rows, ans, addr_of
