"""C05 reflection sweep: every public callable of every container class on a locked tree.

Subjects (one fresh pair per call: locked subject + unlocked twin with the same content):
  td      TensorDict, three levels deep, with a non-tensor entry
  lazy    LazyStackedTensorDict of two nested TensorDicts (locked through the stack)
  sub     _SubTensorDict view of a TensorDict (locked through its source)
  params  TensorDictParams over a nested TensorDict
  tc      a tensorclass with a tensor field, a nested-TensorDict field and a string field
  nts     NonTensorStack
Snapshot of a subject = for every tensor collection reachable from it (walked through the private
storage dicts so that the walk itself calls no public method): is_locked, and for every entry the key,
the identity of the bound object and, for tensors, data_ptr.  Value writes change none of that.
"""
from __future__ import annotations

import gc
import inspect
import shutil
import tempfile
import warnings
from pathlib import Path

import torch

from common import err_class, time_limit

warnings.filterwarnings("ignore")

KINDS = ["td", "lazy", "sub", "params", "tc", "nts", "shared", "lazymix"]
# "shared":  the subject is an UNLOCKED tensordict that holds, under "s", a node it shares with a LOCKED root; the snapshot is the
#            locked root's tree: whatever is called on the unlocked holder (nested keys included), the locked tree must stay as it was
# "lazymix": the subject is a lazy stack (not locked: one member is unlocked) over an unlocked and a LOCKED member; snapshot = the locked member

_TC = None


def tc_class():
    global _TC
    if _TC is None:
        from tensordict import TensorDict, tensorclass

        from typing import Optional

        @tensorclass
        class C05TC:
            a: torch.Tensor
            n: TensorDict
            s: str = "x"
            o: Optional[torch.Tensor] = None      # a field that holds None (a placeholder in `_non_tensordict`)

        _TC = C05TC
    return _TC


def _nested(bs=(3,)):
    from tensordict import TensorDict
    z = lambda *s: torch.zeros(*bs, *s)
    return TensorDict({"a": z(), "b": TensorDict({"c": z(2), "d": TensorDict({"e": z()}, bs)}, bs), "f": z(2)}, bs)


def make(kind: str, lock: bool):
    """-> (subject, root_for_walk, list_of_strong_refs)"""
    from tensordict import LazyStackedTensorDict, NonTensorData, NonTensorStack, TensorDict
    keep = []
    if kind == "td":
        td = _nested()
        td.set_non_tensor("nt", "hello")
        td["emp"] = TensorDict({}, [3])          # an empty nested tensordict (filter_empty_)
        td["x.y"] = torch.zeros(3)               # a dotted key (unflatten_keys)
        if lock:
            td.lock_()
        return td, td, keep
    if kind == "lazy":
        L = LazyStackedTensorDict(_nested(), _nested(), stack_dim=0)
        if lock:
            L.lock_()
        return L, L, keep
    if kind == "sub":
        src = _nested((4,))
        if lock:
            src.lock_()
        sub = src._get_sub_tensordict(torch.tensor([0, 2]))
        keep.append(src)
        return sub, src, keep
    if kind == "params":
        from tensordict.nn import TensorDictParams
        p = TensorDictParams(TensorDict({"a": torch.zeros(3), "b": TensorDict({"c": torch.zeros(3, 2)}, [])}, []), no_convert=True)
        if lock:
            p.lock_()
        return p, p, keep
    if kind == "tc":
        TC = tc_class()
        tc = TC(a=torch.zeros(3), n=_nested(), s="x", batch_size=[3])
        if lock:
            tc.lock_()
        return tc, tc, keep
    if kind == "shared":
        shared = _nested()
        locked_root = TensorDict({"s": shared, "x": torch.zeros(3)}, [3])
        other = TensorDict({"s": shared, "y": torch.zeros(3), "a": torch.zeros(3)}, [3])
        if lock:
            locked_root.lock_()
        keep.append(locked_root)
        return other, locked_root, keep
    if kind == "lazymix":
        m_free, m_locked = _nested(), _nested()
        if lock:
            m_locked.lock_()
        L = LazyStackedTensorDict(m_free, m_locked, stack_dim=0)
        return L, m_locked, keep
    if kind == "nts":
        s = NonTensorStack(NonTensorData("p"), NonTensorData("q"), stack_dim=0)
        if lock:
            s.lock_()
        return s, s, keep
    raise ValueError(kind)


def _is_coll(v):
    from tensordict.base import _is_tensor_collection
    return _is_tensor_collection(type(v))


def snapshot(root, with_lock=True):
    """canonical nested tuple; walks private storage only"""
    from tensordict import LazyStackedTensorDict, TensorDict
    from tensordict._td import _SubTensorDict
    from tensordict.nn import TensorDictParams
    seen = {}

    def leaf(v):
        if isinstance(v, torch.Tensor):
            try:
                return ("t", id(v), v.data_ptr())
            except Exception:
                return ("t", id(v), -1)
        return ("o", id(v))

    def walk(n, depth=0):
        if depth > 8:
            return ("deep",)
        lk = bool(n.is_locked) if with_lock else None
        d = getattr(n, "__dict__", {})
        if isinstance(n, TensorDictParams):
            return ("params", lk, walk(d["_param_td"], depth + 1))
        if isinstance(n, _SubTensorDict):
            return ("sub", lk, walk(n._source, depth + 1))
        if isinstance(n, LazyStackedTensorDict):
            return ("lazy", lk, n._is_locked if with_lock else None, tuple((id(m), walk(m, depth + 1)) for m in n.tensordicts))
        if isinstance(n, TensorDict):
            items = []
            for k, v in n._tensordict.items():
                items.append((k, ("n", id(v), walk(v, depth + 1)) if _is_coll(v) else leaf(v)))
            return ("td", lk, tuple(sorted(items, key=lambda e: e[0])))
        if "_tensordict" in d:  # tensorclass / NonTensorData
            # non-tensor payloads are *values* (they have no in-place write): only the field names belong to the structure
            nt = tuple(sorted(d.get("_non_tensordict", {}).keys()))
            # every declared field must stay readable (a refused call may not make a field disappear)
            fields = tuple(sorted(getattr(type(n), "__expected_keys__", ()) or ()))
            readable = []
            for f in fields:
                try:
                    getattr(n, f)
                    readable.append((f, True))
                except Exception:  # noqa
                    readable.append((f, False))
            return ("tc", lk, id(d["_tensordict"]), walk(d["_tensordict"], depth + 1), nt + tuple(readable))
        return ("other", type(n).__name__)

    return walk(root)


def meta_snapshot(root):
    """dimension names, batch size and device of every tensordict of the tree (private storage only).  Metadata may be
    assigned under lock; a *refused* call, however, must leave it as it was (e.g. `locked[key] = named_td` used to make the
    locked tensordict adopt the names of the value before the write was refused)."""
    from tensordict import LazyStackedTensorDict, TensorDict
    out = []

    def walk(n, path, depth=0):
        if depth > 8:
            return
        d = getattr(n, "__dict__", {})
        if isinstance(n, LazyStackedTensorDict):
            out.append((path, "lazy", n._td_dim_name, tuple(n._batch_size) if getattr(n, "_batch_size", None) is not None else None))
            for k, m in enumerate(n.tensordicts):
                walk(m, f"{path}/{k}", depth + 1)
        elif isinstance(n, TensorDict):
            names = n._td_dim_names
            out.append((path, "td", tuple(names) if names is not None else None, tuple(n._batch_size), str(n._device)))
            for k, v in n._tensordict.items():
                if _is_coll(v):
                    walk(v, f"{path}/{k}", depth + 1)
        elif "_param_td" in d:
            walk(d["_param_td"], path + "/params", depth + 1)
        elif "_source" in d:
            walk(d["_source"], path + "/source", depth + 1)
        elif "_tensordict" in d:
            walk(d["_tensordict"], path + "/td", depth + 1)
    walk(root, "")
    return tuple(out)


def diff_paths(a, b, path="") -> list[str]:
    """human-readable first differences between two snapshots"""
    if a == b:
        return []
    if type(a) is not type(b) or not isinstance(a, tuple) or len(a) != len(b):
        return [f"{path}: {str(a)[:80]} -> {str(b)[:80]}"]
    out = []
    for i, (x, y) in enumerate(zip(a, b)):
        out += diff_paths(x, y, f"{path}/{x[0] if isinstance(x, tuple) and x and isinstance(x[0], str) else i}")
        if len(out) > 3:
            break
    return out


# --------------------------------------------------------------------------- argument synthesis
SKIP = {
    # distributed / multi-process primitives: need a process group or spawn pools (never terminate here)
    "send": "distributed", "recv": "distributed", "isend": "distributed", "irecv": "distributed",
    "init_remote": "distributed", "from_remote_init": "distributed", "reduce": "distributed",
    "gather_and_stack": "distributed", "map": "process pool", "map_iter": "process pool",
}


class Scratch:
    def __init__(self):
        self.dir = Path(tempfile.mkdtemp(prefix="c05_"))
        self.n = 0

    def path(self, suffix=""):
        self.n += 1
        return str(self.dir / f"p{self.n}{suffix}")

    def close(self):
        shutil.rmtree(self.dir, ignore_errors=True)


def _like(subject, kind):
    """a value with the structure of the subject (for update/copy_/…); fresh storage"""
    s, _, _ = make(kind, lock=False)
    try:
        return s.to_tensordict() if kind in ("sub", "params") else s
    except Exception:
        return s


def synth_arg(name: str, p: inspect.Parameter, subject, kind, scratch: Scratch, new_key: bool):
    """value for one required parameter, chosen by its name"""
    from tensordict import TensorDict
    bs = tuple(subject.batch_size) if hasattr(subject, "batch_size") else ()
    key = "zz" if new_key else ("a" if kind != "nts" else "data")
    n = name.lstrip("_")
    if n in ("key", "old_key", "in_key", "name", "item"):
        return key if n != "old_key" else "a"
    if n in ("new_key", "out_key"):
        return "zz"
    if n in ("keys", "in_keys", "out_keys", "keys_to_update", "sorting_keys", "key_list"):
        return [key]
    if n in ("value", "tensor", "item_value", "val", "values", "default"):
        return torch.ones(*bs) if bs else torch.ones(())
    if n in ("other", "input_dict_or_td", "input_dict", "source", "src", "tensordict", "td", "input", "end", "tensor1", "tensor2", "dest", "mask_td"):
        return _like(subject, kind)
    if n in ("dim", "dim0", "dim1", "stack_dim", "start_dim", "axis", "dims"):
        return 0
    if n in ("index", "idx", "indices"):
        return 0
    if n in ("shape", "size", "batch_size", "sizes", "unflattened_size"):
        return list(bs)
    if n in ("fn", "func", "function", "callable", "hook"):
        return lambda *a, **k: a[0] if a else None
    if n in ("dtype",):
        return torch.float32
    if n in ("device", "dest_device"):
        return "cpu"
    if n in ("prefix", "path", "filename", "file", "dumps_dir"):
        return scratch.path()
    if n in ("separator", "sep"):
        return "."
    if n in ("names",):
        return [None] * len(bs)
    if n in ("mask",):
        return torch.ones(*bs, dtype=torch.bool) if bs else torch.tensor(True)
    if n in ("module", "model"):
        return torch.nn.Linear(1, 1)
    if n in ("weight", "alpha", "min", "max", "exponent", "p", "scale", "fill_value", "num", "n", "chunks", "split_size", "repeats", "num_chunks", "k", "ord"):
        return 1
    if n in ("state_dict",):
        try:
            return subject.state_dict()
        except Exception:
            return {}
    if n in ("inplace",):
        return True
    return 1


def candidates(cls, name: str, fn, subject, kind, scratch: Scratch):
    """list of (variant_tag, args, kwargs) to try for one public callable"""
    try:
        sig = inspect.signature(fn)
    except (TypeError, ValueError):
        return [("noargs", (), {})]
    params = [p for p in sig.parameters.values() if p.name not in ("self", "cls")]
    has_inplace = any(p.name == "inplace" for p in params)
    out = []
    for new_key in (True, False):
        args, kwargs = [], {}
        for p in params:
            if p.kind in (p.VAR_POSITIONAL, p.VAR_KEYWORD):
                if p.kind == p.VAR_POSITIONAL and p.name in ("keys", "args", "batch_size", "shape", "dims", "names", "sizes", "others"):
                    v = synth_arg(p.name if p.name != "args" else "key", p, subject, kind, scratch, new_key)
                    args += list(v) if isinstance(v, list) else [v]
                continue
            if p.default is not inspect._empty:
                continue
            v = synth_arg(p.name, p, subject, kind, scratch, new_key)
            if p.kind == p.KEYWORD_ONLY:
                kwargs[p.name] = v
            else:
                args.append(v)
        tag = "new" if new_key else "old"
        out.append((tag, tuple(args), dict(kwargs)))
        if has_inplace:
            out.append((tag + "+inplace", tuple(args), {**kwargs, "inplace": True}))
    # de-duplicate identical candidates (methods without key parameters)
    seen, uniq = set(), []
    for tag, a, k in out:
        sig_ = (tag.split("+")[1:] and "inplace" or "", repr([type(x).__name__ if not isinstance(x, (str, int, list)) else x for x in a]), repr(sorted(k)))
        if sig_ in seen:
            continue
        seen.add(sig_)
        uniq.append((tag, a, k))
    return uniq


# hand-written calls for the structural mutators (valid arguments: on an unlocked twin they DO change the structure)
def hand_calls(kind: str, subject):
    bs = tuple(subject.batch_size)
    one = lambda: torch.ones(*bs) if bs else torch.ones(())
    from tensordict import TensorDict
    existing = {"td": "a", "lazy": "a", "sub": "a", "params": "a", "tc": "a", "nts": "data", "shared": "a", "lazymix": "a"}[kind]
    nested_existing = {"td": ("b", "c"), "lazy": ("b", "c"), "sub": ("b", "c"), "params": ("b", "c"), "tc": ("n", "a"), "nts": None,
                       "shared": ("s", "a"), "lazymix": ("b", "c")}[kind]
    calls = [
        ("set", ("zz", one()), {}), ("set", (existing, one()), {}), ("set", (("zn", "zz"), one()), {}),
        ("__setitem__", ("zz", one()), {}), ("__setitem__", (existing, one()), {}),
        # a value that carries dimension names: the container adopts them while validating the value, i.e. before the lock is tested
        ("set", ("zz", "<named_td>"), {}), ("__setitem__", ("zz", "<named_td>"), {}), ("update", ({"zz": "<named_td>"},), {}),
        ("setdefault", ("zz", "<named_td>"), {}),
        ("setdefault", ("zz", one()), {}),
        ("update", ({"zz": one()},), {}), ("update", ({existing: one()},), {}),
        ("update", ({"zz": one()},), {"inplace": True}),
        ("set_non_tensor", ("zz", "v"), {}),
        ("create_nested", ("zz",), {}),
        ("del_", (existing,), {}), ("__delitem__", (existing,), {}), ("pop", (existing,), {}),
        ("popitem", (), {}), ("clear", (), {}),
        ("rename_key_", (existing, "zz"), {}),
        ("select", (existing,), {"inplace": True}), ("exclude", (existing,), {"inplace": True}),
        ("empty", (), {}),
        ("flatten_keys", (), {"inplace": True}), ("unflatten_keys", (), {"inplace": True}),
        ("filter_empty_", (), {}), ("filter_non_tensor_data", (), {}),
        ("load_state_dict", ("<state_dict>",), {"assign": True}), ("load_state_dict", ("<state_dict>",), {}),
        ("cat_tensors", (existing, "f") if kind in ("td", "lazy", "sub") else (existing,), {"out_key": "zz", "dim": -1} if kind in ("td", "lazy", "sub") else {}),
        ("separates", (existing,), {}),
        ("replace", ({"zz": one()},), {}),
        ("apply_", (lambda x: x + 1,), {}), ("apply", (lambda x: x + 1,), {"inplace": True}),
        ("named_apply", (lambda k, x: x + 1,), {"inplace": True}),
        ("update_", ({existing: one()},), {}), ("set_", (existing, one()), {}),
        ("set_at_", (existing, torch.ones(()), 0), {}), ("update_at_", ({existing: torch.ones(())}, 0), {}),
        ("__setitem__", (0, {existing: torch.ones(())}), {}),
        ("fill_", (existing, 2.0), {}), ("zero_", (), {}), ("copy_", (None,), {}),
        ("masked_fill_", (torch.ones(*bs, dtype=torch.bool) if bs else torch.tensor(True), 1.0), {}),
        ("add_", (1.0,), {}), ("mul_", (2.0,), {}),
    ]
    # in-place value writes that the property promises stay possible under lock (oracle: must return normally on the locked subject)
    calls += [("set", (existing, one()), {"inplace": True}), ("update", ({existing: one()},), {"inplace": True}),
              ("set_", (existing, one()), {"__must_ok__": True}), ("update_", ({existing: one()},), {"__must_ok__": True}),
              ("fill_", (existing, 3.0), {"__must_ok__": True}), ("zero_", (), {"__must_ok__": True}),
              ("apply_", (lambda x: x + 1,), {"__must_ok__": True}), ("apply", (lambda x: x + 1,), {"inplace": True, "__must_ok__": True})]
    calls = [(n, a, ({**k, "__must_ok__": True} if (n in ("set", "update") and k.get("inplace") and (a and (a[0] == existing or (isinstance(a[0], dict) and existing in a[0])))) else k)) for n, a, k in calls]
    if nested_existing:
        calls += [("set", (nested_existing[:-1] + ("zz",), torch.ones(*bs, 2) if kind != "tc" else one()), {}),
                  ("set", (nested_existing[:-1] + ("zn",), "<named_td>"), {}),
                  ("del_", (nested_existing,), {}), ("exclude", (nested_existing,), {"inplace": True}),
                  ("pop", (nested_existing,), {}),
                  ("rename_key_", (nested_existing, nested_existing[:-1] + ("zz",)), {})]
    if kind == "shared":
        # every route from the unlocked holder into the node it shares with the locked root
        two = lambda: torch.ones(*bs, 2)
        calls += [("set", (("s", "zz"), one()), {}), ("set", (("s", "a"), one()), {}), ("__setitem__", (("s", "zz"), one()), {}),
                  ("setdefault", (("s", "zz"), one()), {}), ("set_non_tensor", (("s", "zz"), "v"), {}), ("create_nested", (("s", "zz"),), {}),
                  ("del_", (("s", "a"),), {}), ("__delitem__", (("s", "a"),), {}), ("pop", (("s", "a"),), {}),
                  ("del_", (("s", "b", "c"),), {}), ("pop", (("s", "b", "d", "e"),), {}),
                  ("rename_key_", (("s", "a"), ("s", "zz")), {}), ("rename_key_", (("s", "b", "c"), ("s", "b", "zz")), {}),
                  ("exclude", (("s", "a"),), {"inplace": True}), ("exclude", (("s", "b", "c"),), {"inplace": True}),
                  ("select", (("s", "a"),), {"inplace": True}), ("select", ("y", ("s", "b", "d")), {"inplace": True}),
                  ("update", ({"s": {"zz": one()}},), {}), ("update", ({("s", "zz"): one()},), {}), ("update", ({"s": {"a": one()}},), {}),
                  ("update", ({"s": {"b": {"zz": two()}}},), {}), ("split_keys", ([("s", "a")],), {"inplace": True}),
                  ("set_", (("s", "a"), one()), {"__must_ok__": True}), ("update_", ({"s": {"a": one()}},), {"__must_ok__": True}),
                  ("set", (("s", "a"), one()), {"inplace": True, "__must_ok__": True})]
    if kind in ("lazy", "nts"):
        calls += [("append", (None,), {}), ("insert", (0, None), {})]
    if kind == "lazy":
        # a source stack with fewer members: `update(..., update_batch_size=True)` re-initialises the destination
        calls += [("update", ("<lazy_fewer>",), {"update_batch_size": True}),
                  ("update", ("<lazy_fewer>",), {"inplace": True, "update_batch_size": True})]
    if kind == "tc":
        calls += [("__setattr__", ("a", one()), {}), ("__setattr__", ("zz", one()), {}), ("__setattr__", ("s", "y"), {}),
                  # the field that currently holds None: every way of giving it a value is a structural change
                  ("set", ("o", one()), {}), ("set", ("o", one()), {"inplace": True}), ("__setattr__", ("o", one()), {}),
                  ("update", ({"o": one()},), {}), ("update", ({"o": one()},), {"inplace": True}),
                  ("set", ("s", "y"), {"inplace": True}), ("set", ("s", "y"), {})]
    return calls


def public_callables(cls):
    out = []
    for n in sorted(set(dir(cls))):
        if n.startswith("_") and n not in ("__setitem__", "__delitem__", "__setattr__", "__delattr__", "__ior__", "__iadd__", "__isub__", "__imul__", "__itruediv__", "__ipow__", "__iand__", "__ixor__", "__enter__", "__exit__", "__setstate__"):
            continue
        try:
            st = inspect.getattr_static(cls, n)
        except AttributeError:
            continue
        if isinstance(st, property):
            out.append((n, "property"))
        elif isinstance(st, (classmethod, staticmethod)):
            out.append((n, "classmethod"))
        elif callable(getattr(cls, n, None)):
            out.append((n, "method"))
    return out


def _named_td(subject):
    from tensordict import TensorDict
    bs = tuple(subject.batch_size)
    return TensorDict({"x": torch.ones(*bs) if bs else torch.ones(())}, batch_size=list(bs), names=[f"dim{k}" for k in range(len(bs))] or None)


def invoke(subject, name, args, kwargs, kind, limit=3.0):
    """-> outcome string: ok | lock | key | type | value | runtime | other | timeout | index"""
    try:
        fn = getattr(subject, name)
    except Exception as e:  # noqa
        return "noattr"
    a = list(args)
    # placeholders
    for i, x in enumerate(a):
        if isinstance(x, str) and x == "<state_dict>":
            a[i] = make(kind, False)[0].state_dict()
        if isinstance(x, str) and x == "<named_td>":
            a[i] = _named_td(subject)
        if isinstance(x, dict) and any(isinstance(v, str) and v == "<named_td>" for v in x.values()):
            a[i] = {k: (_named_td(subject) if isinstance(v, str) and v == "<named_td>" else v) for k, v in x.items()}
        if isinstance(x, str) and x == "<lazy_fewer>":
            from tensordict import LazyStackedTensorDict
            a[i] = LazyStackedTensorDict(_nested(), stack_dim=0)
        if x is None and name in ("copy_", "append", "insert"):
            a[i] = _like(subject, kind) if name == "copy_" else (make(kind, False)[0].tensordicts[0] if hasattr(subject, "tensordicts") else _like(subject, kind))
    try:
        with time_limit(limit):
            fn(*a, **kwargs)
        return "ok"
    except BaseException as e:  # noqa
        if isinstance(e, (KeyboardInterrupt, SystemExit)):
            raise
        return err_class(e)
