"""C05 — regenerate lean/TdVerif/Gen/LockTable.lean from the working tree.

Two tables are extracted from the *source* (ast) joined with *reflection* (which function object a
public name resolves to in each container class):

  directGuards : every method that is `@lock_blocked` or contains `if … is_locked …: raise`,
                 per (file, class, method)                                   [pure ast]
  api          : for each container class, every public callable / settable property, with the hand
                 classification of harness/c05_api_classes.json (structural | exempt | lockapi | frame;
                 a name missing there is `unknown`) and, for structural mutators, the guard found by
                 following `self.<method>(…)` calls (depth ≤ 4) from the resolved function to a
                 directly guarded one                                       [reflection + ast]

The call-graph walk is a *may* analysis (a guarded callee on some path counts); it is what ties the
table to the code, the behavioural sweep is what checks every path that the synthesised calls take.
"""
from __future__ import annotations

import ast
import inspect
import json
from pathlib import Path

from common import REPO

FILES = ["tensordict/base.py", "tensordict/_td.py", "tensordict/_lazy.py", "tensordict/persistent.py",
         "tensordict/nn/params.py", "tensordict/tensorclass.py", "tensordict/utils.py"]
HERE = Path(__file__).resolve().parent
CLASSES_JSON = HERE / "c05_api_classes.json"

EXTRA_DUNDERS = ("__setitem__", "__delitem__", "__setattr__", "__delattr__")


class Src:
    def __init__(self):
        self.funcs = {}      # (relfile, qualname) -> [ast.FunctionDef]
        self.toplevel_classes = {}
        for rel in FILES:
            tree = ast.parse((REPO / rel).read_text())
            self.toplevel_classes[rel] = {n.name for n in tree.body if isinstance(n, ast.ClassDef)}
            self._walk(rel, tree, "")
        self.gdecos = guard_decorators(self)

    def _walk(self, rel, node, prefix):
        for ch in ast.iter_child_nodes(node):
            if isinstance(ch, ast.ClassDef):
                self._walk(rel, ch, prefix + ch.name + ".")
            elif isinstance(ch, (ast.FunctionDef, ast.AsyncFunctionDef)):
                self.funcs.setdefault((rel, prefix + ch.name), []).append(ch)
                self._walk(rel, ch, prefix + ch.name + ".")   # closures (generated wrappers) are indexed as outer.inner
            elif isinstance(ch, (ast.If, ast.Try, ast.With, ast.For, ast.While)):
                self._walk(rel, ch, prefix)


def _deco_names(fn: ast.FunctionDef):
    out = []
    for d in fn.decorator_list:
        t = d.func if isinstance(d, ast.Call) else d
        out.append(t.attr if isinstance(t, ast.Attribute) else getattr(t, "id", "?"))
    return out


def _mentions_lock(expr: ast.AST) -> bool:
    for n in ast.walk(expr):
        if isinstance(n, ast.Attribute) and n.attr in ("is_locked", "_is_locked"):
            return True
        if isinstance(n, ast.Name) and n.id in ("is_locked", "_is_locked"):
            return True
    return False


def own_nodes(fn: ast.FunctionDef):
    """nodes of the function body, not descending into nested function definitions"""
    todo = list(fn.body)
    while todo:
        n = todo.pop()
        yield n
        for ch in ast.iter_child_nodes(n):
            if not isinstance(ch, (ast.FunctionDef, ast.AsyncFunctionDef, ast.Lambda)):
                todo.append(ch)


def guard_decorators(src: "Src") -> set:
    """module-level decorators whose wrapper raises when the lock is set -> bypassable by keyword?
    (`lock_blocked`: True; nn/params.py `_unlock_and_set`: False)"""
    out = {}
    for (rel, q), fns in src.funcs.items():
        parts = q.split(".")
        # a module-level function, or a method of a module-level class (class-based decorator: `__call__`)
        if len(parts) > 2 or (len(parts) == 2 and parts[0] not in src.toplevel_classes.get(rel, ())):
            continue
        for fn in fns:
            inner = [n for n in ast.walk(fn) if isinstance(n, ast.FunctionDef) and n is not fn]
            for i in inner:
                if explicit_guard(i):
                    # a wrapper whose lock test also looks at **kwargs (inplace= / ignore_lock=) can be switched off
                    byp = any(isinstance(n, ast.If) and _mentions_lock(n.test) and any(isinstance(x, ast.Name) and x.id == "kwargs" for x in ast.walk(n.test))
                              for n in own_nodes(i))
                    out[parts[0]] = out.get(parts[0], False) or byp
    return out


def explicit_guard(fn: ast.FunctionDef) -> bool:
    """an `if` whose test reads the lock and whose body raises"""
    for n in own_nodes(fn):
        if isinstance(n, ast.If) and _mentions_lock(n.test):
            if any(isinstance(b, ast.Raise) for s in n.body for b in ast.walk(s)):
                return True
    return False


# receivers that are plain containers, never tensor collections
PLAIN_NAMES = {"_tensordict", "d", "kwargs", "source", "state", "metadata", "cache", "keys", "out_dict", "sub_tds",
               "keys_to_select", "keys_to_exclude", "tensordicts", "futures", "results", "names", "args", "items"}
# attributes of `self` that hold the tensor collection a wrapper class delegates to
DELEGATES = {"_source", "_param_td", "data"}
DELEGATES_BY_CLASS = {"tensorclass": {"_tensordict"}, "NonTensorStack": set(), "NonTensorData": {"_tensordict"}}


def _receiver_kind(v, cname) -> str:
    """'self' | 'member' (another tensor collection, resolved in TensorDict) | 'plain' (ignored)"""
    if isinstance(v, ast.Name):
        if v.id in ("self", "_self", "cls"):
            return "self"
        return "plain" if v.id in PLAIN_NAMES else "member"
    if isinstance(v, ast.Call) and isinstance(v.func, ast.Name) and v.func.id == "super":
        return "self"
    if isinstance(v, ast.Attribute) and isinstance(v.value, ast.Name) and v.value.id in ("self", "_self"):
        return "member" if (v.attr in DELEGATES or v.attr in DELEGATES_BY_CLASS.get(cname, ())) else "plain"
    return "plain"


def calls(fn: ast.FunctionDef, cname: str = "") -> list[tuple[bool, str]]:
    """(on_self, m) for every call X.m(…) in the body whose receiver can be a tensor collection;
    `X[k] = v` / `del X[k]` count as __setitem__/__delitem__"""
    out = []
    for n in own_nodes(fn):
        if isinstance(n, ast.Call) and isinstance(n.func, ast.Attribute):
            kind = _receiver_kind(n.func.value, cname)
            if kind != "plain":
                out.append((kind == "self", n.func.attr))
        elif isinstance(n, ast.Subscript) and isinstance(n.ctx, (ast.Store, ast.Del)):
            kind = _receiver_kind(n.value, cname)
            if kind != "plain":
                out.append((kind == "self", "__setitem__" if isinstance(n.ctx, ast.Store) else "__delitem__"))
    return out


def super_calls(fn: ast.FunctionDef) -> list[str]:
    out = []
    for n in own_nodes(fn):
        if isinstance(n, ast.Call) and isinstance(n.func, ast.Attribute):
            v = n.func.value
            if isinstance(v, ast.Call) and isinstance(v.func, ast.Name) and v.func.id == "super":
                out.append(n.func.attr)
    return out


def is_decorated(src: Src, fn: ast.FunctionDef) -> bool:
    """carries a guard decorator (of either kind)"""
    return any(d in src.gdecos for d in _deco_names(fn))


def deco_kinds(src: Src, fn: ast.FunctionDef):
    """(has a keyword-bypassable guard decorator, has a non-bypassable one)"""
    ds = [d for d in _deco_names(fn) if d in src.gdecos]
    return any(src.gdecos[d] for d in ds), any(not src.gdecos[d] for d in ds)


def direct_guards(src: Src):
    rows = []
    for (rel, q), fns in sorted(src.funcs.items()):
        for fn in fns:
            dec, hard = deco_kinds(src, fn)
            exp = explicit_guard(fn) or hard
            if dec or exp:
                rows.append((rel, q, dec, exp))
    return rows


def container_classes():
    import tensordict  # noqa
    from tensordict import LazyStackedTensorDict, NonTensorStack, TensorDict
    from tensordict._td import _SubTensorDict
    from tensordict.nn import TensorDictParams
    import c05_sweep
    return {"TensorDict": TensorDict, "LazyStackedTensorDict": LazyStackedTensorDict, "_SubTensorDict": _SubTensorDict,
            "TensorDictParams": TensorDictParams, "tensorclass": c05_sweep.tc_class(), "NonTensorStack": NonTensorStack}


def _code_key(f):
    code = getattr(f, "__code__", None)
    if code is None:
        return None
    try:
        rel = str(Path(code.co_filename).resolve().relative_to(REPO.resolve()))
    except ValueError:
        return None
    return rel, code.co_qualname.replace("<locals>.", "")


def _key_of_static(st):
    if isinstance(st, property):
        st = st.fset or st.fget
    if isinstance(st, (classmethod, staticmethod)):
        st = st.__func__
    # follow functools.wraps chains; keep the innermost function that lives in the repository
    chain, f, n = [], st, 0
    while f is not None and n < 10:
        chain.append(f)
        f = getattr(f, "__wrapped__", None)
        n += 1
    keys = [k for k in map(_code_key, chain) if k is not None]
    return keys[-1] if keys else None


def resolve(cls, name, after: str | None = None):
    """-> (relfile, qualname) of the function a name resolves to in `cls` (None: builtin).  `after` = name of a class
    of the MRO: resolve as `super()` would from inside that class."""
    mro = list(cls.__mro__)
    if after is not None:
        idx = [i for i, c in enumerate(mro) if c.__name__ == after]
        mro = mro[idx[0] + 1:] if idx else mro
    for c in mro:
        if name in c.__dict__:
            return _key_of_static(c.__dict__[name])
    return None


def is_stub(fn: ast.FunctionDef) -> bool:
    body = [b for b in fn.body if not (isinstance(b, ast.Expr) and isinstance(b.value, ast.Constant) and isinstance(b.value.value, str))]
    return len(body) == 1 and isinstance(body[0], ast.Expr) and isinstance(body[0].value, ast.Constant) and body[0].value.value is Ellipsis


def guard_of(src: Src, cls, name, member_cls=None, depth=4, cname=""):
    """(decorated, explicit, via) for the function `name` resolves to in `cls`.
    `via`: some call reached within `depth` expansions targets a directly guarded method; calls on `self` are
    resolved in `cls`, calls on other objects (stack members, the wrapped tensordict, …) in `member_cls`."""
    start = resolve(cls, name)
    if start is None:
        return (False, False, False), None
    fns = src.funcs.get(start)
    if not fns:
        return (False, False, False), f"{start[0]}:{start[1]}"
    dec = all(deco_kinds(src, f)[0] for f in fns)
    exp = all(explicit_guard(f) or deco_kinds(src, f)[1] for f in fns)
    seen = {start}
    frontier = [start]
    via = False
    for _ in range(depth):
        nxt = []
        for key in frontier:
            for f in src.funcs.get(key, []):
                owner = key[1].split(".")[0]
                todo = [(a, c, None) for a, c in calls(f, cname)]
                todo += [(True, c, owner) for c in super_calls(f)]
                if is_stub(f):   # `def m(self, …): ...` under a delegating decorator: the parent class' method runs
                    todo.append((True, f.name, owner))
                for on_self, callee, after in todo:
                    r = resolve(cls, callee, after) if on_self else (resolve(member_cls, callee) if member_cls is not None else None)
                    if r is None or r in seen:
                        continue
                    seen.add(r)
                    cf = src.funcs.get(r, [])
                    if cf and all(is_decorated(src, x) or explicit_guard(x) for x in cf):
                        via = True
                    nxt.append(r)
        frontier = nxt
        if via:
            break
    return (dec, exp, via), f"{start[0]}:{start[1]}"


def accepts_bypass_kw(cls, name) -> bool:
    """can the public callable be invoked with `inplace=` / `ignore_lock=` (the keywords that switch `lock_blocked` off)?"""
    try:
        sig = inspect.signature(getattr(cls, name))
    except (TypeError, ValueError, AttributeError):
        return False
    return any(p.name in ("inplace", "ignore_lock") or p.kind == p.VAR_KEYWORD for p in sig.parameters.values())


def public_api(cls):
    import c05_sweep
    return c05_sweep.public_callables(cls)


def lean_str(s):
    return '"' + s.replace("\\", "\\\\").replace('"', '\\"') + '"'


def b(x):
    return "true" if x else "false"


def generate():
    src = Src()
    classes = container_classes()
    hand = json.loads(CLASSES_JSON.read_text())
    kinds = hand["classes"]          # name -> structural | exempt | lockapi   (default: frame, if listed in "frame")
    frame = set(hand["frame"])
    per_class = hand.get("per_class", {})
    dg = direct_guards(src)
    lines = ["-- GENERATED from the tensordict working tree by harness/c05_gen.py on every run; do not edit",
             "import TdVerif.Model.C05Lock", "", "namespace TdVerif.Gen.LockTable", "open TdVerif.C05", "",
             "inductive Klass | structural | writer | exempt | lockapi | frame | unknown", "  deriving Repr, DecidableEq", "",
             "structure Api where", "  cls : String", "  meth : String", "  klass : Klass", "  guard : Guard",
             "  /-- the callable accepts `inplace=` / `ignore_lock=` / `**kwargs` (the keywords that bypass `lock_blocked`) -/", "  kw : Bool", "  deriving Repr", "",
             "/-- every method that carries `@lock_blocked` or an explicit `if … is_locked …: raise` (file, qualname, decorated, explicit) -/",
             "def directGuards : List (String × String × Bool × Bool) := ["]
    lines += [f"  ({lean_str(rel)}, {lean_str(q)}, {b(d)}, {b(e)})," for rel, q, d, e in dg]
    if dg:
        lines[-1] = lines[-1].rstrip(",")
    lines += ["]", "", "/-- the public API of each container class, classified; guards resolved from the source -/", "def api : List Api := ["]
    rows = []
    info = {}
    for cname, cls in classes.items():
        for name, what in public_api(cls):
            if name in per_class.get(cname, {}):
                k = per_class[cname][name]
            elif name in kinds:
                k = kinds[name]
            elif name in frame:
                k = "frame"
            else:
                k = "unknown"
            g, where = (False, False, False), None
            if k == "structural":
                g, where = guard_of(src, cls, name, member_cls=classes["TensorDict"], cname=cname)
                if cname == "tensorclass" and not any(g):
                    # generated wrappers (`_wrap_td_method`) delegate to the wrapped TensorDict
                    g2, where2 = guard_of(src, classes["TensorDict"], name, member_cls=classes["TensorDict"])
                    if any(g2):
                        g, where = (False, False, True), f"wrapper -> {where2}"
            kw = accepts_bypass_kw(cls, name)
            rows.append(f"  ⟨{lean_str(cname)}, {lean_str(name)}, .{k}, ⟨{b(g[0])}, {b(g[1])}, {b(g[2])}⟩, {b(kw)}⟩,")
            info[(cname, name)] = {"klass": k, "guard": g, "where": where, "what": what, "kw": kw}
    rows[-1] = rows[-1].rstrip(",")
    import c05_shapes
    lines += rows + ["]", "", c05_shapes.lean_def("lockCode", c05_shapes.C05_FUNCS), "", "end TdVerif.Gen.LockTable", ""]
    return "\n".join(lines), info, dg


if __name__ == "__main__":
    import sys
    text, info, dg = generate()
    sys.stdout.write(text[:3000])
    for k, v in info.items():
        if v["klass"] == "structural":
            print(k, v["guard"], v["where"])
