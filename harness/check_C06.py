"""C06 — locking is observationally transparent: memoised reads never go stale (DESIGN §6 C06)."""
from __future__ import annotations

import gc
import json
import shutil
import tempfile
import warnings
from pathlib import Path

from common import BUILD, Infra, Run, main_guard, parse_sx, sx, time_limit

warnings.filterwarnings("ignore")


class RetryDriver:
    """the compiled Lean driver; restarted once if the pipe breaks (a loaded machine can kill the child)"""

    def __init__(self, run):
        self.run = run
        self.d = run.driver()

    def _retry(self, f):
        try:
            return f(self.d)
        except (BrokenPipeError, Infra, OSError):
            self.d = self.run.driver()
            return f(self.d)

    def ask(self, line):
        import os
        if os.environ.get("C06_DEBUG"):
            Path(os.environ["C06_DEBUG"]).write_text(line)
        return self._retry(lambda d: d.ask(line))

    def ask_many(self, lines):
        return self._retry(lambda d: d.ask_many(lines))


def regen(run):
    import c05_gen
    import c06_gen
    import gen_tables
    try:
        text, rows = c06_gen.generate()
        gen_tables.write_if_changed("CacheTable.lean", text)
        run.count("table", "cache_sites", len(rows))
        run.count("table", "by_address_params", sum(1 for r in rows for _, k in r["params"] if k != "value"))
    except Exception as e:  # noqa
        run.proof_broken.append(f"translator:CacheTable:{type(e).__name__}:{e}")
    try:
        text, info, dg = c05_gen.generate()      # the C06 driver runs the C05 lock machine (guards of the mutators)
        gen_tables.write_if_changed("LockTable.lean", text)
    except Exception as e:  # noqa
        run.proof_broken.append(f"translator:LockTable:{type(e).__name__}:{e}")


# --------------------------------------------------------------------------- histories
def histories(run, drv, n_hist, n_events, scratch):
    import c06_hist as H
    for hno in range(n_hist):
        evs, answers, model, addr_of = H.run_history6(run.rng, drv, n_events, scratch / f"h{hno}")
        gc.collect()
        if not isinstance(model, list) or len(model) != len(evs):
            run.corr("history", {"history": hno, "events": [H.ev_sx6(e, addr_of) for e in evs]}, "n/a", str(model)[:200])
            continue
        ok_all = True
        prev_sizes = []
        for k, (ev, ans, ma) in enumerate(zip(evs, answers, model)):
            what, ia = ans[0], ans[1]
            case = {"history": hno, "step": k, "event": H.ev_sx6(ev, addr_of), "prefix": [H.ev_sx6(e, addr_of) for e in evs[:k + 1]]}
            run.case(("hist6", hno, k), nontrivial=True)
            run.count("event.kind", ev[0] if ev[0] != "attr" else "attr:" + ev[5])
            # ---- the caches the model resets at an assignment accepted under lock must be empty on the real objects
            sizes = ma[2] if isinstance(ma, list) and len(ma) > 2 else None
            if sizes is not None:
                if ev[0] in ("attr", "mmap", "rebind"):
                    real = set(ans[2])
                    left = [j for j, n in enumerate(sizes) if n == 0 and j < len(prev_sizes) and prev_sizes[j] > 0 and j in real]
                    if left:
                        run.oracle_fail("erase", case, f"the model resets the memoised reads of object(s) {left} at this assignment; the real object(s) still hold entries", f"not-erased:{ev[0]}")
                    else:
                        run.oracle_ok("erase")
                prev_sizes = sizes
            if what == "read":
                run.count("read.kind", ia["kind"].split(":")[0])
                run.count("read.method", ev[2])
                # ---- oracles on the real code
                if ia["stale"]:
                    run.oracle_fail("monitor", case, f"cache hit differs from a fresh recomputation: {ia['stale'][:300]}", f"stale:{ev[2]}")
                elif ia["twin"]:
                    run.oracle_fail("twin", case, f"read on the locked subject differs from the unlocked twin: {ia['twin'][:300]}", f"twin:{ev[2]}")
                else:
                    run.oracle_ok("monitor+twin")
                if ma == "other":
                    mk, mres = "other", None
                else:
                    mk, mres = H.canon_model_read(ev[2], ma)
                # cached methods call each other (flatten_keys fills `_items_list`, …): the real cache may hold an entry the
                # model has not seen stored.  Required: same bypass decision, a model hit is a real hit, same result.
                ik = ia["kind"]
                if ik == "hit" and mk == "miss":
                    run.count("read.kind", "hit-by-internal-call")
                    ik = "miss"
                if not run.corr("history", case, [ik, ia["result"]], [mk, mres]):
                    ok_all = False
                    break
            else:
                # value versions are not compared here (a flattened copy shares its leaf objects with its source; the model versions bindings)
                m = [ma[0], [r if r == "dead" else [r[0], r[1], r[2], list(r[3]), [[str(e[0])] + list(e[1:3]) + ([0] if e[1] == "l" else []) for e in r[4]]] for r in ma[1]]]
                if not run.corr("history", case, ia, m):
                    ok_all = False
                    break
        if ok_all:
            run.count("history", "agree")
        if hno < 2:
            run.sample({"stream": "history", "events": [H.ev_sx6(e, addr_of) for e in evs[:10]]})


def replay(run, drv, scratch):
    """--replay <file> (and corpus/C06/*.json): event prefixes of recorded failures, re-run on both sides with the oracles"""
    import c06_hist as H
    from common import VERIF
    files = sorted((VERIF / "corpus" / "C06").glob("*.json"))
    if run.replay:
        files = [Path(run.replay)] + files
    for f in files:
        try:
            d = json.loads(Path(f).read_text())
        except Exception:  # noqa
            continue
        evs_t = d.get("events")
        if not evs_t:
            for fl in d.get("failures", []):
                c = fl.get("case", {})
                if isinstance(c, dict) and c.get("prefix"):
                    evs_t = c["prefix"]
                    break
        if not evs_t and d.get("broken_correspondence", {}).get("history"):
            evs_t = d["broken_correspondence"]["history"][0]["case"]["prefix"]
        if not evs_t:
            continue
        evs, rows, model, addr_of = H.replay_events6(drv, evs_t, scratch / ("replay_" + Path(f).stem))
        for k, (ev, row, ma) in enumerate(zip(evs, rows, model)):
            what, ia = row[0], row[1]
            case = {"file": Path(f).name, "step": k, "event": evs_t[k], "prefix": evs_t[:k + 1]}
            run.case(("replay6", Path(f).name, k))
            if what == "read":
                if ia["stale"]:
                    run.oracle_fail("monitor", case, f"cache hit differs from a fresh recomputation: {ia['stale'][:300]}", f"stale:{ev[2]}")
                elif ia["twin"]:
                    run.oracle_fail("twin", case, f"read on the locked subject differs from the unlocked twin: {ia['twin'][:300]}", f"twin:{ev[2]}")
                else:
                    run.oracle_ok("monitor+twin")
                mk, mres = ("other", None) if ma == "other" else H.canon_model_read(ev[2], ma)
                ik = "miss" if (ia["kind"] == "hit" and mk == "miss") else ia["kind"]
                if not run.corr("replay", case, [ik, ia["result"]], [mk, mres]):
                    break
            else:
                m = [ma[0], [r if r == "dead" else [r[0], r[1], r[2], list(r[3]), [[str(e[0])] + list(e[1:3]) + ([0] if e[1] == "l" else []) for e in r[4]]] for r in ma[1]]]
                if not run.corr("replay", case, ia, m):
                    break


# --------------------------------------------------------------------------- targeted scenarios (the witnesses of Props/C06)
def scenarios(run, drv, scratch):
    import torch
    import c06_monitor as M
    from tensordict import LazyStackedTensorDict, NonTensorData, TensorDict
    T = lambda d, **kw: TensorDict(d, batch_size=[2], **kw)
    stale = []

    def cb(ev):
        if ev.get("hit"):
            ok, why = M.same_result(ev["self"], ev["out"], ev["fresh"])
            if not ok:
                stale.append((ev["method"], why))
    M.CALLBACK = cb

    def check(site, program, fp, reads):
        stale.clear()
        try:
            reads()
        except Exception as e:  # noqa
            run.notes.append(f"scenario {fp}: {type(e).__name__}: {str(e)[:100]}")
        if stale:
            run.oracle_fail(site, {"program": program}, f"memoised read went stale: {stale[0][0]}: {stale[0][1][:300]}", fp)
        else:
            run.oracle_ok(site)
        return bool(stale)

    # (a) one shared mutable object
    td = T({"a": torch.zeros(2), "b": T({"c": torch.zeros(2)})}).lock_()
    f1 = td.flatten_keys()
    f1["new"] = torch.ones(2)
    got_a = check("scenario", "td.lock_(); f = td.flatten_keys(); f['new'] = 1; td.flatten_keys()", "shared-result:flatten_keys", lambda: td.flatten_keys())
    td = T({"b.c": torch.zeros(2)}).lock_()
    u = td.unflatten_keys(); u["new"] = torch.ones(2)
    check("scenario", "td.lock_(); u = td.unflatten_keys(); u['new'] = 1; td.unflatten_keys()", "shared-result:unflatten_keys", lambda: td.unflatten_keys())
    td = T({"a": torch.zeros(2)}).lock_()
    d = td.detach(); d.unlock_(); d["new"] = torch.ones(2)
    check("scenario", "td.lock_(); d = td.detach(); d.unlock_(); d['new'] = 1; td.detach()", "shared-result:detach", lambda: td.detach())
    model = parse_sx(drv.ask("(c06.run (ctor () ((a 100 0)) true) (read 0 4) (mut 1 TensorDict set false (addleaf new 300)) (read 0 4))"))
    run.corr("scenario", "shared-result", ["miss", "hit", got_a], [model[1][0], model[3][0], sorted(e[0] for e in model[3][1][2]) != ["a"]])

    # (b) lazy stack over already-locked members
    m1 = T({"x": torch.zeros(2), "n": T({"y": torch.zeros(2)})}).lock_(); m2 = T({"x": torch.zeros(2), "n": T({"y": torch.zeros(2)})}).lock_()
    L = LazyStackedTensorDict(m1, m2, stack_dim=0)
    L._get_str("n", None); L._key_list()
    for m in (m1, m2):
        m.unlock_(); m["n"] = T({"y": torch.ones(2), "z": torch.ones(2)}); m["extra"] = torch.zeros(2); m.lock_()
    check("scenario", "L = lazy_stack of locked m1, m2; L.get('n'); m.unlock_(); m['n'] = …; m.lock_(); L.get('n')", "derived-lock-cache",
          lambda: (L._get_str("n", None), L._key_list()))
    model = parse_sx(drv.ask("(c06.run (ctor () ((a 100 0)) true) (lazy (0) false) (read 1 5) (read 1 5))"))
    run.corr("scenario", "derived-lock-bypass", ["bypass", "bypass"], [model[2][0], model[3][0]])

    # (c) non-tensor indexed write under lock
    inner = T({"nt": NonTensorData("a", batch_size=[2]), "a": torch.zeros(2)})
    mid = T({"inner": inner, "m": torch.zeros(2)})
    td = T({"mid": mid, "z": torch.zeros(2)}).lock_()
    for t in (td, mid, inner):
        t._values_list(); t._items_list(); t._values_list(True, True); t._values_list(True, False); t._items_list(True, False)
    inner[1] = {"nt": "b"}
    check("scenario", "td.lock_(); td._values_list(True, False); td['mid']['inner'][1] = {'nt': 'b'}; td._values_list(True, False)   (three levels)", "rebind-under-lock",
          lambda: [(t._values_list(), t._items_list(), t._values_list(True, True), t._values_list(True, False), t._items_list(True, False)) for t in (td, mid, inner)])
    model = parse_sx(drv.ask("(c06.run (ctor () ((nt 100 0)) false) (ctor ((inner 0)) ((z 101 0)) true) (read 1 0 1 0) (read 0 0 0 0) (rebind 0 nt 200) (read 1 0 1 0) (read 0 0 0 0))"))
    run.corr("scenario", "rebind-erases-up", ["miss", "miss", "miss", "miss"], [model[2][0], model[3][0], model[5][0], model[6][0]])

    # (c2) a SECOND indexed write into a non-tensor entry that is a stack already (the first one rebinds NonTensorData -> NonTensorStack):
    #      `_set_at_str` re-binds the entry only when `maybe_to_stack()` hands back a new object, and that re-bind is the only `_erase_cache_up()`
    inner = T({"nt": NonTensorData("same", batch_size=[2]), "a": torch.zeros(2)})
    td = T({"sub": inner, "z": torch.zeros(2)}).lock_()
    td[1] = TensorDict({"sub": {"nt": "one"}, "z": torch.ones(())}, [])
    nt_reads = lambda: [(t.detach(), t._values_list(True, False), t._items_list(True, False), t.flatten_keys(), t._values_list(True, True)) for t in (td, inner)]
    nt_reads()
    td[0] = TensorDict({"sub": {"nt": "two"}, "z": torch.ones(())}, [])
    check("scenario", "td.lock_(); td[1] = {'sub': {'nt': 'one'}}; td.detach(); td[0] = {'sub': {'nt': 'two'}}; td.detach()['sub', 'nt'].tolist()   (second indexed write: the entry is a stack already)",
          "second-nontensor-index-write", nt_reads)
    inner.set_at_("nt", NonTensorData("three"), 1)
    check("scenario", "… ; td['sub'].set_at_('nt', NonTensorData('three'), 1); td.detach()['sub', 'nt'].tolist()", "second-nontensor-index-write:set_at_", nt_reads)
    tw = T({"sub": T({"nt": NonTensorData("same", batch_size=[2]), "a": torch.zeros(2)}), "z": torch.zeros(2)})
    tw[1] = TensorDict({"sub": {"nt": "one"}, "z": torch.ones(())}, []); tw[0] = TensorDict({"sub": {"nt": "two"}, "z": torch.ones(())}, []); tw.get("sub").set_at_("nt", NonTensorData("three"), 1)
    a, b = td.detach().get(("sub", "nt")).tolist(), tw.detach().get(("sub", "nt")).tolist()
    if a != b:
        run.oracle_fail("scenario", {"program": "the same three indexed non-tensor writes on a locked tensordict and on an unlocked twin; detach()['sub', 'nt'].tolist()"},
                        f"locked={a} twin={b}", "second-nontensor-index-write:twin")
    else:
        run.oracle_ok("scenario")

    # (c3) KNOWN FINDING: once the tensordict is memory-mapped, an indexed write into a non-tensor entry that is a stack updates the (memory-mapped)
    #      members in place: no re-bind, no `_erase_cache_up()`; reads that memoised a rebuilt copy of the payloads (detach, unflatten_keys) go stale
    td = T({"a": torch.zeros(2), "nt": NonTensorData("v", batch_size=[2])}).lock_()
    td[0] = TensorDict({"nt": "w1"}, [])
    td.memmap_(str(scratch / "mm_nt"), copy_existing=True)
    mm_nt_reads = lambda: (td.detach(), td.unflatten_keys(), td._values_list(True, False), td.flatten_keys())
    mm_nt_reads()
    try:
        td[0] = TensorDict({"nt": "w2"}, [])
    except Exception as e:  # noqa
        run.notes.append(f"scenario memmap-nontensor-inplace: the write was refused: {type(e).__name__}")
    check("scenario", "td.lock_(); td[0] = {'nt': 'w1'}; td.memmap_(dir, copy_existing=True); td.detach(); td[0] = {'nt': 'w2'}; td.detach()['nt'].tolist()",
          "memmap-nontensor-inplace", mm_nt_reads)

    # (d) memmap_ of a (nested node of a) locked tensordict
    td = T({"a": torch.zeros(2), "b": T({"c": torch.zeros(2)})}).lock_()
    for t in (td, td["b"]):
        t._values_list(True, True); t._values_list(); t._items_list()
    td["b"].memmap_(str(scratch / "mm1"))
    check("scenario", "td.lock_(); td._values_list(); td['b'].memmap_(dir); td._values_list()", "memmap-under-lock",
          lambda: [(t._values_list(True, True), t._values_list(), t._items_list()) for t in (td, td["b"])])
    td = T({"a": torch.zeros(2)}); td.memmap_(str(scratch / "mm2"))
    td._values_list(); td.sorted_keys; list(td._nested_keys())
    td.make_memmap("new", shape=torch.Size([2]), dtype=torch.float32)
    check("scenario", "td.memmap_(dir); td.sorted_keys; td.make_memmap('new', …); td.sorted_keys", "make-memmap-under-lock",
          lambda: (td._values_list(), td.sorted_keys, td._items_list()))

    # (e) names of a member of a locked lazy stack
    m1 = T({"x": torch.zeros(2)}); m2 = T({"x": torch.zeros(2)})
    L = LazyStackedTensorDict(m1, m2, stack_dim=0).lock_()
    L.names
    m1.names = ["q"]; m2.names = ["q"]
    check("scenario", "L = lazy_stack(m1, m2).lock_(); L.names; m1.names = ['q']; m2.names = ['q']; L.names", "member-names-under-lock", lambda: L.names)

    # (e2) names assigned through the locked stack itself (its setter erases the cache)
    m1 = T({"x": torch.zeros(2)}); m2 = T({"x": torch.zeros(2)})
    L = LazyStackedTensorDict(m1, m2, stack_dim=0).lock_()
    L.names
    try:
        L.names = ["s", "q"]
    except Exception as e:  # noqa
        run.notes.append(f"scenario names-through-stack: {type(e).__name__}: {str(e)[:80]}")
    check("scenario", "L = lazy_stack(m1, m2).lock_(); L.names; L.names = ['s', 'q']; L.names", "stack-names-under-lock", lambda: L.names)

    # (e3) only the *stack dimension* of a lazy stack is renamed: the members' names do not change, yet the holders of the stack
    #      (root of the locked tree; an outer lazy stack) memoised reads that carry the stack's names
    def members(names=("feat",)):
        return [TensorDict({"a": torch.zeros(3), "n": TensorDict({"x": torch.zeros(3)}, [3])}, [3], names=list(names) if names else None) for _ in range(2)]
    all_reads = lambda *ts: [(t.detach(), t.flatten_keys(), t._values_list(True, True), t._items_list(True, True), getattr(t, "names")) for t in ts]
    root = TensorDict({"l": LazyStackedTensorDict(*members(), stack_dim=0), "z": torch.zeros(2, 3)}, [2, 3]).lock_()
    all_reads(root, root.get("l"))
    root.get("l").names = ["time", "feat"]
    check("scenario", "root = TensorDict({'l': lazy_stack(m1, m2)}).lock_(); root.detach(); root['l'].names = ['time', 'feat']  (members' names unchanged); root.detach()",
          "stack-dim-name-under-lock:root", lambda: all_reads(root, root.get("l")))
    outer = LazyStackedTensorDict(LazyStackedTensorDict(*members(), stack_dim=0), LazyStackedTensorDict(*members(), stack_dim=0), stack_dim=0).lock_()
    all_reads(outer, *outer.tensordicts)
    for inner in outer.tensordicts:
        inner.names = ["time", "feat"]
    check("scenario", "outer = lazy_stack(lazy_stack(m, m), lazy_stack(m, m)).lock_(); outer.names; inner.names = ['time', 'feat'] for both; outer.names",
          "stack-dim-name-under-lock:outer-stack", lambda: all_reads(outer, *outer.tensordicts))
    # the same with *empty* inner stacks (what a mask that keeps nothing returns): there is no member whose setter could invalidate the holder
    full = LazyStackedTensorDict(*members(None), stack_dim=0)
    outer = LazyStackedTensorDict(full[torch.zeros(2, dtype=torch.bool)], full[torch.zeros(2, dtype=torch.bool)], stack_dim=0).lock_()
    outer.names
    for inner in outer.tensordicts:
        inner.names = ["time", None]
    check("scenario", "outer = lazy_stack(empty_stack, empty_stack).lock_(); outer.names; inner.names = ['time', None] for both; outer.names",
          "stack-dim-name-under-lock:empty-inner", lambda: outer.names)

    # (e4) names erased from above: the setter of a holder walks *down* the tree (`_rename_subtds(None)` -> `_erase_names`)
    root = TensorDict({"l": LazyStackedTensorDict(*members(), stack_dim=0), "sub": TensorDict({"c": torch.zeros(2, 3)}, [2, 3]), "z": torch.zeros(2, 3)}, [2, 3], names=["t", "feat"]).lock_()
    nodes = [root, root.get("l"), root.get("sub"), *root.get("l").tensordicts]
    all_reads(*nodes)
    root.names = None
    check("scenario", "root = TensorDict({'l': lazy_stack(m1, m2), 'sub': {...}}, names=['t', 'feat']).lock_(); root['l'].names; root['sub'].detach(); root.names = None; the same reads",
          "names-erased-from-above", lambda: all_reads(*nodes))

    # (e5) the batch size can be assigned under lock
    root = TensorDict({"a": torch.zeros(2, 3), "n": TensorDict({"x": torch.zeros(2, 3)}, [2, 3])}, [2, 3]).lock_()
    L = LazyStackedTensorDict(*members(None), stack_dim=0).lock_()
    all_reads(root, root.get("n"), L, *L.tensordicts)
    root.batch_size = [2]
    L.tensordicts[0].get("n").batch_size = []
    check("scenario", "td.lock_(); td.flatten_keys(); td.batch_size = [2]; td.flatten_keys()    (also on a nested node of a member of a locked stack)",
          "batch-size-under-lock", lambda: all_reads(root, root.get("n"), L, *L.tensordicts))

    # (e5m) metadata assignments are first-class model events (`CEv.setAttr`, theorem `attr_preserves`): names on a nested node (the setter
    #       walks the whole subtree), device on the nested node, batch size on the root -- real (miss, miss, hit, miss, miss) vs model
    kinds = []
    M.CALLBACK = lambda ev: kinds.append("hit" if ev["hit"] else ("miss" if ev["stored"] else "bypass"))
    root = TensorDict({"a": torch.zeros(2, 3), "n": TensorDict({"x": torch.zeros(2, 3)}, [2, 3])}, [2, 3]).lock_()
    root._values_list(True, False); root.get("n").names = ["u", "v"]; root._values_list(True, False); root._values_list(True, False)
    root.get("n").clear_device_(); root._values_list(True, False); root.batch_size = [2]; root._values_list(True, False)
    M.CALLBACK = cb
    model = parse_sx(drv.ask("(c06.run (ctor () ((x 100 0)) false) (ctor ((n 0)) ((a 101 0)) true) (read 1 1 1 0) (attr 0 0 200 99) (read 1 1 1 0) (read 1 1 1 0) "
                             "(attr 0 2 201 99) (read 1 1 1 0) (attr 1 1 202 0) (read 1 1 1 0))"))
    run.corr("scenario", "metadata-events", kinds, [model[2][0], model[4][0], model[5][0], model[7][0], model[9][0]])
    # the same for `memmap_` moved to another directory (`CEv.memmap`, theorem `memmap_preserves`)
    kinds = []
    M.CALLBACK = lambda ev: kinds.append("hit" if ev["hit"] else ("miss" if ev["stored"] else "bypass"))
    td = T({"a": torch.zeros(2), "b": T({"c": torch.ones(2)})}); td.memmap_(str(scratch / "mm5"))
    td._values_list(True, True); td._values_list(True, True); td.get("b").memmap_(str(scratch / "mm6"), copy_existing=True); td._values_list(True, True)
    M.CALLBACK = cb
    model = parse_sx(drv.ask("(c06.run (ctor () ((c 100 0)) false) (ctor ((b 0)) ((a 101 0)) false) (mmap 1 ((1 a 102) (0 c 103))) (read 1 1 1 1) (read 1 1 1 1) "
                             "(mmap 0 ((0 c 104))) (read 1 1 1 1))"))
    run.corr("scenario", "memmap-events", kinds, [model[3][0], model[4][0], model[6][0]])

    # (e7) a *refused* names assignment on a nested lazy stack must leave nothing behind (the stack dim used to stay renamed, unseen by the holders)
    root = TensorDict({"l": LazyStackedTensorDict(*members(), stack_dim=0), "z": torch.zeros(2, 3)}, [2, 3]).lock_()
    all_reads(root, root.get("l"))
    before = list(root.get("l").names)
    try:
        root.get("l").names = ["feat", "w"]       # 'feat' is taken by the members: refused
        refused = False
    except ValueError:
        refused = True
    check("scenario", "root = TensorDict({'l': lazy_stack(m1, m2)}).lock_(); root.detach(); root['l'].names = ['feat', 'w']  (refused: 'feat' is taken); root.detach()",
          "refused-stack-names-under-lock", lambda: all_reads(root, root.get("l")))
    if refused and root.get("l")._td_dim_name != before[0]:
        run.oracle_fail("scenario", {"program": "root['l'].names = ['feat', 'w']  (refused)"}, f"the refused assignment renamed the stack dimension: {before[0]!r} -> {root.get('l')._td_dim_name!r}", "refused-stack-names-under-lock:partial")
    else:
        run.oracle_ok("scenario")

    # (e6) the device attribute can be cleared / inferred under lock
    root = TensorDict({"a": torch.zeros(2, 3), "n": TensorDict({"x": torch.zeros(2, 3)}, [2, 3])}, [2, 3], device="cpu").lock_()
    r2 = TensorDict({"a": torch.zeros(2, 3), "n": TensorDict({"x": torch.zeros(2, 3)}, [2, 3])}, [2, 3]).lock_()
    all_reads(root, root.get("n"), r2, r2.get("n"))
    root.get("n").clear_device_(); r2.auto_device_()
    check("scenario", "td = TensorDict(..., device='cpu').lock_(); td.detach(); td['n'].clear_device_(); td.detach()    (and auto_device_ on a locked tensordict without device)",
          "device-attr-under-lock", lambda: all_reads(root, root.get("n"), r2, r2.get("n")))

    # (d2) a memory-mapped (hence locked) tensordict is moved to another directory: every leaf is rebound to the new files
    td = T({"a": torch.zeros(2), "b": T({"c": torch.ones(2)})}); td.memmap_(str(scratch / "mm3"))
    mm_reads = lambda: [(t.flatten_keys(), t._values_list(True, True), t._items_list(True, True), t._values_list(), t.detach()) for t in (td, td.get("b"))]
    mm_reads()
    td.memmap_(str(scratch / "mm4"), copy_existing=True)
    td.set_(("b", "c"), torch.full((2,), 7.0)); td.get("a").add_(1)
    check("scenario", "td.memmap_(dir1); td.flatten_keys(); td._values_list(True, True); td.memmap_(dir2, copy_existing=True); td.set_(('b', 'c'), 7); the same reads",
          "second-memmap-under-lock", mm_reads)
    stale_vals = [v.tolist() for v in (td + 0).values(True, True)]
    fresh_vals = [v.tolist() for v in td.to_tensordict().values(True, True)]
    if stale_vals != fresh_vals:
        run.oracle_fail("scenario", {"program": "td.memmap_(dir1); td + 0; td.memmap_(dir2, copy_existing=True); td.set_(('b', 'c'), 7); td + 0"},
                        f"arithmetic on the moved tensordict reads the old files: {stale_vals} != {fresh_vals}", "second-memmap-under-lock:arith")
    else:
        run.oracle_ok("scenario")

    # (b2) KNOWN FINDING: views report the lock of their source and memoise, but nothing resets what they memoised when the *source* is unlocked,
    #      modified and locked again (the mechanism of `derived_lock_stale_counterexample`: a cache consulted on an object without a lock flag of its own)
    from tensordict import set_lazy_legacy
    src = TensorDict({"a": torch.zeros(2, 3), "n": TensorDict({"x": torch.zeros(2, 3)}, [2, 3])}, [2, 3]).lock_()
    with set_lazy_legacy(True):
        view = src.permute(1, 0)
    sub = src._get_sub_tensordict(0)
    view.flatten_keys(); sub.flatten_keys()
    src.unlock_(); src["new"] = torch.zeros(2, 3); src.lock_()
    check("scenario", "td.lock_(); v = td.permute(1, 0) (legacy lazy view); v.flatten_keys(); td.unlock_(); td['new'] = …; td.lock_(); v.flatten_keys()",
          "view-cache:_PermutedTensorDict", lambda: view.flatten_keys())
    check("scenario", "td.lock_(); s = td._get_sub_tensordict(0); s.flatten_keys(); td.unlock_(); td['new'] = …; td.lock_(); s.flatten_keys()",
          "view-cache:_SubTensorDict", lambda: sub.flatten_keys())

    # (h2) KNOWN FINDING: flatten_keys of a locked TensorDict that holds a lazy stack memoises *stacked copies* of the members' leaves
    root = TensorDict({"l": LazyStackedTensorDict(*members(None), stack_dim=0), "z": torch.zeros(2, 3)}, [2, 3]).lock_()
    root.flatten_keys()
    root.set_(("l", "a"), torch.ones(2, 3))
    check("scenario", "root = TensorDict({'l': lazy_stack(m1, m2)}).lock_(); root.flatten_keys(); root.set_(('l', 'a'), 1); root.flatten_keys()['l.a']",
          "lazy-copy:flatten_keys", lambda: root.flatten_keys())

    # (h) entry access through a locked stack returns a *stacked copy* of the members' leaves: it must never be memoised
    #     (an in-place write through a member would not be seen)
    m1 = T({"x": torch.zeros(2), "n": T({"y": torch.zeros(2)})}); m2 = T({"x": torch.zeros(2), "n": T({"y": torch.zeros(2)})})
    L = LazyStackedTensorDict(m1, m2, stack_dim=0).lock_()
    tw = L.copy()
    v0 = L.get("x").clone(); L._get_str("x", None); L.get(("n", "y"))
    m1.set_("x", torch.ones(2)); m2.get("n").set_("y", torch.full((2,), 3.0))
    stale.clear()
    a = (L.get("x").tolist(), L.get(("n", "y")).tolist())
    twv = None
    tw.tensordicts[0].set_("x", torch.ones(2)); tw.tensordicts[1].get("n").set_("y", torch.full((2,), 3.0))
    b = (tw.get("x").tolist(), tw.get(("n", "y")).tolist())
    if a != b or stale:
        run.oracle_fail("scenario", {"program": "L = lazy_stack(m1, m2).lock_(); L.get('x'); m1.set_('x', 1); L.get('x')"},
                        f"entry access through the locked stack does not see a write through a member: locked={a} twin={b} {stale[:1]}", "lazy-entry-after-member-write")
    else:
        run.oracle_ok("scenario")

    # (f) in-place writes, writes through a member, lock/unlock cycles: transparent
    td = T({"a": torch.zeros(2), "b": T({"c": torch.zeros(2)})}).lock_()
    reads = lambda: (td._values_list(True, True), td._items_list(True, True), td.sorted_keys, td._depth(), td.bytes(), td.param_count(), td._dtype(), td.detach(), td.flatten_keys())
    reads()
    td.set_("a", torch.ones(2)); td["b"].set_("c", torch.ones(2)); td.get(("b", "c")).add_(1); td.update_({"a": torch.zeros(2)})
    check("scenario", "in-place writes under lock, then every memoised read", "inplace-writes", reads)
    td.unlock_(); td["new"] = torch.zeros(2); td.lock_()
    check("scenario", "unlock, add a key, lock, then every memoised read", "unlock-cycle", reads)

    # (g) address recycling of `is_leaf` callables
    from tensordict.base import _default_is_leaf
    td = T({"a": torch.zeros(2), "b": T({"c": torch.zeros(2)})}).lock_()
    twin = td.copy()
    mk = [lambda: (lambda cls: True), lambda: (lambda cls, _d=_default_is_leaf: _d(cls))]
    # (g1) through the public API: two short-lived callables per round, locked subject vs unlocked twin
    bad = None
    n_rounds = 300 if run.tier == "quick" else 3000
    for n in range(n_rounds):
        for reader in (lambda t, f: sorted(map(str, t.keys(True, True, is_leaf=f))),
                       lambda t, f: [type(v).__name__ for v in t.values(True, True, is_leaf=f)],
                       lambda t, f: sorted(map(str, t.flatten_keys(is_leaf=f).keys())),
                       lambda t, f: [str(k) for k, _ in t.items(True, True, is_leaf=f)]):
            for kind in (0, 1):
                a, b = reader(td, mk[kind]()), reader(twin, mk[kind]())
                if a != b and bad is None:
                    bad = (n, kind, a, b)
    if bad:
        run.oracle_fail("scenario", {"program": "keys/values/items/flatten_keys(is_leaf=<fresh lambda>) on a locked tensordict vs its unlocked copy", "round": bad[0]},
                        f"a read keyed by the address of a dead callable was served: locked={bad[2]} twin={bad[3]}", "is-leaf-address-recycled-public")
    else:
        run.oracle_ok("scenario")
    # (g2) on the memoised read itself: `_values_list(collapse=True, is_leaf=f)` keeps no reference to f
    seen = {}
    outcome = "no-recycling-observed"
    for n in range(2000):
        f = mk[n % 2]()
        if id(f) in seen and seen[id(f)] != n % 2:
            cached = [type(v).__name__ for v in td._values_list(True, True, collapse=True, is_leaf=f)]
            M.ENABLED = False
            fresh = [type(v).__name__ for v in type(td)._values_list.__wrapped__(td, True, True, collapse=True, is_leaf=f)]
            M.ENABLED = True
            outcome = "recycled:stale" if cached != fresh else "recycled:same-result"
            break
        seen[id(f)] = n % 2
        td._values_list(True, True, collapse=True, is_leaf=f)
        del f
    run.count("address_recycling(private _values_list)", outcome)
    if outcome == "recycled:stale":
        run.notes.append("address recycling reproduced on the private memoised `_values_list(collapse=True, is_leaf=f)`: the entry stored for a dead callable is served to a new callable with the same id(). "
                         "Not reachable through the public API: every internal caller passes the module constant `_NESTED_TENSORS_AS_LISTS`, and `_nested_keys` memoises a view that keeps its callable alive (hypothesis of by_address_args_immortal).")
    model = parse_sx(drv.ask("(c06.run (ctor () ((a 100 0)) false) (ctor ((b 0)) ((a 101 0)) true) (read 1 6 1 1 (obj 3 555)) (read 1 6 1 1 (obj 2 555)))"))
    run.corr("scenario", "address-recycling-model", ["miss", "hit"], [model[2][0], model[3][0]])
    M.CALLBACK = lambda ev: None


def main():
    run = Run("C06")
    run.rule = ("histories: the C05 event machine (constructors over shared nodes, lazy stacks, lock_/unlock_, context managers, gc, guarded mutators, in-place writes) "
                "+ memoised reads (10 methods incl. the torch.vmap memo `_add_batch_dim(in_dim, level)` and detach; by-value and by-address arguments) + rebinding non-tensor writes "
                "+ metadata assignments under lock (names to the whole subtree, names=None, batch size, device) + memmap_ to a new directory (copy_existing) on locked / memory-mapped trees, "
                "every event a case; after each assignment accepted under lock the caches the model resets must be empty on the real objects; each read is observed by the monitor "
                "(bypass/miss/hit, result) and repeated on an unlocked twin; scenarios: one per witness theorem; a case is non-trivial if it is a distinct (history, step) or scenario")
    run.trusted += [
        "Model/C06Cache.lean: hand transcription of utils.cache / _make_cache_key / erase_cache / _erase_cache_up over the C05 heap model; memoised methods abstracted as functions of the bindings (parameters of the theorems); validated each run by the read correspondence (bypass/miss/hit and result) on random histories",
        "harness/c06_monitor.py: re-wraps every cache.newfun closure found by reflection (no hook in the repository); a hit is decided behaviourally (an entry existed and that very object was returned)",
        "harness/c06_gen.py: ast extraction of the @cache sites and parameter kinds",
    ]
    run.assumptions += [
        "memoised results are functions of the bindings (key paths, identity of bound objects); dtype/shape-valued reads (bytes, param_count, _dtype, vmap helpers) are only covered by the monitor and the scenarios",
        "share_memory_ and pickling are outside the C06 model (scenarios / fuzz on the real code); memmap_ is modelled as: every tensor leaf below is rebound to a new object, then the C05 lock step",
        "metadata (dimension names, batch size, device) is modelled as attributes of the node that any memoised read may depend on; their values are abstract (the model never predicts a names list), so the correspondence of a metadata event is on hit/miss/bypass, cache resets and bindings, and the staleness of attribute-carrying results is decided by the monitor",
        "by-address arguments: equal key implies equal computation only while the arguments are alive (by_address_args_immortal); the recycling scenario is run on the real code",
    ]
    regen(run)
    run.build_and_audit(["TdVerif.Props.C06"])
    drv = RetryDriver(run)
    import tensordict  # noqa: F401
    import tensordict.nn  # noqa: F401
    import c06_monitor as M
    n = M.install(lambda ev: None)
    run.count("monitor", "wrapped_attributes", n)
    gc.collect()
    gc.freeze()
    scratch = Path(tempfile.mkdtemp(prefix="c06_", dir=str(BUILD) if BUILD.exists() else None))
    try:
        thorough = run.tier == "thorough"
        replay(run, drv, scratch)
        scenarios(run, drv, scratch)
        import c06_fuzz
        c06_fuzz.run_fuzz(run, scratch, 900 if thorough else 90, 5)
        if not run.replay:
            histories(run, drv, 6000 if thorough else 600, 34 if thorough else 28, scratch)
    finally:
        M.uninstall()
        shutil.rmtree(scratch, ignore_errors=True)
    if thorough:
        run.leanchecker(["TdVerif.Props.C06"])
    run.finish("proof")


if __name__ == "__main__":
    main_guard(main)
