"""C01 — a lazily stacked tensordict as ROOT against the Lean model Model/C01Lazy.lean (exact correspondence of the metadata of
every member, the stack dim, its name and the outcome) + the walker.

state:  ["lz", stack_dim, stack_dim_name|None, [member skeleton, ...]]     (member skeletons as in c01_ops)
ops:    ["lset", key, shape, dev] ["ldel", key] ["lrename", old, new] ["lsetnames", names|None] ["lsetbatch", bs] ["linsert", index, member skeleton]
"""
from __future__ import annotations

import torch

import c01_ops as O


def lsnap(ls):
    return ["lz", int(ls.stack_dim), ls._td_dim_name, [O.snap(m) for m in ls.tensordicts]]


def sx_lz(st):
    return f"(lz {st[1]} {'none' if st[2] is None else O.hexs(st[2])} ({' '.join(O.sx_tree(m) for m in st[3])}))"


def sx_lop(op):
    k = op[0]
    if k == "lset":
        return f"(lset {O.sx_path(op[1])} {O.sx_nats(op[2])} {op[3]})"
    if k == "ldel":
        return f"(ldel {O.sx_path(op[1])})"
    if k == "lrename":
        return f"(lrename {O.sx_path(op[1])} {O.sx_path(op[2])})"
    if k == "lsetnames":
        return f"(lsetnames {O.sx_names(op[1])})"
    if k == "lsetbatch":
        return f"(lsetbatch {O.sx_nats(op[1])})"
    if k == "linsert":
        return f"(linsert {op[1]} {O.sx_tree(op[2])})"
    raise AssertionError(k)


def lz_from_sx(v):
    return ["lz", v[1], None if v[2] == "none" else O.unhex(v[2]), [O.tree_from_sx(m) for m in v[3]]]


def gen_member(rng, mbs, dev, names, hetero):
    """a member: tensors, a nested tensordict (sometimes with more batch dims, sometimes with its own nested tensordict)"""
    kids = []
    for k in rng.sample(O.KEYS, rng.randint(1, 3)):
        if rng.random() < 0.4:
            cbs = O.gen_shape_ext(rng, mbs, 0, 1)[:3]
            cn = None if names is None else list(names) + [None] * (len(cbs) - len(mbs))
            sub = [[kk, ["l", O.gen_shape_ext(rng, cbs, 0, 1), dev if dev is not None else 0]] for kk in rng.sample(O.KEYS, rng.randint(0, 2))]
            if rng.random() < 0.25:
                sub.append(["g", ["n", list(cbs), dev, cn, []]])
            kids.append([k, ["n", cbs, dev, cn, sub]])
        else:
            kids.append([k, ["l", O.gen_shape_ext(rng, mbs, 0, 2), dev if dev is not None else 0]])
    return ["n", list(mbs), dev, names, kids]


def build_lazy(rng):
    from tensordict import LazyStackedTensorDict
    mbs = [rng.choice([1, 2, 3]) for _ in range(rng.randint(0, 2))]
    dev = rng.choice([None, None, 0, 1])
    names = O.gen_names(rng, len(mbs), 0.35)
    first = gen_member(rng, mbs, dev, names, False)
    n = rng.randint(1, 3)
    members = [first]
    for _ in range(n - 1):
        if rng.random() < 0.7:
            import copy
            members.append(copy.deepcopy(first))           # same keys
        else:
            members.append(gen_member(rng, mbs, dev, names, True))
    tds = [O.build(m) for m in members]
    sd = rng.randint(0, len(mbs))
    ls = LazyStackedTensorDict.lazy_stack(tds, sd)
    if rng.random() < 0.3:
        ls._td_dim_name = rng.choice(O.NAMEPOOL) if names is None or True else None
        if names is not None and ls._td_dim_name in names:
            ls._td_dim_name = None
    return ls


def gen_lop(rng, st):
    sd, sname, members = st[1], st[2], st[3]
    m0 = members[0]
    mbs = m0[1]
    bs = mbs[:sd] + [len(members)] + mbs[sd:]
    ents = [p for p, _ in O.entries_of(m0)]
    r = rng.random()
    if r < 0.35:
        key = tuple(rng.choice(ents)) if ents and rng.random() < 0.5 else tuple(rng.choice(O.KEYS) for _ in range(rng.choice([1, 1, 2, 3])))
        dest = O.get_at(m0, key[:-1])
        base = bs
        if dest is not None and dest[0] == "n" and len(key) > 1 and rng.random() < 0.7:
            base = dest[1][:sd] + [len(members)] + dest[1][sd:]      # what the nested tensordicts would accept
        sh = O.gen_shape_ext(rng, base, 0, 1)
        if rng.random() < 0.25:
            sh = O.mutate_shape(rng, sh)
        d = m0[2] if (m0[2] is not None and rng.random() < 0.7) else rng.choice([0, 0, 1])
        return ["lset", list(key), sh[:5], d]
    if r < 0.5:
        key = tuple(rng.choice(ents)) if ents and rng.random() < 0.8 else tuple(rng.choice(O.KEYS) for _ in range(rng.choice([1, 2])))
        return ["ldel", list(key)]
    if r < 0.65:
        old = tuple(rng.choice(ents)) if ents and rng.random() < 0.85 else (rng.choice(O.KEYS),)
        new = tuple(rng.choice(O.KEYS) for _ in range(rng.choice([1, 1, 2])))
        if ents and rng.random() < 0.3:
            sub = [p for p, c in O.entries_of(m0) if c[0] == "n"]
            if sub:
                new = tuple(rng.choice(sub)) + (rng.choice(O.KEYS),)
        return ["lrename", list(old), list(new)]
    if r < 0.8:
        n = len(bs)
        q = rng.random()
        if q < 0.15:
            names = None
        elif q < 0.7:
            names = O.gen_names(rng, n, 1.0) if n else []
        elif q < 0.85:
            names = [rng.choice(O.NAMEPOOL) for _ in range(n)]
        else:
            names = [rng.choice(O.NAMEPOOL + [None]) for _ in range(rng.randint(0, 4))]
        return ["lsetnames", names]
    if r < 0.87:
        return ["lsetbatch", O.mutate_shape(rng, bs) if rng.random() < 0.7 else list(bs)]
    # insert / append
    import copy
    m = copy.deepcopy(m0)
    q = rng.random()
    if q < 0.2:
        m[1] = O.mutate_shape(rng, mbs)[:3]
        m[4] = []
    elif q < 0.35:
        m[2] = rng.choice([None, 0, 1])
        m[4] = [kv for kv in m[4] if False]
    elif q < 0.6:
        nm = O.gen_names(rng, len(mbs), 1.0) if mbs else None

        def ren(s):
            if s[0] == "n":
                s[3] = None if nm is None else list(nm) + [None] * (len(s[1]) - len(nm))
                for _, c in s[4]:
                    ren(c)
        ren(m)
    elif q < 0.75:
        def unname(s):
            if s[0] == "n":
                s[3] = None
                for _, c in s[4]:
                    unname(c)
        unname(m)
    return ["linsert", rng.randint(0, len(members) + 1), m]


def apply_lop(ls, op, built=None):
    k = op[0]
    try:
        with O.time_limit(10):
            if k == "lset":
                ls.set(tuple(op[1]), torch.zeros(op[2], device=O.DEVS[op[3]]))
            elif k == "ldel":
                ls.del_(tuple(op[1]))
            elif k == "lrename":
                ls.rename_key_(tuple(op[1]), tuple(op[2]))
            elif k == "lsetnames":
                ls.names = op[1]
            elif k == "lsetbatch":
                ls.batch_size = op[1]
            elif k == "linsert":
                ls.insert(op[1], built)
            else:
                raise AssertionError(k)
        return ["ok"]
    except TimeoutError:
        raise
    except Exception as e:  # noqa
        return ["err", O.cls_of(e)]


def fixed_lazy():
    """directed cases: a names assignment that a LATER member refuses after an earlier one accepted it (the new names clash with the
    name of an extra dim of a nested tensordict only that member has) — fix 23f256e: the members get their names back"""
    from tensordict import LazyStackedTensorDict, TensorDict

    def hetero(sd, named_first):
        m0 = TensorDict({"q": TensorDict({}, [2, 3])}, [2, 3], names=["w", None] if named_first else None)
        m1 = TensorDict({"n": TensorDict({}, [2, 3, 1], names=["w", None, "x"] if named_first else [None, None, "x"])}, [2, 3],
                        names=["w", None] if named_first else None)
        m2 = TensorDict({"q": TensorDict({}, [2, 3])}, [2, 3], names=["w", None] if named_first else None)
        return LazyStackedTensorDict(m0, m1, m2, stack_dim=sd)
    out = []
    for sd in (0, 1, 2):
        for nf in (False, True):
            for nm in (["x", "y"], ["y", "x"], ["y", "z"]):
                names = list(nm)
                names.insert(sd, "s")
                out.append((hetero(sd, nf), ["lsetnames", names]))
    return out


def run_lazy(run, drv, rng, nh):
    from common import Infra, parse_sx
    recs = []

    def one_step(ls, op, built, hid, stepno, pre):
        case = {"container": "lazy-root", "history": hid, "step": stepno, "pre": pre, "op": op}
        out = apply_lop(ls, op, built)
        try:
            post = lsnap(ls)
            viol = O.walk_coherent(ls)
        except Exception as e:  # noqa
            run.oracle_fail("walk-lazy", case, f"the stack cannot be walked after {op[0]}: {type(e).__name__}: {str(e)[:120]}", "unobservable:" + op[0])
            return False
        run.case(__import__("json").dumps([pre, op]))
        run.count("ops.lazy", op[0])
        run.count("outcome.lazy", out[0] + (":" + out[1] if out[0] == "err" else ""))
        recs.append({"case": case, "pre": pre, "op": op, "impl": [post, out]})
        viol = [v for v in viol if "cannot be read" not in v]      # names that differ between members: readable again only member by member (observation)
        if viol:
            run.oracle_fail("walk-lazy", case, f"after {op[0]} ({out}): " + "; ".join(viol[:3]), f"lazy:{op[0]}:{out[0]}")
            return False
        run.oracle_ok("walk-lazy")
        return True

    for i, (ls, op) in enumerate(fixed_lazy()):
        run.count("ops.lazy", "fixed:names-refused-by-later-member")
        one_step(ls, op, None, f"fixed-{i}", 0, lsnap(ls))
    for hid in range(nh):
        try:
            ls = build_lazy(rng)
            st = lsnap(ls)
        except Exception:  # noqa
            continue
        for stepno in range(rng.randint(1, 12)):
            pre = lsnap(ls)
            op = gen_lop(rng, pre)
            built = None
            if op[0] == "linsert":
                try:
                    built = O.build(op[2])
                except Exception:  # noqa
                    continue
                op = ["linsert", op[1], O.snap(built)]
            if not one_step(ls, op, built, hid, stepno, pre):
                break
    reqs = [f"(c01.lstep {sx_lz(r['pre'])} {sx_lop(r['op'])})" for r in recs]
    from check_C01 import ask_batched
    for r, a, q in zip(recs, ask_batched(drv, reqs), reqs):
        if a == "(bad-op)":
            raise Infra("driver rejected " + q[:300])
        v = parse_sx(a)
        model = [lz_from_sx(v[0]), ["ok"] if v[1][0] == "ok" else ["err", v[1][1]]]
        run.corr("lazy.state", r["case"], r["impl"][0], model[0])
        run.corr("lazy.outcome", r["case"], r["impl"][1], model[1])
