"""C05 / C06 — `ast`-shape fingerprints of the functions the Lean models transcribe by hand.

A hand transcription is validated by sampled correspondence; an edit of a transcribed function that no sampled input exposes
would go unnoticed.  For every transcribed function the generators record a fingerprint of its syntax tree (docstrings, comments,
formatting and annotations dropped); `Props.C05.transcribed_lock_code` / `Props.C06.transcribed_cache_code` pin the fingerprints
the transcription was made from, so that any later edit of one of these functions breaks a proof obligation and asks for the
transcription to be looked at again.
"""
from __future__ import annotations

import ast
import hashlib

from common import REPO

# (file, class or "", function, which) ; which = "def" | "getter" | "setter"
C05_FUNCS = [
    ("tensordict/base.py", "TensorDictBase", "is_locked", "getter"), ("tensordict/base.py", "TensorDictBase", "is_locked", "setter"),
    ("tensordict/base.py", "TensorDictBase", "_propagate_lock", "def"), ("tensordict/base.py", "TensorDictBase", "_propagate_unlock", "def"),
    ("tensordict/base.py", "TensorDictBase", "_check_unlock", "def"), ("tensordict/base.py", "TensorDictBase", "lock_", "def"),
    ("tensordict/base.py", "TensorDictBase", "unlock_", "def"),
    ("tensordict/base.py", "TensorDictBase", "_lock_parents_weakrefs", "getter"),
    ("tensordict/utils.py", "", "lock_blocked", "def"), ("tensordict/utils.py", "", "_lock_after_memmap", "def"),
    ("tensordict/utils.py", "TensorDictFuture", "result", "def"),
    ("tensordict/_lazy.py", "LazyStackedTensorDict", "is_locked", "getter"), ("tensordict/_lazy.py", "LazyStackedTensorDict", "_lock_parents_weakrefs", "getter"),
    ("tensordict/_lazy.py", "LazyStackedTensorDict", "_propagate_lock", "def"), ("tensordict/_lazy.py", "LazyStackedTensorDict", "_propagate_unlock", "def"),
    ("tensordict/_lazy.py", "LazyStackedTensorDict", "share_memory_", "def"),
    ("tensordict/_lazy.py", "_CustomOpTensorDict", "is_locked", "getter"), ("tensordict/_lazy.py", "_CustomOpTensorDict", "lock_", "def"),
    ("tensordict/_lazy.py", "_CustomOpTensorDict", "unlock_", "def"), ("tensordict/_lazy.py", "_CustomOpTensorDict", "_remove_lock", "def"),
    ("tensordict/_lazy.py", "_CustomOpTensorDict", "_propagate_lock", "def"), ("tensordict/_lazy.py", "_CustomOpTensorDict", "_propagate_unlock", "def"),
    ("tensordict/_td.py", "_SubTensorDict", "is_locked", "getter"), ("tensordict/_td.py", "_SubTensorDict", "lock_", "def"),
    ("tensordict/_td.py", "_SubTensorDict", "unlock_", "def"), ("tensordict/_td.py", "_SubTensorDict", "_remove_lock", "def"),
    ("tensordict/_td.py", "_SubTensorDict", "_propagate_lock", "def"),
    ("tensordict/_td.py", "TensorDict", "share_memory_", "def"),
    ("tensordict/nn/params.py", "TensorDictParams", "is_locked", "getter"), ("tensordict/nn/params.py", "TensorDictParams", "_propagate_lock", "def"),
    ("tensordict/nn/params.py", "TensorDictParams", "_propagate_unlock", "def"), ("tensordict/nn/params.py", "_unlock_and_set", "__call__", "def"),
    ("tensordict/persistent.py", "PersistentTensorDict", "_propagate_lock", "def"), ("tensordict/persistent.py", "PersistentTensorDict", "_propagate_unlock", "def"),
]
C06_FUNCS = [
    ("tensordict/utils.py", "", "cache", "def"), ("tensordict/utils.py", "", "_make_cache_key", "def"), ("tensordict/utils.py", "", "erase_cache", "def"),
    ("tensordict/base.py", "TensorDictBase", "_erase_cache", "def"), ("tensordict/base.py", "TensorDictBase", "_erase_cache_up", "def"),
    ("tensordict/base.py", "TensorDictBase", "_batch_size_setter", "def"), ("tensordict/base.py", "TensorDictBase", "clear_device_", "def"),
    ("tensordict/base.py", "TensorDictBase", "_set_device", "def"), ("tensordict/base.py", "TensorDictBase", "auto_device_", "def"),
    ("tensordict/_td.py", "TensorDict", "names", "setter"), ("tensordict/_td.py", "TensorDict", "_erase_names", "def"), ("tensordict/_td.py", "TensorDict", "_rename_subtds", "def"),
    ("tensordict/_lazy.py", "LazyStackedTensorDict", "names", "getter"), ("tensordict/_lazy.py", "LazyStackedTensorDict", "names", "setter"),
    ("tensordict/_lazy.py", "LazyStackedTensorDict", "_erase_names", "def"), ("tensordict/_lazy.py", "LazyStackedTensorDict", "_rename_subtds", "def"),
    ("tensordict/_lazy.py", "LazyStackedTensorDict", "clear_device_", "def"),
]

_TREES = {}


def _tree(rel):
    if rel not in _TREES:
        _TREES[rel] = ast.parse((REPO / rel).read_text())
    return _TREES[rel]


def _find(rel, cls, name, which):
    body = _tree(rel).body
    if cls:
        body = next((n.body for n in body if isinstance(n, ast.ClassDef) and n.name == cls), None)
        if body is None:
            return None
    cands = [n for n in body if isinstance(n, (ast.FunctionDef, ast.AsyncFunctionDef)) and n.name == name]
    for n in cands:
        decos = [ast.unparse(d) for d in n.decorator_list]
        is_setter = any(d.endswith(".setter") for d in decos)
        is_getter = any(d == "property" or d.endswith("property") for d in decos)
        if which == "setter" and is_setter:
            return n
        if which == "getter" and is_getter and not is_setter:
            return n
        if which == "def" and not is_setter and not is_getter:
            return n
    return None


class _Strip(ast.NodeTransformer):
    def visit_FunctionDef(self, node):
        self.generic_visit(node)
        node.returns = None
        for a in node.args.args + node.args.kwonlyargs + node.args.posonlyargs + ([node.args.vararg] if node.args.vararg else []) + ([node.args.kwarg] if node.args.kwarg else []):
            a.annotation = None
        if node.body and isinstance(node.body[0], ast.Expr) and isinstance(node.body[0].value, ast.Constant) and isinstance(node.body[0].value.value, str):
            node.body = node.body[1:] or [ast.Pass()]
        return node


def fingerprint(node) -> int:
    import copy
    n = _Strip().visit(copy.deepcopy(node))
    text = ast.dump(n, annotate_fields=False, include_attributes=False)
    return int(hashlib.sha256(text.encode()).hexdigest()[:12], 16)


def rows(funcs):
    out = []
    for rel, cls, name, which in funcs:
        n = _find(rel, cls, name, which)
        out.append((rel, f"{cls}.{name}" if cls else name, which, fingerprint(n) if n is not None else 0))
    return out


def lean_def(name, funcs):
    ls = [f"/-- fingerprints of the syntax trees of the transcribed functions (file, function, def | getter | setter, fingerprint; 0 = not found) -/",
          f"def {name} : List (String × String × String × Nat) := ["]
    rs = rows(funcs)
    ls += [f'  ("{rel}", "{q}", "{w}", {h}),' for rel, q, w, h in rs]
    ls[-1] = ls[-1].rstrip(",")
    ls.append("]")
    return "\n".join(ls)


def repin():
    """after looking at an edited transcribed function (and updating the model if the edit matters): write the current
    fingerprints into the two theorems.  `VERIF_REPO=… python harness/c05_shapes.py --repin`"""
    from common import VERIF

    def lit(funcs):
        return "[\n" + ",\n".join(f'    ("{a}", "{b}", "{c}", {d})' for a, b, c, d in rows(funcs)) + "]"
    for rel, name, funcs in (("lean/TdVerif/Props/C05.lean", "Gen.LockTable.lockCode", C05_FUNCS), ("lean/TdVerif/Props/C06.lean", "cacheCode", C06_FUNCS)):
        p = VERIF / rel
        s = p.read_text()
        a = s.index(f": {name} = [") + len(f": {name} = ")
        b = s.index("] := by\n  decide +kernel", a) + 1
        new = s[:a] + lit(funcs) + s[b:]
        if new != s:
            p.write_text(new)
            print("re-pinned", rel)


if __name__ == "__main__":
    import sys
    if "--repin" in sys.argv:
        repin()
    else:
        print(lean_def("lockCode", C05_FUNCS))
        print(lean_def("cacheCode", C06_FUNCS))
