"""C02 (shared with C17): pin the SOURCE of every function the Lean models transcribe.

`Gen/C02Src.lean` (regenerated on every run) lists, per transcribed function, a hash of its AST (docstring removed, so comments /
docstrings / formatting do not matter).  `Model/C02Pins.lean` holds the hashes of the sources the models were transcribed from and
validated against; `Props.C02.transcribed_sources_unchanged` states that they are equal.  An edit of a transcribed function is
therefore noticed even when no sampled input behaves differently: the obligation fails until the model has been re-read against the
new source and the pins refreshed (`python harness/c02_gen.py --repin`, builder's action).
"""
from __future__ import annotations

import ast
import hashlib
import sys

from common import LEAN, REPO
from gen_tables import lean_str, write_if_changed

HEADER = "-- GENERATED from the tensordict working tree by harness/c02_gen.py on every run; do not edit\n"

# (file, qualified name, what transcribes it)
C02_SOURCES = [
    ("tensordict/utils.py", "_maybe_correct_neg_dim", "C02Td.maybeCorrectNegDim"),
    ("tensordict/utils.py", "_infer_size_impl", "C02Td.inferSizeImpl"),
    ("tensordict/utils.py", "infer_size_impl", "C02Td.inferSizeImpl"),
    ("tensordict/utils.py", "_get_shape_from_args", "C17Ctx.shapeFromArgs / harness spellings"),
    ("tensordict/_td.py", "TensorDict._transpose", "C02Td.transposeMeta"),
    ("tensordict/_td.py", "TensorDict._permute", "C02Td.permuteMeta"),
    ("tensordict/_td.py", "TensorDict._squeeze", "C02Td.squeezeMeta"),
    ("tensordict/_td.py", "TensorDict._unsqueeze", "C02Td.unsqueezeMeta"),
    ("tensordict/_td.py", "TensorDict._view", "C02Td.viewMeta"),
    ("tensordict/_td.py", "TensorDict.reshape", "C02Td.viewMeta"),
    ("tensordict/_td.py", "TensorDict.expand", "C02Td.expandMeta"),
    ("tensordict/_td.py", "TensorDict.split", "C02Td.splitNode"),
    ("tensordict/_td.py", "TensorDict._unbind", "C02Td.unbindNode"),
    ("tensordict/_td.py", "TensorDict._repeat", "C02Td.repeatNode"),
    ("tensordict/_td.py", "TensorDict.repeat_interleave", "C02Td.riNode"),
    ("tensordict/_td.py", "TensorDict.masked_select", "C02Td.mselNode"),
    ("tensordict/base.py", "TensorDictBase.transpose", "C02Td.transposeMeta (dim normalisation)"),
    ("tensordict/base.py", "TensorDictBase.permute", "C02Td.permuteMeta"),
    ("tensordict/base.py", "TensorDictBase.squeeze", "C02Td.squeezeMeta"),
    ("tensordict/base.py", "TensorDictBase.unsqueeze", "C02Td.unsqueezeMeta"),
    ("tensordict/base.py", "TensorDictBase.flatten", "C02Td.flattenMeta"),
    ("tensordict/base.py", "TensorDictBase.unflatten", "C02Td.unflattenMeta"),
    ("tensordict/base.py", "TensorDictBase.view", "C02Td.viewMeta"),
    ("tensordict/base.py", "TensorDictBase.chunk", "C02Td.splitNode (chunk)"),
    ("tensordict/base.py", "TensorDictBase.unbind", "C02Td.unbindNode"),
    ("tensordict/base.py", "TensorDictBase.repeat", "C02Td.repeatNode"),
    ("tensordict/base.py", "TensorDictBase.gather", "C02Td.gatherNode"),
    ("tensordict/_torch_func.py", "_gather", "C02Td.gatherNode / gatherEntry"),
    ("tensordict/_torch_func.py", "_stack", "C02Td.tdStack / stackLevel"),
    ("tensordict/_torch_func.py", "_cat", "C02Td.tdCat / catLevel"),
    ("tensordict/_torch_func.py", "_split", "torch.split spelling"),
    ("tensordict/_torch_func.py", "_unbind", "torch.unbind spelling"),
]

C17_SOURCES = [
    ("tensordict/utils.py", "_as_context_manager", "C17Ctx.applyFwd (recorded)"),
    ("tensordict/base.py", "TensorDictBase.__enter__", "C17Ctx.withBlock"),
    ("tensordict/base.py", "TensorDictBase.__exit__", "C17Ctx.exitBlock / withTempBlock"),
] + [("tensordict/_contextlib.py", f"_reverse_{n}", "C17Ctx.reverse / writeBack / writeBackB")
     for n in ("lock", "unlock", "transpose", "flatten_keys", "unflatten_keys", "flatten", "unflatten", "permute", "view", "unsqueeze", "squeeze")]

_cache: dict[str, ast.Module] = {}


class Untranslatable(Exception):
    pass


def _module(rel):
    if rel not in _cache:
        _cache[rel] = ast.parse((REPO / rel).read_text())
    return _cache[rel]


def _find(rel, qual):
    parts = qual.split(".")
    body = _module(rel).body
    for cls in parts[:-1]:
        nxt = [n for n in body if isinstance(n, ast.ClassDef) and n.name == cls]
        if not nxt:
            raise Untranslatable(f"{rel}: class {cls} not found")
        body = nxt[-1].body
    fns = [n for n in body if isinstance(n, (ast.FunctionDef, ast.AsyncFunctionDef)) and n.name == parts[-1]]
    # `@overload` stubs precede the implementation: the last definition is the one that runs
    if not fns:
        raise Untranslatable(f"{rel}: function {qual} not found")
    return fns[-1]


def fn_hash(rel, qual) -> str:
    fn = _find(rel, qual)
    body = list(fn.body)
    if body and isinstance(body[0], ast.Expr) and isinstance(getattr(body[0], "value", None), ast.Constant) and isinstance(body[0].value.value, str):
        body = body[1:]
    dump = ast.dump(ast.Module(body=[ast.FunctionDef(name=fn.name, args=fn.args, body=body or [ast.Pass()], decorator_list=fn.decorator_list,
                                                     returns=None, type_comment=None)], type_ignores=[]), include_attributes=False)
    return hashlib.sha256(dump.encode()).hexdigest()[:16]


def table(sources):
    return [(f"{rel}:{qual}", fn_hash(rel, qual)) for rel, qual, _ in sources]


def lean_table(ns_def: str, doc: str, rows) -> str:
    return (f"/-- {doc} -/\ndef {ns_def} : List (String × String) := [\n"
            + ",\n".join(f"  ({lean_str(k)}, {lean_str(h)})" for k, h in rows) + "\n]\n")


def gen_src() -> str:
    return (HEADER + "\nnamespace TdVerif.Gen\n\n"
            + lean_table("c02Sources", "AST hash (docstring removed) of every function Model/C02Td.lean transcribes, in the working tree", table(C02_SOURCES))
            + "\n"
            + lean_table("c17Sources", "AST hash of every function Model/C17Ctx.lean transcribes, in the working tree", table(C17_SOURCES))
            + "\nend TdVerif.Gen\n")


def regenerate() -> bool:
    _cache.clear()
    return write_if_changed("C02Src.lean", gen_src())


def changed_since_pin():
    """names of the transcribed functions whose source differs from the pinned one (for the message of the failing obligation)"""
    import re
    out = []
    for fname, rows in (("C02Pins.lean", table(C02_SOURCES)), ("C17Pins.lean", table(C17_SOURCES))):
        p = LEAN / "TdVerif" / "Model" / fname
        pinned = dict(re.findall(r'\("([^"]+)", "([0-9a-f]+)"\)', p.read_text())) if p.exists() else {}
        out += [k for k, h in rows if pinned.get(k) != h]
    return out


def repin():
    for fname, ns, d, rows in (("C02Pins.lean", "TdVerif.C02", "c02Pinned", table(C02_SOURCES)), ("C17Pins.lean", "TdVerif.C17", "c17Pinned", table(C17_SOURCES))):
        text = ("/-\n  Hashes of the sources the models were transcribed from and last validated against (harness/c02_gen.py --repin).\n"
                "  Refreshed by the builder after re-reading the model against a changed function; compared with Gen/C02Src.lean by\n"
                "  `transcribed_sources_unchanged`.\n-/\nnamespace " + ns + "\n\n"
                + lean_table(d, "pinned AST hashes", rows) + "\nend " + ns + "\n")
        (LEAN / "TdVerif" / "Model" / fname).write_text(text)


if __name__ == "__main__":
    if "--repin" in sys.argv:
        repin()
        print("pinned")
    regenerate()
    print(changed_since_pin())
