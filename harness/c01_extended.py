"""C01 extended domain (oracle only: walk_coherent after every call, including calls that raise).

Wider than the model: non-tensor entries, a lazily stacked nested tensordict, a tensorclass entry; in-place writes
(set_, set_at_, update_, update_at_), assignment by key and by index, update (dict / tensordict payloads), pop /
popitem, setdefault, auto_batch_size_, refine_names, flatten_keys / unflatten_keys / select / exclude in place.
"""
from __future__ import annotations

import torch

import c01_ops as O


_TC = None


def tc_cls():
    global _TC
    if _TC is None:
        from tensordict import tensorclass

        @tensorclass
        class C01Pair:
            u: torch.Tensor
            w: torch.Tensor
        _TC = C01Pair
    return _TC


def rich_tree(rng):
    """a coherent tensordict with a few exotic entries, inserted in a random order (what a raising call leaves behind
    depends on which entries were already processed); returns None when the constructor refuses"""
    from tensordict import LazyStackedTensorDict, NonTensorData, TensorDict
    bs = O.gen_bs(rng)[:2]
    try:
        if rng.random() < 0.3:
            td = TensorDict({}, batch_size=bs)            # no plain tensor that could refuse a new batch size first
        else:
            td = O.build(O.gen_tree(rng, bs, None, depth=2))
        extras = []
        if rng.random() < 0.5:
            extras.append(("nt", lambda: NonTensorData("hello", batch_size=bs)))
        if bs and bs[0] > 0 and rng.random() < 0.35:
            # a NonTensorStack is a lazy stack: it cannot follow a new batch size
            extras.append(("nts", lambda: torch.stack([NonTensorData(str(i), batch_size=bs[1:]) for i in range(bs[0])], 0)))
        if rng.random() < 0.4:
            m = TensorDict({"p": torch.zeros(bs + [2])}, batch_size=bs)
            extras.append(("lazy", lambda: LazyStackedTensorDict.lazy_stack([m.clone(), m.clone()], len(bs))))
        if rng.random() < 0.4:
            extras.append(("tc", lambda: tc_cls()(u=torch.zeros(bs + [1]), w=torch.zeros(bs), batch_size=bs)))
        for name in ("e0", "e1"):
            if rng.random() < 0.35:
                # empty nested tensordicts legitimately follow any new batch size
                extras.append((name, lambda: TensorDict({}, batch_size=bs + ([rng.choice(O.DIMS)] if rng.random() < 0.3 else []))))
        rng.shuffle(extras)
        for name, mk in extras:
            td.set(name, mk())
    except Exception:  # noqa
        return None
    return td


def nodes(td, path=()):
    out = [(path, td)]
    for k, v in td.items():
        if isinstance(v, type(td)):
            out += nodes(v, path + (k,))
    return out


def rnd_tensor(rng, node, ok=0.7):
    bs = list(node.batch_size)
    sh = O.gen_shape_ext(rng, bs, 0, 2)
    if rng.random() > ok:
        sh = O.mutate_shape(rng, sh)
    return torch.zeros(sh)


def rnd_index(rng, node):
    n = len(node.batch_size)
    if n == 0:
        return rng.choice([(), Ellipsis])
    items = []
    for d in range(rng.randint(1, n)):
        size = node.batch_size[d]
        r = rng.random()
        if r < 0.4 and size > 0:
            items.append(rng.randrange(size))
        elif r < 0.7:
            items.append(slice(None, rng.randint(0, size)))
        else:
            items.append(slice(None))
    return tuple(items)


def one_op(rng, root):
    """returns (name, thunk)"""
    from tensordict import TensorDict
    ns = nodes(root)
    h, node = ns[0] if rng.random() < 0.55 else rng.choice(ns)
    keys = list(node.keys(True))
    key = rng.choice(keys) if keys and rng.random() < 0.7 else tuple(rng.choice(O.KEYS) for _ in range(rng.randint(1, 2)))
    strk = rng.choice(O.KEYS + ["nt", "nts", "lazy", "tc", "e0"])
    choices = [
        ("set", lambda: node.set(key, rnd_tensor(rng, node))),
        ("set_nested", lambda: node.set(key, O.build(O.gen_value(rng, ["n", list(node.batch_size), O.dev_id(node.device), None, []])))),
        ("set_", lambda: node.set_(key, rnd_tensor(rng, node))),
        ("set_at_", lambda: node.set_at_(key, rnd_tensor(rng, node), rnd_index(rng, node))),
        ("setitem_key", lambda: node.__setitem__(key, rnd_tensor(rng, node))),
        ("setitem_index", lambda: node.__setitem__(rnd_index(rng, node), TensorDict({strk: rnd_tensor(rng, node)}, batch_size=[]).expand(node.batch_size) if rng.random() < 0.5 else node.clone())),
        ("setitem_index_new_key", lambda: node.__setitem__(rnd_index(rng, node), {("z", "zz"): rnd_tensor(rng, node)})),
        ("update_dict", lambda: node.update({strk: rnd_tensor(rng, node), ("q", "r"): rnd_tensor(rng, node, ok=0.5)})),
        ("update_td", lambda: node.update(O.build(O.gen_tree(rng, O.mutate_shape(rng, list(node.batch_size))[:3] if rng.random() < 0.4 else list(node.batch_size), None, 1)))),
        ("update_bs", lambda: node.update(O.build(O.gen_tree(rng, O.gen_bs(rng), None, rng.randint(1, 2))), update_batch_size=True) if not h else None),   # through a nested handle it resizes the child: the documented exclusion
        ("update_", lambda: node.update_({k: torch.ones_like(v) for k, v in node.items() if isinstance(v, torch.Tensor)})),
        ("update_at_", lambda: node.update_at_({k: torch.ones_like(v[rnd_index(rng, node)]) for k, v in node.items() if isinstance(v, torch.Tensor)}, rnd_index(rng, node))),
        ("del", lambda: node.del_(key)),
        ("pop", lambda: node.pop(key, None)),
        ("popitem", lambda: node.popitem()),
        ("rename", lambda: node.rename_key_(key, tuple(rng.choice(O.KEYS) for _ in range(rng.randint(1, 3))))),
        ("batch_size", lambda: setattr(node, "batch_size", O.gen_shape_ext(rng, list(node.batch_size), 0, 1) if (h or rng.random() < 0.5) else O.mutate_shape(rng, list(node.batch_size)))),
        ("names", lambda: setattr(node, "names", O.gen_names(rng, len(node.batch_size), 0.8))),
        ("auto_batch_size_", lambda: node.auto_batch_size_(rng.choice([None, 1, 2])) if not h else None),
        ("refine_names", lambda: node.refine_names(*[rng.choice(O.NAMEPOOL + [None]) for _ in range(len(node.batch_size))])),
        ("flatten_keys", lambda: node.flatten_keys(inplace=True)),
        ("unflatten_keys", lambda: node.unflatten_keys(inplace=True)),
        ("select", lambda: node.select(*[k for k in keys if rng.random() < 0.5], inplace=True)),
        ("exclude", lambda: node.exclude(*[k for k in keys if rng.random() < 0.3], inplace=True)),
        ("create_nested", lambda: node.create_nested(key)),
        ("setdefault", lambda: node.setdefault(key, rnd_tensor(rng, node))),
        ("clear", lambda: node.clear() if rng.random() < 0.3 else None),
    ]
    return rng.choice(choices)


def fixed_scenarios(run):
    """regressions outside the skeleton language of the corpus (they need exotic entries)"""
    from tensordict import LazyStackedTensorDict, TensorDict
    # a lazily stacked nested tensordict refuses the new batch size: the empty sibling must not have been resized already
    m = TensorDict({}, [3, 2])
    td = TensorDict({"b": TensorDict({}, [3])}, [3])
    td.set("lazy", LazyStackedTensorDict.lazy_stack([m.clone(), m.clone(), m.clone()], 1))
    out = "ok"
    try:
        with O.time_limit(20):
            td.batch_size = [0]
    except TimeoutError:
        raise
    except Exception as e:  # noqa
        out = "raised:" + O.cls_of(e)
    viol = O.walk_coherent(td)
    run.count("ops.extended", "scenario:lazy-sibling")
    if viol:
        run.oracle_fail("walk-ext", {"scenario": "lazy-sibling", "call": "td.batch_size = [0]"}, f"({out}): " + "; ".join(viol[:3]),
                        "scenario:lazy-sibling:" + out)
    else:
        run.oracle_ok("walk-ext")
    # auto_batch_size_ is refused by a lazily stacked nested tensordict after the other nested tensordicts were cut:
    # nothing must have changed (former known finding C01-auto-batch-size-lazy-child)
    import torch as _t
    m = TensorDict({"p": _t.zeros(2, 3, 2)}, [2, 3])
    td = TensorDict({"c": TensorDict({}, [2, 3, 3])}, [2, 3])
    td.set("lazy", LazyStackedTensorDict.lazy_stack([m.clone(), m.clone()], 2))
    out = "ok"
    try:
        with O.time_limit(20):
            td.auto_batch_size_(1)
    except TimeoutError:
        raise
    except Exception as e:  # noqa
        out = "raised:" + O.cls_of(e)
    viol = O.walk_coherent(td)
    run.count("ops.extended", "scenario:auto-lazy")
    if viol:
        run.oracle_fail("walk-ext", {"scenario": "auto-lazy", "call": "td.auto_batch_size_(1)"}, f"({out}): " + "; ".join(viol[:3]),
                        "scenario:auto-lazy:" + out)
    else:
        run.oracle_ok("walk-ext")


def refusal_scenarios(run, rng, n):
    """a batch-size change that is refused must leave nothing resized, whichever entry refuses and whatever was processed
    before it: trees made of entries that follow any batch size (empty nested tensordicts, NonTensorData) and ONE entry that
    may refuse (NonTensorStack, lazy stack, tensorclass, nested tensordict with content, plain tensor), in a random insertion
    order, then one batch-size changing call; walk_coherent afterwards"""
    from tensordict import LazyStackedTensorDict, NonTensorData, TensorDict
    for i in range(n):
        bs = [rng.choice([1, 2, 3]) for _ in range(rng.randint(1, 2))]
        followers = []
        for j in range(rng.randint(1, 3)):
            if rng.random() < 0.7:
                followers.append((f"e{j}", lambda: TensorDict({}, batch_size=bs + ([rng.choice(O.DIMS)] if rng.random() < 0.3 else []))))
            else:
                followers.append((f"n{j}", lambda: NonTensorData("x", batch_size=bs)))
        kind = rng.choice(["nts", "lazy", "tc", "nested", "tensor", "nested_empty_deep"])
        if kind == "nts":
            refuser = lambda: torch.stack([NonTensorData(str(q), batch_size=bs[1:]) for q in range(bs[0])], 0)
        elif kind == "lazy":
            m = TensorDict({"p": torch.zeros(bs + [2])}, batch_size=bs)
            refuser = lambda: LazyStackedTensorDict.lazy_stack([m.clone(), m.clone()], len(bs))
        elif kind == "tc":
            refuser = lambda: tc_cls()(u=torch.zeros(bs + [1]), w=torch.zeros(bs), batch_size=bs)
        elif kind == "nested":
            refuser = lambda: TensorDict({"q": torch.zeros(bs + [2])}, batch_size=bs)
        elif kind == "nested_empty_deep":
            refuser = lambda: TensorDict({"d": TensorDict({"dd": TensorDict({}, bs + [2])}, bs)}, batch_size=bs)
        else:
            refuser = lambda: torch.zeros(bs + [2])
        entries = followers + [("r", refuser)]
        rng.shuffle(entries)
        try:
            td = TensorDict({}, batch_size=bs)
            for name, mk in entries:
                td.set(name, mk())
            if rng.random() < 0.3:
                td.names = [rng.choice(O.NAMEPOOL[:2]) if q == 0 else None for q in range(len(bs))]
        except Exception:  # noqa
            continue
        if O.walk_coherent(td):
            continue
        r = rng.random()
        if r < 0.45:
            new = O.mutate_shape(rng, bs)
            call, thunk = f"td.batch_size = {new}", (lambda: setattr(td, "batch_size", new))
        elif r < 0.65:
            new = O.gen_shape_ext(rng, bs, 1, 1)
            call, thunk = f"td.batch_size = {new}", (lambda: setattr(td, "batch_size", new))
        elif r < 0.8:
            new = bs[:rng.randint(0, len(bs) - 1)]
            call, thunk = f"td.batch_size = {new}", (lambda: setattr(td, "batch_size", new))
        else:
            bd = rng.choice([None, 1, 2])
            call, thunk = f"td.auto_batch_size_({bd})", (lambda: td.auto_batch_size_(bd))
        order = [name for name, _ in entries]
        out = "ok"
        try:
            with O.time_limit(10):
                thunk()
        except TimeoutError:
            raise
        except Exception as e:  # noqa
            out = "raised:" + O.cls_of(e)
        run.count("ops.extended", "refusal:" + kind)
        try:
            viol = O.walk_coherent(td)
        except Exception as e:  # noqa
            viol = [f"cannot be walked: {type(e).__name__}: {str(e)[:100]}"]
        if viol:
            run.oracle_fail("walk-ext", {"scenario": "refusal", "batch_size": bs, "entries in insertion order": order, "refuser": kind, "call": call},
                            f"after {call} ({out}): " + "; ".join(viol[:3]), f"refusal:{kind}:{out}")
        else:
            run.oracle_ok("walk-ext")


def update_bs_scenarios(run):
    """update(update_batch_size=True): the 2- and 3-level forms of the repaired defect d11e6ff, and the refused call that had already
    resized a nested tensordict (fingerprints start with `update_bs:`)"""
    from tensordict import TensorDict
    cases = {
        "2-level": (lambda: TensorDict({"c": TensorDict({"a": torch.zeros(3, 1)}, [3, 1]), "a": torch.zeros(3, 1)}, [3, 1]),
                    lambda: TensorDict({"c": TensorDict({"c": torch.zeros(1, 1, 3), "a": torch.zeros(1, 0, 0)}, [1])}, [])),
        "3-level": (lambda: TensorDict({"mid": TensorDict({"leaf": TensorDict({"x": torch.zeros(3)}, [3])}, [3])}, [3]),
                    lambda: TensorDict({"mid": TensorDict({"leaf": TensorDict({"x": torch.zeros(4)}, [4])}, [])}, [])),
        # a later entry is refused AFTER a nested tensordict was already given the batch size of the source (seed 14 of round 2)
        "refused-after-resize": (lambda: TensorDict({"b": torch.zeros(0, 3, 0, 0), "a": TensorDict({}, [0, 3]),
                                                     "e": TensorDict({"x": torch.zeros(0, 3, 1)}, [0, 3])}, [0, 3]),
                                 lambda: TensorDict({"a": TensorDict({}, [3]), "e": TensorDict({"x": torch.zeros(3, 1)}, [3]),
                                                     "b": torch.zeros(())}, [])),
        "refused-below-after-resize": (lambda: TensorDict({"e": TensorDict({"x": TensorDict({"q": torch.zeros(0, 3, 1)}, [0, 3]),
                                                                            "k": torch.zeros(0, 3)}, [0, 3])}, [0, 3]),
                                       lambda: TensorDict({"e": TensorDict({"x": TensorDict({"q": torch.zeros(3, 1)}, [3]),
                                                                            "zz": torch.zeros(())}, [])}, [])),
    }
    for name, (mk_dest, mk_src) in cases.items():
        dest, src = mk_dest(), mk_src()
        out = "ok"
        try:
            with O.time_limit(20):
                dest.update(src, update_batch_size=True)
        except TimeoutError:
            raise
        except Exception as e:  # noqa
            out = "raised:" + O.cls_of(e)
        run.count("ops.extended", "scenario:update_bs:" + name)
        viol = O.walk_coherent(dest)
        if viol:
            run.oracle_fail("walk-ext", {"scenario": "update_bs " + name, "call": "dest.update(src, update_batch_size=True)"},
                            f"({out}): " + "; ".join(viol[:3]), f"update_bs:{name}:{out}")
        else:
            run.oracle_ok("walk-ext")


def lazy_root(rng):
    """a lazily stacked ROOT: 2-3 members with the same keys (tensors, a nested tensordict, sometimes a non-tensor), stacked along a
    random dim, sometimes named"""
    from tensordict import LazyStackedTensorDict, NonTensorData, TensorDict
    mbs = [rng.choice([1, 2, 3]) for _ in range(rng.randint(0, 2))]
    n = rng.randint(2, 3)

    def member():
        d = {"a": torch.zeros(mbs + [rng.choice([1, 2])][:rng.randint(0, 1)] if False else mbs + [2]), "b": torch.zeros(mbs)}
        td = TensorDict(d, batch_size=mbs)
        td.set("n", TensorDict({"x": torch.zeros(mbs + nx + [1])}, batch_size=mbs + nx))
        return td
    nx = [rng.choice([2, 3])] if rng.random() < 0.5 else []      # the nested tensordict may have more batch dims than its member
    members = [member() for _ in range(n)]
    if rng.random() < 0.3:
        for m in members:
            m.set("nt", NonTensorData("s", batch_size=mbs))
    if rng.random() < 0.3:
        # heterogeneous keys: some members have an entry the others do not have
        for m in members[1:]:
            if rng.random() < 0.6:
                m.set(rng.choice(["h", "a2"]), torch.zeros(mbs + [1]))
        if rng.random() < 0.5:
            members[0].del_("b")
    if rng.random() < 0.15:
        # a stack of stacks
        inner = [LazyStackedTensorDict.lazy_stack([m.clone() for _ in range(2)], rng.randint(0, len(mbs))) for m in members]
        members = inner
        mbs = list(members[0].batch_size)
    dim = rng.randint(0, len(mbs))
    ls = LazyStackedTensorDict.lazy_stack(members, dim)
    if rng.random() < 0.3 and ls.batch_dims:
        try:
            ls.names = [rng.choice(O.NAMEPOOL[:3]) if q == 0 else None for q in range(ls.batch_dims)]
        except Exception:  # noqa
            pass
    return ls


def tc_root(rng):
    bs = [rng.choice([1, 2, 3]) for _ in range(rng.randint(0, 2))]
    from tensordict import TensorDict
    obj = tc_cls()(u=torch.zeros(bs + [1]), w=torch.zeros(bs), batch_size=bs)
    return obj


def root_op(rng, root, kind):
    """one mutating call on a lazy-stack / tensorclass root; returns (name, thunk)"""
    from tensordict import TensorDict
    bs = list(root.batch_size)

    def t(ok=0.7, extra=None):
        sh = O.gen_shape_ext(rng, bs, 0, 2) if extra is None else bs + extra
        if rng.random() > ok:
            sh = O.mutate_shape(rng, sh)
        return torch.zeros(sh)
    keys = [k for k in root.keys()] if hasattr(root, "keys") else []
    key = rng.choice(keys) if keys and rng.random() < 0.6 else rng.choice(O.KEYS + ["n", "u", "w"])
    nkey = (key, rng.choice(["x", "y"])) if rng.random() < 0.3 else key
    if rng.random() < 0.25:
        nkey = ("n", rng.choice(["x", "y"]))      # below the nested tensordict every member holds

    def idx():
        return rnd_index(rng, root)
    choices = [
        ("set", lambda: root.set(nkey, t())),
        ("set_nested", lambda: root.set(key, TensorDict({"y": t(0.8)}, batch_size=O.mutate_shape(rng, bs) if rng.random() < 0.3 else bs))),
        ("set_", lambda: root.set_(key, t())),
        ("set_at_", lambda: root.set_at_(key, t(0.8), idx())),
        ("setitem_key", lambda: root.__setitem__(nkey, t())),
        ("setitem_index", lambda: root.__setitem__(idx(), TensorDict({key: t(0.8)}, batch_size=[]).expand(bs) if rng.random() < 0.5 else root.clone())),
        ("setitem_index_new_key", lambda: root.__setitem__(idx(), {"zz": t(0.8)})),
        ("update_dict", lambda: root.update({key: t(), "q": t(0.5)})),
        ("update_", lambda: root.update_({key: t(0.8)})),
        ("update_at_", lambda: root.update_at_({key: t(0.8)}, idx())),
        ("del", lambda: root.del_(key)),
        ("pop", lambda: root.pop(key, None)),
        ("rename", lambda: root.rename_key_(key, rng.choice(O.KEYS))),
        ("batch_size", lambda: setattr(root, "batch_size", O.mutate_shape(rng, bs) if rng.random() < 0.6 else O.gen_shape_ext(rng, bs, 1, 1))),
        ("names", lambda: setattr(root, "names", O.gen_names(rng, len(bs), 0.8))),
        ("refine_names", lambda: root.refine_names(*[rng.choice(O.NAMEPOOL + [None]) for _ in range(len(bs))])),
        ("auto_batch_size_", lambda: root.auto_batch_size_(rng.choice([None, 1, 2]))),
        ("create_nested", lambda: root.create_nested(rng.choice(O.KEYS))),
        ("setdefault", lambda: root.setdefault(key, t())),
        ("exclude", lambda: root.exclude(key, inplace=True)),
        ("select", lambda: root.select(key, inplace=True)),
    ]
    def named_td():
        v = TensorDict({"y": t(0.85)}, batch_size=bs)
        if bs and rng.random() < 0.6:
            v.names = [rng.choice(O.NAMEPOOL[:3]) if q == 0 else None for q in range(len(bs))]
        return v
    choices += [
        ("set_named_td", lambda: root.set(rng.choice(O.KEYS), named_td())),
        ("update_td", lambda: root.update(TensorDict({key: t(0.8), "n": TensorDict({"x": t(0.7), "zz": t(0.7)}, batch_size=bs)}, batch_size=bs))),
        ("rename_into_nested", lambda: root.rename_key_(key, ("n", rng.choice(O.KEYS)))),
        ("rename_out_of_nested", lambda: root.rename_key_(("n", "x"), rng.choice(O.KEYS))),
        ("del_nested", lambda: root.del_(("n", rng.choice(["x", "y"])))),
        ("nested_handle_set", lambda: root.get("n").set(rng.choice(["x", "y", "q"]), t(0.7))),
        ("nested_handle_names", lambda: setattr(root.get("n"), "names", O.gen_names(rng, len(root.get("n").batch_size), 0.9))),
        ("nested_handle_setitem_index", lambda: root.get("n").__setitem__(idx(), {"q": t(0.8)})),
        ("flatten_keys", lambda: root.flatten_keys(inplace=True)),
        ("unflatten_keys", lambda: root.unflatten_keys(inplace=True)),
        ("popitem", lambda: root.popitem()),
        ("clear", lambda: root.clear() if rng.random() < 0.3 else None),
    ]
    if kind == "lazy-root":
        mbs = list(root.tensordicts[0].batch_size)
        choices += [
            ("append", lambda: root.append(TensorDict({"a": torch.zeros((mbs if rng.random() < 0.7 else O.mutate_shape(rng, mbs)) + [2]), "b": torch.zeros(mbs),
                                                       "n": TensorDict({"x": torch.zeros(mbs + [1])}, mbs)}, batch_size=mbs if rng.random() < 0.7 else O.mutate_shape(rng, mbs)))),
            ("insert", lambda: root.insert(rng.randint(0, 3), TensorDict({"a": torch.zeros(mbs + [2]), "b": torch.zeros(mbs), "n": TensorDict({"x": torch.zeros(mbs + [1])}, mbs)},
                                                                         batch_size=mbs if rng.random() < 0.7 else O.mutate_shape(rng, mbs)))),
            ("member_batch_size", lambda: setattr(root.tensordicts[0], "batch_size", O.mutate_shape(rng, mbs))),
        ]
    else:
        choices += [
            ("setattr", lambda: setattr(root, rng.choice(["u", "w"]), t())),
        ]
    return rng.choice(choices)


def root_streams(run, rng, n):
    """the property's other container kinds as ROOTS (oracle only): a lazily stacked tensordict and a tensorclass"""
    for kind, mk in (("lazy-root", lazy_root), ("tc-root", tc_root)):
        for hid in range(n):
            try:
                root = mk(rng)
                if O.walk_coherent(root):
                    continue
            except Exception:  # noqa
                continue
            for stepno in range(rng.randint(1, 12)):
                try:
                    name, thunk = root_op(rng, root, kind)
                except Exception:  # noqa
                    continue
                if kind == "lazy-root" and name == "member_batch_size":
                    # a member resized through a direct handle: the documented exclusion (the stack has no hook on its members)
                    continue
                out = "ok"
                try:
                    with O.time_limit(10):
                        thunk()
                except TimeoutError:
                    raise
                except Exception as e:  # noqa
                    out = "raised:" + O.cls_of(e)
                run.count("ops.extended", kind + ":" + name)
                try:
                    viol = O.walk_coherent(root)
                except Exception as e:  # noqa
                    viol = [f"cannot be walked: {type(e).__name__}: {str(e)[:100]}"]
                if viol:
                    run.oracle_fail("walk-ext", {"container": kind, "history": hid, "step": stepno, "op": name, "batch_size": list(root.batch_size) if not viol[0].startswith("cannot") else None},
                                    f"after {name} ({out}): " + "; ".join(viol[:3]),
                                    f"{kind}:names-mismatch:{name}:{out}" if all("cannot be read" in v for v in viol) else f"{kind}:{name}:{out}")
                    break
                run.oracle_ok("walk-ext")


def run_extended(run, rng):
    fixed_scenarios(run)
    update_bs_scenarios(run)
    root_streams(run, rng, 60 if run.tier == "quick" else 600)
    refusal_scenarios(run, rng, 300 if run.tier == "quick" else 3000)
    nh = 500 if run.tier == "quick" else 5000
    for hid in range(nh):
        td = rich_tree(rng)
        if td is None or O.walk_coherent(td):
            continue
        for stepno in range(rng.randint(1, 20)):
            try:
                name, thunk = one_op(rng, td)
            except Exception:  # noqa  (enumerating the keys of an exotic entry failed: not a case)
                continue
            try:
                pre = O.snap(td)
            except Exception:  # noqa
                pre = "unavailable"
            out = "ok"
            try:
                with O.time_limit(10):
                    thunk()
            except TimeoutError:
                raise
            except Exception as e:  # noqa
                out = "raised:" + O.cls_of(e)
            run.count("ops.extended", name)
            try:
                viol = O.walk_coherent(td)
            except Exception as e:  # noqa
                viol = [f"cannot be walked: {type(e).__name__}: {str(e)[:100]}"]
            if viol:
                run.oracle_fail("walk-ext", {"history": hid, "step": stepno, "pre": pre, "op": name},
                                f"after {name} ({out}): " + "; ".join(viol[:3]),
                                f"{name}:{out}" + (":NonTensorStack" if all("NonTensorStack" in x for x in viol) else ""))
                break
            run.oracle_ok("walk-ext")
