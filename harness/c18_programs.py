"""C18: dual-branch helpers exercised on both paths, and eager-vs-compiled straight-line programs."""
from __future__ import annotations

import unittest.mock as mock
import warnings

import torch

from common import err_class, sx, parse_sx, time_limit


def _canon_td(x):
    """exact, order-independent description of a program result: class, batch size, dim names, lock state,
    every leaf (key, shape, dtype, values); lazy stacks member by member"""
    from tensordict import LazyStackedTensorDict, TensorDictBase, is_tensorclass
    if isinstance(x, LazyStackedTensorDict):
        return ["lazy", x.stack_dim, list(x.batch_size), _names(x), bool(x.is_locked), str(x.device), [_canon_td(t) for t in x.tensordicts]]
    if is_tensorclass(x):
        return ["tc", type(x).__name__, _canon_td(x._tensordict)]
    if isinstance(x, TensorDictBase):
        items = sorted(((k if isinstance(k, str) else ".".join(k)), v) for k, v in x.items(True, True))
        leafkeys = set(x.keys(True, True))
        # inner nodes with their own class / batch size / names / lock state / device
        nodes = sorted([(k if isinstance(k, str) else ".".join(k)), type(x.get(k)).__name__, list(x.get(k).batch_size), _names(x.get(k)),
                        bool(x.get(k).is_locked), str(x.get(k).device)]
                       for k in x.keys(True, False) if k not in leafkeys and isinstance(x.get(k), TensorDictBase))
        return ["td", type(x).__name__, list(x.batch_size), _names(x), bool(x.is_locked), str(x.device), nodes,
                [[k, list(v.shape), str(v.dtype), _vals(v)] + ([type(v).__name__, bool(v.requires_grad)] if (v.requires_grad or type(v) is not torch.Tensor) else [])
                 if isinstance(v, torch.Tensor) else [k, "py", repr(v)] for k, v in items]]
    if isinstance(x, torch.Tensor):
        return ["t", list(x.shape), str(x.dtype), _vals(x)]
    if isinstance(x, (list, tuple)):
        return ["seq"] + [_canon_td(i) for i in x]
    if isinstance(x, dict):
        return ["dict"] + [[str(k), _canon_td(v)] for k, v in sorted(x.items(), key=lambda kv: str(kv[0]))]
    return ["py", repr(x)]


def _vals(v):
    """exact for integer / bool data; floats rounded to 1e-4 (backends may fuse float arithmetic differently)"""
    v = v.detach()
    if v.is_floating_point() or v.is_complex():
        return [("nan" if a != a else round(float(a), 4)) if not isinstance(a, complex) else repr(a) for a in v.reshape(-1).tolist()]
    return v.reshape(-1).tolist()


def _names(x):
    try:
        return list(x.names)
    except Exception as e:
        return "names-err:" + type(e).__name__


def helper_duals(run):
    """_parse_batch_size and _values_list/_items_list: eager branch vs compile-only branch (forced)."""
    import tensordict._td as TD
    import tensordict.base as B
    from tensordict import TensorDict

    drv = run._drv
    src_td = TensorDict({}, batch_size=[4, 2])
    spellings = []
    for shp in ([], [3], [3, 2], [0], [1, 0, 2]):
        spellings += [("size", torch.Size(shp)), ("tuple", tuple(shp)), ("list", list(shp))]
    import numpy as np
    spellings += [("int", 0), ("int", 3), ("absent", None), ("other", object()), ("other", "3")]
    # other iterables of integers (torch.Size accepts them): a fresh object per call (generators are consumed)
    iters = [lambda: range(3), lambda: range(0), lambda: np.array([3, 2]), lambda: np.array([], dtype=np.int64), lambda: torch.tensor([3, 2]),
             lambda: {4: "x", 2: "y"}, lambda: {5}, lambda: (i for i in [1, 0, 2]), lambda: {3: 1}.keys(), lambda: [np.int64(2), 3],
             lambda: (torch.tensor(2), 1), lambda: [True, 2], lambda: b"3"]
    spellings += [("iter", mk) for mk in iters]
    # iterables with a member that is no integer
    bads = [lambda: [3.0], lambda: (None,), lambda: ["3"], lambda: [3, 2.5], lambda: np.array([1.5]), lambda: torch.tensor([1.0]), lambda: [[1]], lambda: (x for x in [1.0])]
    spellings += [("badseq", mk) for mk in bads]
    for si, (kind, bs0) in enumerate(spellings):
        for src_kind, src in (("td", src_td), ("dict", {}), ("nosrc", None)):
            outs = []
            for comp in (False, True):
                bs = bs0() if kind in ("iter", "badseq") else bs0
                with mock.patch.object(TD, "is_compiling", lambda c=comp: c):
                    try:
                        outs.append([int(v) for v in TensorDict._parse_batch_size(src, bs)])
                    except Exception as e:
                        outs.append("err:" + err_class(e))
            bs = bs0() if kind in ("iter", "badseq") else bs0
            ints = [int(v) for v in (list(bs) if kind in ("size", "tuple", "list", "iter") else ([bs] if kind == "int" else []))]
            model = parse_sx(drv.ask(sx("c18.parse_bs", kind, ints, src_kind)))
            bs = f"#{si}:{type(bs).__name__}" + (":" + repr(bs)[:30] if kind in ("size", "tuple", "list", "int", "absent") else "")
            run.case(("parse_bs", kind, str(bs), src_kind))
            run.corr("parse_bs_eager", [kind, str(bs), src_kind], outs[0] if isinstance(outs[0], list) else outs[0], model[0] if model[0] != "err" else "err:value")
            run.corr("parse_bs_compile", [kind, str(bs), src_kind], outs[1], model[1] if model[1] != "err" else "err:value")
            if outs[0] != outs[1]:
                run.oracle_fail("parse_batch_size", [kind, str(bs), src_kind], f"eager={outs[0]} compile={outs[1]}", "parse_bs")
            else:
                run.oracle_ok("parse_batch_size")
    # key-aligned value lists
    rng = run.rng
    n = 60 if run.tier == "quick" else 400
    for it in range(n):
        keys = rng.sample(["a", "b", "c", "d", "e"], rng.randint(1, 5))
        td = TensorDict({k: torch.full((2,), i) for i, k in enumerate(keys)}, batch_size=[2])
        if rng.random() < 0.4:
            td["n"] = TensorDict({"x": torch.full((2,), 77)}, batch_size=[2])
        allk = list(td.keys(True, True))
        sk = list(allk)
        rng.shuffle(sk)
        mode = rng.choice(["perm", "perm", "subset", "extra"])
        if mode == "subset" and len(sk) > 1:
            sk = sk[:-1]
        elif mode == "extra":
            sk = sk + ["zz"]
        outs = []
        for comp in (False, True):
            with mock.patch.object(B, "is_compiling", lambda c=comp: c):
                r = []
                for fn in ("_values_list", "_items_list"):
                    try:
                        v = getattr(td, fn)(True, True, sorting_keys=sk)
                        if fn == "_items_list":
                            v = v[1]
                        r.append([int(x.reshape(-1)[0]) for x in v])
                    except Exception as e:
                        r.append("err:" + err_class(e))
                outs.append(r)
        run.case(("values_list", tuple(map(str, allk)), tuple(map(str, sk))))
        run.count("values_list.mode", mode)
        # model: both branches of Model/ValuesList
        enc = lambda k: k if isinstance(k, str) else ".".join(k)
        vals = [int(td.get(k).reshape(-1)[0]) for k in allk]
        m = parse_sx(drv.ask(sx("c18.values_list", [enc(k) for k in allk], vals, [enc(k) for k in sk])))
        mm = lambda x: "err:key" if x == "err" else x
        run.corr("values_list_dict_branch", [list(map(str, allk)), list(map(str, sk))], outs[0][0], mm(m[0]))
        run.corr("values_list_index_branch", [list(map(str, allk)), list(map(str, sk))], outs[1][0], mm(m[1]))
        if outs[0] != outs[1]:
            run.oracle_fail("values_list", [list(map(str, allk)), list(map(str, sk))], f"eager={outs[0]} compile={outs[1]}", "values_list")
        else:
            run.oracle_ok("values_list")


# ------------------------------------------------------------------------------------ programs
def gen_program(rng, tier):
    """(shape, input kind, op names).  Round-1 vocabulary (the property's quantifier: construction, key access,
    shape ops, indexing, arithmetic, reductions, stack/cat, select/exclude, apply, to_dict) mixed with the
    round-2 vocabulary (names, lock, tuple keys, lazy stacks, tensorclass, tensordict.nn, consolidate, ...)."""
    import c18_ops as O
    shapes = [(3,), (2, 3), (3, 1), (2, 2, 2), (1,), (4, 2)]
    kind = rng.choice(["td", "td", "td", "named", "named", "lazy", "tc", "tdp"])
    shape = rng.choice(shapes)
    n = rng.randint(1, 6)
    ops = []
    for _ in range(n):
        r = rng.random()
        if r < 0.45:
            ops.append(rng.choice(O.ROUND1))
        elif r < 0.97:
            ops.append(rng.choice(O.ROUND2))
        else:
            ops.append(rng.choice(O.HETERO))
    if rng.random() < 0.2:
        ops[-1] = rng.choice(O.TERMINAL)
    # efficiency only: spellings that always run into one of the torch bugs of TORCH_BUGS are drawn rarely
    waste = {"all_any"} | ({"names_set", "names_none", "batch_size_set", "auto_batch_size"} if kind == "tc" else set())
    ops = [o if (o not in waste or rng.random() < 0.1) else rng.choice(O.ROUND1) for o in ops]
    return shape, kind, ops


def run_eager(shape, kind, ops):
    import c18_ops as O
    try:
        with time_limit(60):
            return _canon_td(O.run_program(O.make_input(shape, kind), ops))
    except Exception as ex:
        return "err"


LAST_COMPILED_ERROR = [""]


def run_compiled(shape, kind, ops, backend):
    import torch._dynamo
    import c18_ops as O
    torch._dynamo.reset()
    LAST_COMPILED_ERROR[0] = ""
    f = torch.compile(lambda td, ops=tuple(ops): O.run_program(td, ops), backend=backend)
    try:
        with time_limit(300):
            return _canon_td(f(O.make_input(shape, kind)))
    except TimeoutError:
        raise
    except Exception as ex:
        LAST_COMPILED_ERROR[0] = type(ex).__name__ + ": " + str(ex)[:4000]
        return "err"


# ---- torch bugs (NOT tensordict's): each one is reproduced WITHOUT tensordict at the start of the program stream;
# a compiled failure is attributed to it only while the torch-only reproduction still fails and the error text matches.
def _repro_setattr_wrapper_recursion():
    """a class whose __setattr__ wraps object.__setattr__ and assigns a property: dynamo recurses for ever
    (InternalTorchDynamoError: RecursionError).  tensorclass.__setattr__ is such a wrapper (`tc.names = ...`)."""
    import functools
    import torch._dynamo

    class A:
        @property
        def names(self):
            return self.__dict__.get("_n")

        @names.setter
        def names(self, v):
            self.__dict__["_n"] = v

    def wrap(setattr_):
        @functools.wraps(setattr_)
        def wrapper(self, key, value):
            return setattr_(self, key, value)
        return wrapper
    A.__setattr__ = wrap(A.__setattr__)

    def g(a, x):
        a.names = ["u"]
        return x + 1
    torch._dynamo.reset()
    try:
        torch.compile(g, backend="eager")(A(), torch.zeros(2))
        return False
    except Exception as ex:
        return "RecursionError" in str(ex)


def _repro_list_pop_dynamic_int():
    """an int argument of a compiled frame becomes a SymInt on the second distinct value (automatic dynamic);
    `list.pop(that_int)` then dies with InternalTorchDynamoError (SymNodeVariable() is not a constant).
    tensordict meets it in `TensorDict._squeeze(dim)` (`batch_size.pop(dim)`) when a lazy stack squeezes dim after dim."""
    import torch._dynamo

    def inner(x, l, d):
        l = list(l)
        l.pop(d)
        return x.reshape(-1)[:1] + len(l)
    torch._dynamo.reset()
    f = torch.compile(inner, backend="eager")
    try:
        f(torch.zeros(2, 3), [5, 6, 7], 2)
        f(torch.zeros(2, 3), [5, 6, 7], 1)
        return False
    except Exception as ex:
        return "SymNodeVariable() is not a constant" in str(ex)


def _repro_object_compare_symint():
    """`obj > n` where `obj` is a user object with `__gt__` and `n` an int argument that became a SymInt (second
    distinct value): dynamo evaluates `op(object(), None)` internally and dies with InternalTorchDynamoError.
    tensordict meets it in `TensorDict.__gt__` & co. when a nested tensordict is compared with a changing int."""
    import torch._dynamo

    class A:
        def __init__(self):
            self.t = torch.ones(2)

        def __gt__(self, o):
            return self.t > o

    def f(x, a, n):
        return x + (a > n)
    torch._dynamo.reset()
    fc = torch.compile(f, backend="eager")
    try:
        for n in (1, 2, 3):
            fc(torch.zeros(2), A(), n)
        return False
    except Exception as ex:
        return "not supported between instances of 'object' and 'NoneType'" in str(ex)


def _repro_range_index_frame_input():
    """`t[idx]` where `idx` is a `range` that reaches a compiled frame as an argument after the frame was compiled for
    another index (a slice): dynamo turns the range's ints into proxies and dies with InternalTorchDynamoError
    ('Proxy' object cannot be interpreted as an integer).  tensordict meets it in `utils._get_item(tensor, index)`,
    a frame of its own after a graph break (e.g. indexing a stack that holds non-tensor data)."""
    import torch._dynamo

    def g(t, idx):
        return t[idx]
    torch._dynamo.reset()
    f = torch.compile(g, backend="eager")
    x = torch.arange(6).reshape(3, 2)
    try:
        f(x, slice(1, None))
        f(x, range(2))
        return False
    except Exception as ex:
        return "'Proxy' object cannot be interpreted as an integer" in str(ex)


TORCH_BUGS = [
    {"id": "dynamo-range-index-frame-input", "repro": _repro_range_index_frame_input,
     "match": lambda msg: "'Proxy' object cannot be interpreted as an integer" in msg},
    {"id": "dynamo-object-compare-symint", "repro": _repro_object_compare_symint,
     "match": lambda msg: "not supported between instances of 'object' and 'NoneType'" in msg},
    {"id": "dynamo-list-pop-dynamic-int", "repro": _repro_list_pop_dynamic_int,
     "match": lambda msg: "SymNodeVariable() is not a constant" in msg and ".pop(" in msg},
    {"id": "dynamo-setattr-wrapper-recursion", "repro": _repro_setattr_wrapper_recursion,
     "match": lambda msg: "RecursionError" in msg and "setattr_(self, key, value)" in msg},
]


def live_torch_bugs(run):
    live = []
    for b in TORCH_BUGS:
        try:
            with time_limit(120):
                ok = b["repro"]()
        except Exception:
            ok = False
        run.notes.append(f"torch bug {b['id']}: torch-only reproduction {'still fails (exclusion active)' if ok else 'no longer fails (exclusion off)'}")
        if ok:
            live.append(b)
    return live


def recheck_fresh(shape, kind, ops, backend, expect_eager=None):
    """re-run one program (eager and compiled) in a fresh interpreter: dynamo keeps process-wide state that
    `torch._dynamo.reset()` does not clear (after ~100 compilations in one process torch 2.14 occasionally fails
    with internal assertions such as `sources must not be empty for symbol s9`); a difference counts only if it is
    still there in a clean process, which also makes every reported failing program reproducible on its own.
    Returns (agree, error signature of the compiled run)."""
    import json
    import os
    import subprocess
    import sys
    code = (
        "import sys, json, warnings, logging\n"
        "warnings.filterwarnings('ignore')\n"
        "for lg in ('torch._dynamo', 'torch._inductor', 'torch.fx', 'torch._guards'): logging.getLogger(lg).setLevel(logging.CRITICAL)\n"
        "import c18_programs as P\n"
        "shape, kind, ops, be = json.loads(sys.argv[1])\n"
        "e = P.run_eager(tuple(shape), kind, ops)\n"
        "c = P.run_compiled(tuple(shape), kind, ops, be)\n"
        "print('RECHECK ' + json.dumps([e == c, P.LAST_COMPILED_ERROR[0][:4000], str(e)[:300], str(c)[:300]]))\n"
    )
    # what dynamo traces depends on set iteration order, hence on the interpreter's string hash seed: three fixed
    # seeds are tried and the first one on which the two runs differ is reported (so the replay is deterministic)
    seen = None
    for hashseed in ("0", "1", "2"):
        try:
            p = subprocess.run([sys.executable, "-c", code, json.dumps([list(shape), kind, list(ops), backend])],
                               capture_output=True, text=True, timeout=600,
                               env={k: v for k, v in dict(os.environ, PYTHONHASHSEED=hashseed).items() if k not in ("LAZY_LEGACY_OP", "CAPTURE_NONTENSOR_STACK")})
            for line in p.stdout.splitlines():
                if line.startswith("RECHECK "):
                    agree, err, e, c = json.loads(line[len("RECHECK "):])
                    if agree is False:
                        return False, err + f" [PYTHONHASHSEED={hashseed}]", e, c
                    if expect_eager is not None and e != str(expect_eager)[:300]:
                        # the clean process did not even reproduce the eager result: no verdict from it
                        continue
                    seen = True
        except Exception:
            pass
    return seen, "", "", ""


# fixed programs, always run first: minimised past failures and one witness per round-2 area
CORPUS = [
    ((3,), "td", ["idx_empty"]), ((2, 3), "td", ["idx_empty", "mul2"]), ((3,), "td", ["idx_neg", "add_td"]), ((2, 3), "td", ["idx_step", "sum0"]),
    # operands whose key sets differ (seeded C18-6: a later operand with an extra key was silently accepted under compile)
    ((3,), "td", ["stack_extra_later"]), ((2, 3), "td", ["cat_extra_later"]), ((3,), "td", ["stack_missing_later"]),
    ((3,), "td", ["dense_stack_extra_later"]),
    # dimension names survive ops under compile (defect repaired in round 2)
    ((2, 3), "named", ["unsqueeze0", "transpose01"]), ((2, 3), "named", ["construct_names", "idx0"]),
    # a tensorclass made from a tensordict shares it under compile too; lazy stacks stay lazy (defects repaired in round 2)
    ((2, 3), "lazy", ["tc_from_td"]), ((2, 3), "tc", ["lazy_stack0"]),
    # permuting a lazy stack under compile (numpy integer as stack_dim, repaired in round 2)
    ((2, 3), "lazy", ["permute_rev"]),
    # TensorDictParams._new_unsafe under compile kept neither the batch size nor the class (defect repaired in round 2)
    ((2, 3), "tdp", ["gather0"]), ((2, 3), "tdp", ["mul2", "idx0"]),
    # consolidate on strided / offset leaves (compile branch of the contiguity test)
    ((2, 3), "td", ["transpose01", "idx_tail", "consolidate"]),
    # boolean-mask index under compile (torch.Size of a fake tensor in _getitem_batch_size, repaired in round 2)
    ((2, 3), "td", ["idx_bool_mask", "mul2"]),
    # open finding C18-consolidate-unit-stride: a single-element leaf with a non-unit stride (compile branch of the contiguity test)
    ((4, 2), "td", ["idx_head", "idx_ell0", "consolidate"]),
    # batch size spelled as a bare int 0 (seeded C18-2)
    ((3,), "td", ["construct_int0"]),
    # nested key whose sub-tuple unravels to one multi-character name (seeded C18-3)
    ((3,), "td", ["tuple_get_set", "select_nested"]),
]


def programs(run):
    import torch._dynamo
    import c18_ops as O
    rng = run.rng
    backends = ["eager"] if run.tier == "quick" else ["eager", "aot_eager", "inductor"]
    nprog = 30 if run.tier == "quick" else 180
    progs = list(CORPUS)
    if run.tier == "thorough":
        # the open finding C18-consolidate-aot-alias, re-derived on every thorough run (explicit backend)
        progs.append(((2, 3), "td", ["idx_tail", "consolidate"], "aot_eager"))
    tries = 0
    while len(progs) < nprog and tries < 20 * nprog:
        tries += 1
        shape, kind, ops = gen_program(rng, run.tier)
        # mostly valid programs: an eagerly failing program is kept one time in five (both paths must fail)
        if run_eager(shape, kind, ops) == "err" and rng.random() < 0.8:
            continue
        progs.append((shape, kind, ops))
    warnings.filterwarnings("ignore")
    import logging
    for lg in ("torch._dynamo", "torch._inductor", "torch.fx"):
        logging.getLogger(lg).setLevel(logging.ERROR)
    live = live_torch_bugs(run)
    for i, prog in enumerate(progs):
        shape, kind, ops = prog[:3]
        be = prog[3] if len(prog) > 3 else backends[i % len(backends)]
        e = run_eager(shape, kind, ops)
        try:
            c = run_compiled(shape, kind, ops, be)
        except TimeoutError:
            run.notes.append(f"compile timeout on {ops}")
            continue
        run.case(("prog", shape, kind, tuple(ops), be), nontrivial=e != "err")
        run.count("prog.len", len(ops))
        run.count("prog.input", kind)
        run.count("prog.outcome", "err" if e == "err" else "ok")
        run.count("prog.backend", be)
        for o in ops:
            run.count("prog.op", o)
        if e != c:
            # confirm in a clean process before anything is reported
            agree, err2, e2, c2 = recheck_fresh(shape, kind, ops, be, expect_eager=e)
            if agree is True:
                run.count("prog.differs_only_in_long_process", 1)
                run.notes.append(f"program {kind}:{ops} [{be}] differed in the long-running process only ({LAST_COMPILED_ERROR[0][:120]!r}); agrees in a fresh process")
                c = e
            elif agree is False:
                # (the difference is confirmed; keep the full in-process values for the comparison below and
                # take the error text of the clean run when that one raised)
                if c2 == "err":
                    LAST_COMPILED_ERROR[0] = err2
                    c = "err"
        bug = next((b for b in live if e != c and c == "err" and b["match"](LAST_COMPILED_ERROR[0])), None)
        if bug is not None:
            run.count("prog.torch_bug", bug["id"])
            continue
        if e != c:
            # one line, whitespace collapsed: the first lines of the compiled run's exception (dynamo wraps the cause)
            errsig = " ".join(LAST_COMPILED_ERROR[0].split())[:420] if c == "err" else ("eager-raises" if e == "err" else "values")
            run.oracle_fail("program", {"shape": list(shape), "input": kind, "ops": ops, "backend": be},
                            f"eager={str(e)[:300]} compiled={str(c)[:300]} {LAST_COMPILED_ERROR[0][:200] if c == 'err' else ''}",
                            f"prog:{be}:{kind}:{','.join(ops)}|{errsig}")
        else:
            run.oracle_ok("program")
        if i in (5, 9, 20):
            run.sample({"stream": "program", "shape": list(shape), "input": kind, "ops": ops, "backend": be, "agree": e == c})
    torch._dynamo.reset()
