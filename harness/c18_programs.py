"""C18: dual-branch helpers exercised on both paths, and eager-vs-compiled straight-line programs."""
from __future__ import annotations

import unittest.mock as mock
import warnings

import torch

from common import err_class, sx, parse_sx, time_limit


def _canon_td(x):
    from tensordict import TensorDictBase
    if isinstance(x, TensorDictBase):
        items = sorted(((k if isinstance(k, str) else ".".join(k)), v) for k, v in x.items(True, True))
        return ["td", list(x.batch_size), [[k, list(v.shape), v.reshape(-1).tolist()] for k, v in items if isinstance(v, torch.Tensor)]]
    if isinstance(x, torch.Tensor):
        return ["t", list(x.shape), x.reshape(-1).tolist()]
    if isinstance(x, (list, tuple)):
        return ["seq"] + [_canon_td(i) for i in x]
    if isinstance(x, dict):
        return ["dict"] + [[k, _canon_td(v)] for k, v in sorted(x.items())]
    return ["py", repr(x)]


def helper_duals(run):
    """_parse_batch_size and _values_list/_items_list: eager branch vs compile-only branch (forced)."""
    import tensordict._td as TD
    import tensordict.base as B
    from tensordict import TensorDict

    drv = run._drv
    src_td = TensorDict({}, batch_size=[4, 2])
    spellings = []
    for shp in ([], [3], [3, 2], [0], [1, 0, 2]):
        spellings += [("size", torch.Size(shp)), ("tuple", tuple(shp)), ("list", list(shp))]
    spellings += [("int", 0), ("int", 3), ("absent", None), ("other", object())]
    for kind, bs in spellings:
        for src_kind, src in (("td", src_td), ("dict", {}), ("nosrc", None)):
            outs = []
            for comp in (False, True):
                with mock.patch.object(TD, "is_compiling", lambda c=comp: c):
                    try:
                        outs.append(list(TensorDict._parse_batch_size(src, bs)))
                    except Exception as e:
                        outs.append("err:" + err_class(e))
            model = parse_sx(drv.ask(sx("c18.parse_bs", kind, list(bs) if kind in ("size", "tuple", "list") else ([bs] if kind == "int" else []), src_kind)))
            run.case(("parse_bs", kind, str(bs), src_kind))
            run.corr("parse_bs_eager", [kind, str(bs), src_kind], outs[0] if isinstance(outs[0], list) else outs[0], model[0] if model[0] != "err" else "err:value")
            run.corr("parse_bs_compile", [kind, str(bs), src_kind], outs[1], model[1] if model[1] != "err" else "err:value")
            if outs[0] != outs[1]:
                run.oracle_fail("parse_batch_size", [kind, str(bs), src_kind], f"eager={outs[0]} compile={outs[1]}", "parse_bs")
            else:
                run.oracle_ok("parse_batch_size")
    # key-aligned value lists
    rng = run.rng
    n = 60 if run.tier == "quick" else 400
    for it in range(n):
        keys = rng.sample(["a", "b", "c", "d", "e"], rng.randint(1, 5))
        td = TensorDict({k: torch.full((2,), i) for i, k in enumerate(keys)}, batch_size=[2])
        if rng.random() < 0.4:
            td["n"] = TensorDict({"x": torch.full((2,), 77)}, batch_size=[2])
        allk = list(td.keys(True, True))
        sk = list(allk)
        rng.shuffle(sk)
        mode = rng.choice(["perm", "perm", "subset", "extra"])
        if mode == "subset" and len(sk) > 1:
            sk = sk[:-1]
        elif mode == "extra":
            sk = sk + ["zz"]
        outs = []
        for comp in (False, True):
            with mock.patch.object(B, "is_compiling", lambda c=comp: c):
                r = []
                for fn in ("_values_list", "_items_list"):
                    try:
                        v = getattr(td, fn)(True, True, sorting_keys=sk)
                        if fn == "_items_list":
                            v = v[1]
                        r.append([int(x.reshape(-1)[0]) for x in v])
                    except Exception as e:
                        r.append("err:" + err_class(e))
                outs.append(r)
        run.case(("values_list", tuple(map(str, allk)), tuple(map(str, sk))))
        run.count("values_list.mode", mode)
        # model: both branches of Model/ValuesList
        enc = lambda k: k if isinstance(k, str) else ".".join(k)
        vals = [int(td.get(k).reshape(-1)[0]) for k in allk]
        m = parse_sx(drv.ask(sx("c18.values_list", [enc(k) for k in allk], vals, [enc(k) for k in sk])))
        mm = lambda x: "err:key" if x == "err" else x
        run.corr("values_list_dict_branch", [list(map(str, allk)), list(map(str, sk))], outs[0][0], mm(m[0]))
        run.corr("values_list_index_branch", [list(map(str, allk)), list(map(str, sk))], outs[1][0], mm(m[1]))
        if outs[0] != outs[1]:
            run.oracle_fail("values_list", [list(map(str, allk)), list(map(str, sk))], f"eager={outs[0]} compile={outs[1]}", "values_list")
        else:
            run.oracle_ok("values_list")


# ------------------------------------------------------------------------------------ programs
OPS = [
    "set_sum", "mul2", "add_td", "abs", "neg", "reshape_flat", "unsqueeze0", "unsqueeze_last", "permute_rev", "transpose01",
    "flatten01", "squeeze", "idx0", "idx_head", "idx_empty", "idx_tail", "idx_step", "idx_ell0", "idx_neg", "idx_list",
    "sum0", "stack0", "cat0", "stack_last", "select_a", "exclude_b", "apply_inc", "named_apply", "clone", "expand2", "unbind0",
    "split1", "chunk2", "getset_nested", "update_new", "rename", "setitem_idx", "where_self", "empty_like_add", "flatten_keys",
]


def apply_op(td, op):
    from tensordict import TensorDict
    if op == "set_sum":
        td = td.clone(False); td["z"] = td["a"] + 1; return td
    if op == "mul2":
        return td * 2
    if op == "add_td":
        return td + td
    if op == "abs":
        return td.abs()
    if op == "neg":
        return -td
    if op == "reshape_flat":
        return td.reshape(-1)
    if op == "unsqueeze0":
        return td.unsqueeze(0)
    if op == "unsqueeze_last":
        return td.unsqueeze(-1)
    if op == "permute_rev":
        return td.permute(*tuple(range(td.batch_dims))[::-1])  # not *reversed(...): torch 2.14 dynamo itself drops elements of a `reversed` iterator across a graph break (reproduced without tensordict)
    if op == "transpose01":
        return td.transpose(0, 1)
    if op == "flatten01":
        return td.flatten(0, 1)
    if op == "squeeze":
        return td.squeeze()
    if op == "idx0":
        return td[0]
    if op == "idx_head":
        return td[:1]
    if op == "idx_empty":
        return td[:0]
    if op == "idx_tail":
        return td[1:]
    if op == "idx_step":
        return td[::2]
    if op == "idx_ell0":
        return td[..., 0]
    if op == "idx_neg":
        return td[-1:]
    if op == "idx_list":
        return td[[0, 0]]
    if op == "sum0":
        return td.sum(0)
    if op == "stack0":
        return torch.stack([td, td], 0)
    if op == "stack_last":
        return torch.stack([td, td * 3], -1)
    if op == "cat0":
        return torch.cat([td, td], 0)
    if op == "select_a":
        return td.select("a")
    if op == "exclude_b":
        return td.exclude("b")
    if op == "apply_inc":
        return td.apply(lambda x: x + 1)
    if op == "named_apply":
        return td.named_apply(lambda k, x: x * (2 if k == "a" else 3))
    if op == "clone":
        return td.clone()
    if op == "expand2":
        return td.expand(2, *td.batch_size)
    if op == "unbind0":
        return td.unbind(0)[-1]
    if op == "split1":
        return td.split(1, 0)[0]
    if op == "chunk2":
        return td.chunk(2, 0)[-1]
    if op == "getset_nested":
        td = td.clone(False); td["n", "x"] = td["a"] * 5; return td
    if op == "update_new":
        td = td.clone(False); td.update({"w": td["a"] - 1}); return td
    if op == "rename":
        td = td.clone(False); td.rename_key_("a", "a2"); td["a"] = td["a2"]; return td
    if op == "setitem_idx":
        td = td.clone(); td[0] = td[-1]; return td
    if op == "where_self":
        return td.apply(lambda x: torch.where(x > 3, x, -x))
    if op == "empty_like_add":
        return td.apply(lambda x, y: x + y, td)
    if op == "flatten_keys":
        return td.flatten_keys(".")
    raise KeyError(op)


def run_program(td, ops):
    for op in ops:
        td = apply_op(td, op)
    return td


def make_input(shape):
    from tensordict import TensorDict
    n = 1
    for s in shape:
        n *= s
    a = torch.arange(n).reshape(shape)
    return TensorDict({"a": a.clone(), "b": (a * 10).unsqueeze(-1).expand(*shape, 2).clone(),
                       "n": TensorDict({"x": a + 100}, batch_size=shape)}, batch_size=shape)


def programs(run):
    import torch._dynamo
    rng = run.rng
    backends = ["eager"] if run.tier == "quick" else ["eager", "aot_eager", "inductor"]
    nprog = 36 if run.tier == "quick" else 150
    shapes = [(3,), (2, 3), (3, 1), (2, 2, 2), (1,), (4, 2)]
    # corpus first: the minimised past failure (td[:0] under compile)
    corpus = [((3,), ["idx_empty"]), ((2, 3), ["idx_empty", "mul2"]), ((3,), ["idx_neg", "add_td"]), ((2, 3), ["idx_step", "sum0"])]
    progs = list(corpus)
    while len(progs) < nprog:
        progs.append((rng.choice(shapes), [rng.choice(OPS) for _ in range(rng.randint(1, 6))]))
    warnings.filterwarnings("ignore")
    for i, (shape, ops) in enumerate(progs):
        be = backends[i % len(backends)]
        try:
            with time_limit(60):
                e = _canon_td(run_program(make_input(shape), ops))
        except Exception as ex:
            e = "err"
        torch._dynamo.reset()
        try:
            with time_limit(300):
                f = torch.compile(lambda td, ops=tuple(ops): run_program(td, ops), backend=be)
                c = _canon_td(f(make_input(shape)))
        except TimeoutError:
            run.notes.append(f"compile timeout on {ops}")
            continue
        except Exception as ex:
            c = "err"
        run.case(("prog", shape, tuple(ops), be), nontrivial=e != "err")
        run.count("prog.len", len(ops))
        run.count("prog.outcome", "err" if e == "err" else "ok")
        for o in ops:
            run.count("prog.op", o)
        if e != c:
            run.oracle_fail("program", {"shape": list(shape), "ops": ops, "backend": be},
                            f"eager={str(e)[:200]} compiled={str(c)[:200]}", "prog:" + ",".join(ops))
        else:
            run.oracle_ok("program")
        if i == 5:
            run.sample({"stream": "program", "shape": list(shape), "ops": ops, "backend": be, "agree": e == c})
    torch._dynamo.reset()
