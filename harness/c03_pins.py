"""C03 — `ast`-shape obligations: a fingerprint of every function the Lean model `Td` transcribes by hand.

The correspondence only sees an edit of a transcribed function when a sampled input behaves differently; the fingerprint
(sha256 of `ast.dump` of the function, docstring removed — comments and formatting do not count) notices ANY edit.
A changed fingerprint is reported as a broken obligation `transcription-stale:<function>`: re-read the function, re-transcribe
lean/TdVerif/Model/C03Index.lean if its behaviour changed (and re-prove), then refresh the pins:

    PYTHONPATH=harness:$VERIF_REPO /venv/bin/python harness/c03_pins.py --update
"""
from __future__ import annotations

import ast
import hashlib
import json
import sys
from pathlib import Path

from common import REPO

PINS = Path(__file__).resolve().parent / "c03_pins.json"

# (file, class or None, function) -> what transcribes it in Model/C03Index.lean
TRANSCRIBED = [
    ("tensordict/utils.py", None, "convert_ellipsis_to_idx", "Td.convertEllipsis / ellLoop / maskExtra"),
    ("tensordict/utils.py", None, "_check_index_ndim", "Td.checkIndexNdim / indexNdim"),
    ("tensordict/utils.py", None, "_getitem_batch_size", "Td.getitemBatchSize / scan / asm / itemShape"),
    ("tensordict/utils.py", None, "_is_number", "Td.isNumber"),
    ("tensordict/utils.py", None, "_get_item", "Td.leafGet"),
    ("tensordict/utils.py", None, "_set_item", "TorchSpec.setIndex call of Td.setitem / entryWriteK"),
    ("tensordict/base.py", "TensorDictBase", "__getitem__", "Td.getitem / getitemTail"),
    ("tensordict/base.py", "TensorDictBase", "_get_names_idx", "Td.namesIdx / namesTake / namesStep / namesFinish"),
    ("tensordict/_td.py", "TensorDict", "__setitem__", "Td.setitem / setitemColl / collPlan"),
    ("tensordict/_td.py", "TensorDict", "_index_tensordict", "Td.indexTensordict / checkInvalidIndex"),
    ("tensordict/_td.py", "TensorDict", "_set_at_str", "Td.setitem (leaf call) / entryWriteK"),
    ("tensordict/base.py", "TensorDictBase", "_check_new_batch_size", "Td.collPlan / childBatch (batch-size reassignment path of __setitem__)"),
    ("tensordict/base.py", "TensorDictBase", "_batch_size_setter_checked", "Td.childBatch (a nested child with fewer batch dims grows)"),
    ("tensordict/_td.py", "_SubTensorDict", "__init__", "Td.subInit (index normalisation, batch size)"),
    ("tensordict/_td.py", "_SubTensorDict", "_set_str", "Td.entryWriteK (key missing from the destination) / Td.subSet"),
    ("tensordict/_td.py", "_SubTensorDict", "_set_at_str", "Td.writeThrough / Td.subsubSet (read the window, write into it, assign it back to the source)"),
    ("tensordict/base.py", "TensorDictBase", "_get_at_str", "Td.leafGet on the entry itself (get_at, _SubTensorDict reads: Td.subGet / subsubGet)"),
    ("tensordict/base.py", "TensorDictBase", "_get_at_tuple", "Td.leafGet on the entry itself (get_at with a nested key)"),
]


def _strip_doc(fn: ast.FunctionDef):
    if fn.body and isinstance(fn.body[0], ast.Expr) and isinstance(getattr(fn.body[0], "value", None), ast.Constant) \
            and isinstance(fn.body[0].value.value, str):
        fn.body = fn.body[1:] or [ast.Pass()]
    return fn


def fingerprint(path: Path, cls, name) -> str | None:
    tree = ast.parse(path.read_text())
    scope = tree.body
    if cls is not None:
        scope = next((n.body for n in tree.body if isinstance(n, ast.ClassDef) and n.name == cls), None)
        if scope is None:
            return None
    fn = next((n for n in scope if isinstance(n, (ast.FunctionDef, ast.AsyncFunctionDef)) and n.name == name), None)
    if fn is None:
        return None
    return hashlib.sha256(ast.dump(_strip_doc(fn), include_attributes=False).encode()).hexdigest()[:16]


def current() -> dict:
    return {f"{f}:{(c + '.') if c else ''}{n}": fingerprint(REPO / f, c, n) for f, c, n, _ in TRANSCRIBED}


def check(run):
    """record a broken obligation for every transcribed function whose source changed since the pins were taken"""
    pins = json.loads(PINS.read_text()) if PINS.exists() else {}
    cur = current()
    stale = []
    for (f, c, n, what), (key, fp) in zip(TRANSCRIBED, cur.items()):
        run.count("pins", "checked")
        if fp is None:
            stale.append(f"{key} (function not found)")
        elif pins.get(key) != fp:
            stale.append(f"{key} (transcribed by {what})")
    for s in stale:
        run.proof_broken.append("transcription-stale:" + s)
    if stale:
        run.notes.append("source of hand-transcribed functions changed since harness/c03_pins.json was taken: " + "; ".join(stale)
                         + " — re-transcribe Model/C03Index.lean where behaviour changed, then `python harness/c03_pins.py --update`")
    return not stale


if __name__ == "__main__":
    if "--update" in sys.argv:
        PINS.write_text(json.dumps(current(), indent=1) + "\n")
        print("pinned", len(TRANSCRIBED), "functions of", REPO)
    else:
        pins = json.loads(PINS.read_text()) if PINS.exists() else {}
        for k, v in current().items():
            print("ok   " if pins.get(k) == v else "STALE", k, v)
