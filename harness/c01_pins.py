"""C01 source pins: see c04_pins.py (shared mechanism, the C01 list is PINNED["C01"] there)."""
from c04_pins import check, shapes, pins_file  # noqa: F401
