"""Source pins: "ast-shape obligations" for the library functions that Model/C04Tree.lean and Model/C01Coherence.lean
transcribe by hand. For every pinned function the normalised ast (docstring removed; comments, formatting and
positions are not part of an ast) is hashed; the hash recorded in harness/c04_pins.json / c01_pins.json is the one of the
version that was transcribed and validated. An edit of a transcribed function is therefore noticed on the next run even
when no sampled input behaves differently: the obligation `source-shape:<file>:<qualname>` is broken, because the theorems
then speak about a model of code that no longer exists. After re-reading the function and updating the model if needed:
    VERIF_REPO=... /venv/bin/python harness/c04_pins.py --update C04|C01
"""
from __future__ import annotations

import ast
import hashlib
import json
import sys
from pathlib import Path

HERE = Path(__file__).resolve().parent

PINNED = {
    "C04": {
        "tensordict/_td.py": [
            "TensorDict._set_str", "TensorDict._set_tuple", "TensorDict._get_str", "TensorDict._get_tuple", "TensorDict.del_",
            "TensorDict.rename_key_", "TensorDict._select", "TensorDict._exclude", "TensorDict.keys", "TensorDict.items",
            "TensorDict.values", "TensorDict.is_empty", "TensorDict.popitem", "TensorDict.entry_class",
            "_TensorDictKeysView.__iter__", "_TensorDictKeysView._iter_helper",
            "_TensorDictKeysView.__contains__", "_TensorDictKeysView._items", "_TensorDictKeysView._keys",
        ],
        "tensordict/base.py": [
            "TensorDictBase.get", "TensorDictBase.set", "TensorDictBase.pop", "TensorDictBase.setdefault", "TensorDictBase.update",
            "TensorDictBase.clear", "TensorDictBase.select", "TensorDictBase.exclude", "TensorDictBase.flatten_keys",
            "TensorDictBase._flatten_keys_outplace", "TensorDictBase._flatten_keys_inplace", "TensorDictBase.unflatten_keys",
            "TensorDictBase.split_keys", "TensorDictBase.filter_empty_", "TensorDictBase.items", "TensorDictBase.values",
            "TensorDictBase.empty", "TensorDictBase.__contains__", "TensorDictBase._create_nested_str",
            "_default_is_leaf", "_is_leaf_nontensor",
        ],
        "tensordict/utils.py": ["_get_leaf_tensordict"],
        "tensordict/_lazy.py": [
            "LazyStackedTensorDict._set_str", "LazyStackedTensorDict._set_tuple", "LazyStackedTensorDict.del_", "LazyStackedTensorDict.pop",
            "LazyStackedTensorDict.rename_key_", "LazyStackedTensorDict._select", "LazyStackedTensorDict._exclude",
            "LazyStackedTensorDict._flatten_keys_outplace", "LazyStackedTensorDict._key_list", "LazyStackedTensorDict.keys",
            "_LazyStackedTensorDictKeysView.__contains__", "_LazyStackedTensorDictKeysView._keys",
        ],
    },
    "C01": {
        "tensordict/base.py": [
            "TensorDictBase._batch_size_setter", "TensorDictBase._batch_size_setter_checked", "TensorDictBase._nested_meta_snapshot",
            "TensorDictBase._nested_meta_restore", "TensorDictBase._check_new_batch_size", "TensorDictBase._validate_value",
            "TensorDictBase.auto_batch_size_", "TensorDictBase.update", "TensorDictBase.setdefault", "TensorDictBase.pop",
            "TensorDictBase.refine_names", "TensorDictBase.create_nested", "TensorDictBase._create_nested_tuple",
            "TensorDictBase._create_nested_str", "TensorDictBase._flatten_keys_inplace", "TensorDictBase.unflatten_keys",
            "TensorDictBase.clear", "TensorDictBase._convert_to_tensordict", "TensorDictBase.rename_", "TensorDictBase._check_dim_name",
            "TensorDictBase.set_at_", "TensorDictBase.set_", "_expand_to_match_shape",
        ],
        "tensordict/_td.py": [
            "TensorDict.names", "TensorDict._rename_subtds", "TensorDict._erase_names", "TensorDict._change_batch_size",
            "TensorDict.batch_size", "TensorDict._set_str", "TensorDict._set_tuple", "TensorDict.del_", "TensorDict.rename_key_",
            "TensorDict._exclude", "TensorDict.popitem", "TensorDict.empty",
            # the writes into existing storage (modelled by their envelope, Model/C01Coherence.lean `writeM`)
            "TensorDict.__setitem__", "TensorDict._set_at_str", "TensorDict._set_at_tuple", "_SubTensorDict._set_str",
        ],
        "tensordict/utils.py": ["_set_max_batch_size", "_set_item"],
        "tensordict/_lazy.py": [
            "LazyStackedTensorDict.names", "LazyStackedTensorDict.batch_size", "LazyStackedTensorDict.device", "LazyStackedTensorDict.insert",
            "LazyStackedTensorDict.append", "LazyStackedTensorDict._compute_batch_size", "LazyStackedTensorDict._set_str",
            "LazyStackedTensorDict._set_tuple", "LazyStackedTensorDict.del_", "LazyStackedTensorDict.rename_key_",
            "LazyStackedTensorDict._rename_subtds", "LazyStackedTensorDict._has_names", "LazyStackedTensorDict._erase_names",
            "_dim_names_snapshot",
        ],
    },
}


def _strip_doc(fn):
    body = fn.body
    if body and isinstance(body[0], ast.Expr) and isinstance(getattr(body[0], "value", None), ast.Constant) and isinstance(body[0].value.value, str):
        fn.body = body[1:] or [ast.Pass()]
    return fn


def _find(tree, qual):
    """all definitions named `qual` (`Class.fn` or `fn`); properties have a getter and a setter: both are hashed together"""
    parts = qual.split(".")
    scopes = [tree]
    for cname in parts[:-1]:
        scopes = [n for s in scopes for n in s.body if isinstance(n, ast.ClassDef) and n.name == cname]
    return [n for s in scopes for n in s.body if isinstance(n, (ast.FunctionDef, ast.AsyncFunctionDef)) and n.name == parts[-1]]


def shapes(repo: Path, prop: str) -> dict:
    out = {}
    for rel, quals in PINNED[prop].items():
        tree = ast.parse((repo / rel).read_text())
        for q in quals:
            fns = _find(tree, q)
            if not fns:
                out[f"{rel}:{q}"] = "missing"
                continue
            dump = "\n".join(ast.dump(_strip_doc(f), annotate_fields=False, include_attributes=False) for f in fns)
            out[f"{rel}:{q}"] = hashlib.sha256(dump.encode()).hexdigest()[:16]
    return out


def pins_file(prop: str) -> Path:
    return HERE / f"{prop.lower()}_pins.json"


def check(run, repo: Path, prop: str):
    """one obligation per pinned function"""
    want = json.loads(pins_file(prop).read_text())
    have = shapes(repo, prop)
    for name in sorted(set(want) | set(have)):
        ob = f"source-shape:{name}"
        run.obligations.append(ob)
        if want.get(name) == have.get(name) and have.get(name) != "missing":
            run.discharged.append(ob)
        else:
            run.proof_broken.append(f"{ob} (pinned {want.get(name)}, now {have.get(name)}): the function transcribed in the Lean model was edited — "
                                    f"re-read it, update the model if needed, then harness/c04_pins.py --update {prop}")
    run.count("source_pins", prop, len(have))


if __name__ == "__main__":
    import os
    repo = Path(os.environ.get("VERIF_REPO", "/repo"))
    args = sys.argv[1:]
    if args and args[0] == "--update":
        for prop in args[1:] or list(PINNED):
            pins_file(prop).write_text(json.dumps(shapes(repo, prop), indent=1, sort_keys=True) + "\n")
            print("updated", pins_file(prop))
    else:
        for prop in PINNED:
            want = json.loads(pins_file(prop).read_text()) if pins_file(prop).exists() else {}
            have = shapes(repo, prop)
            for k in sorted(have):
                print(prop, k, have[k], "" if want.get(k) == have[k] else f"<- pinned {want.get(k)}")
