"""C19 — program generator shared by the model stream and the oracle stream.

A program is a list of op tuples; `run_real(prog, td)` executes it with the real library (inside or
outside torch.vmap), `sx_prog(prog)` is its protocol form for the Lean driver, `track(prog, batch)`
follows the per-sample batch size so that only applicable ops/dims are generated.
"""
from __future__ import annotations

import torch

KEYS = ["a", "b", "n.x"]


def key_tuple(k):
    return tuple(k.split(".")) if "." in k else k


def rk(td, k):
    """the key under which the model's flat name `k` lives in the real tensordict (flat after flatten_keys, nested before)"""
    return k if k in td.keys() else key_tuple(k)


def make_td(batch, names=None, feats=((2,), (), (1,)), dtype=torch.int64, lazy=False, locked=False, stack_dim=0):
    """leaf j = arange(numel) + 1000*j, shaped batch+feat_j (the provenance the Lean driver uses)"""
    from tensordict import LazyStackedTensorDict, TensorDict
    batch = tuple(batch)
    vals = {}
    for j, (k, f) in enumerate(zip(KEYS, feats)):
        shape = batch + tuple(f)
        n = 1
        for s in shape:
            n *= s
        vals[k] = (torch.arange(n, dtype=dtype) + 1000 * j).reshape(shape)
    td = TensorDict({"a": vals["a"], "b": vals["b"], "n": TensorDict({"x": vals["n.x"]}, batch_size=batch)}, batch_size=batch)
    if names is not None:
        td.names = list(names)
    if lazy:
        td = LazyStackedTensorDict(*[t.clone() for t in td.unbind(stack_dim)], stack_dim=stack_dim)
    if locked:
        td.lock_()
    return td


# ---------------------------------------------------------------------------------------------- ops
def apply_op(td, op):
    name = op[0]
    # element-wise ops go through apply: arithmetic dunders use torch._foreach_*, which has no batching rule
    # under vmap with this torch (recorded as known finding C19-foreach-no-batching-rule, probed in c19_extended)
    if name == "mul2":
        return td.apply(lambda x: x * 2)
    if name == "add1":
        return td.apply(lambda x: x + 1)
    if name == "neg":
        return td.apply(lambda x: -x)
    if name == "unsqueeze":
        return td.unsqueeze(op[1])
    if name == "permute_rev":
        return td.permute(*tuple(range(td.batch_dims))[::-1]) if td.batch_dims else td
    if name == "transpose01":
        return td.transpose(0, 1)
    if name == "idx0":
        return td[0]
    if name == "expand2":
        return td.expand(2, *td.batch_size)
    if name == "stack_self":
        return torch.stack([td, td], 0)
    if name == "sum0":
        return td.sum(0)
    if name == "cat_self":
        return torch.cat([td, td], 0)
    if name == "select":
        return td.select(rk(td, op[1]))
    if name == "exclude":
        return td.exclude(rk(td, op[1]))
    if name == "setmul3":
        # read an entry, compute, write: on a lazy stack vmapped along its stack dim this goes through hook_out / hook_in
        t = td if getattr(td, "hook_in", None) is not None else td.clone(False)
        t.set(rk(td, op[2]), td.get(rk(td, op[1])) * 3)
        return t
    if name == "rename":
        t = td.clone(False)
        t.rename_key_(rk(td, op[1]), rk(td, op[2]))
        return t
    if name == "flatten_keys":
        return td.flatten_keys(".")
    if name == "clone":
        return td.clone()
    if name == "setconst":
        # a value that does not depend on the vmapped input (un-batched inside vmap), written into the (batched) tensordict
        n = 2
        for d in td.batch_size:
            n *= d
        const = torch.arange(100000, 100000 + n).reshape(*td.batch_size, 2)
        t = td if getattr(td, "hook_in", None) is not None else td.clone(False)
        return t.set("c", const)
    if name == "deepen":
        # the nested node `n` is re-declared with one more batch dimension than its parent
        from tensordict import TensorDict
        t = td.clone(False)
        t.set("n", TensorDict({"x": td.get(("n", "x"))}, batch_size=[*td.batch_size, 1],
                              names=[*td.names, None] if td._has_names() else None))
        return t
    if name == "vmap":
        _, i, o, sub = op
        return torch.vmap(lambda t: run_real(sub, t), in_dims=i, out_dims=o)(td)
    raise KeyError(name)


def run_real(prog, td):
    for op in prog:
        td = apply_op(td, op)
    return td


def sx_op(op):
    if op[0] == "vmap":
        return ["vmap", op[1], op[2], ["prog"] + [sx_op(o) for o in op[3]]]
    return list(op)


def sx_prog(prog):
    return ["prog"] + [sx_op(o) for o in prog]


# ---------------------------------------------------------------------------------------------- generation
def track(op, batch, keys):
    """per-sample (batch, keys) after op, or None when not applicable"""
    name = op[0]
    b = list(batch)
    ks = list(keys)
    if name in ("mul2", "add1", "neg", "flatten_keys", "clone", "deepen"):
        return b, ks
    if name == "setconst":
        return b, [k for k in ks if k != "c"] + ["c"]
    if name == "unsqueeze":
        return (b[:op[1]] + [1] + b[op[1]:], ks) if 0 <= op[1] <= len(b) else None
    if name == "permute_rev":
        return b[::-1], ks
    if name == "transpose01":
        return ([b[1], b[0]] + b[2:], ks) if len(b) >= 2 else None
    if name == "idx0":
        return (b[1:], ks) if b and b[0] > 0 else None
    if name in ("expand2", "stack_self"):
        return [2] + b, ks
    if name == "sum0":
        return (b[1:], ks) if b else None
    if name == "cat_self":
        return ([2 * b[0]] + b[1:], ks) if b else None
    if name == "select":
        return (b, [op[1]]) if op[1] in ks else None
    if name == "exclude":
        return b, [k for k in ks if k != op[1]]
    if name == "setmul3":
        if op[1] not in ks:
            return None
        return b, [k for k in ks if k != op[2]] + [op[2]]
    if name == "rename":
        if op[1] not in ks or op[2] in ks:
            return None
        return b, [op[2] if k == op[1] else k for k in ks]
    return None


def gen_prog(rng, batch, keys, depth, maxlen=4, allow_vmap=True, top=True):
    """random applicable program on a per-sample tensordict of this batch size"""
    prog = []
    b, ks = list(batch), list(keys)
    for _ in range(rng.randint(0, maxlen)):
        choices = ["mul2", "add1", "neg", "unsqueeze", "permute_rev", "transpose01", "idx0", "expand2", "stack_self", "sum0", "cat_self",
                   "select", "exclude", "setmul3", "rename", "flatten_keys", "clone", "setconst"]
        if allow_vmap and depth > 0 and len(b) >= 1:
            choices += ["vmap", "vmap"]
        name = rng.choice(choices)
        if name == "unsqueeze":
            op = ("unsqueeze", rng.randint(0, len(b)))
        elif name in ("select", "exclude"):
            if len(ks) < 2:
                continue
            op = (name, rng.choice(ks))
        elif name == "setmul3":
            op = ("setmul3", rng.choice(ks), rng.choice(["z", "a"]))
        elif name == "rename":
            op = ("rename", rng.choice(ks), rng.choice(["r", "q"]))
        elif name == "vmap":
            cand = [d for d in range(len(b)) if b[d] > 0]
            if not cand:
                continue
            i = rng.choice(cand)
            inner_b = b[:i] + b[i + 1:]
            sub, (b2, k2) = gen_prog(rng, inner_b, ks, depth - 1, maxlen=3, allow_vmap=depth - 1 > 0, top=False)
            o = rng.randint(0, len(b2))
            i_s = i - len(b) if rng.random() < 0.3 else i
            o_s = o - (len(b2) + 1) if rng.random() < 0.3 else o
            op = ("vmap", i_s, o_s, sub)
            prog.append(op)
            b, ks = b2[:o] + [b[i]] + b2[o:], k2
            continue
        else:
            op = (name,)
        t = track(op, b, ks)
        if t is None:
            continue
        if len(t[0]) > 4 or (t[0] and max(t[0]) > 8) or not t[1]:
            continue
        prog.append(op)
        b, ks = t
    if top and allow_vmap and "n.x" in ks and not any(o[0] in ("flatten_keys", "vmap") for o in prog) and rng.random() < 0.35:
        prog.append(("deepen",))      # top level only: the output holds a nested tensordict with MORE batch dims than its parent
    return prog, (b, ks)


# ---------------------------------------------------------------------------------------------- canonical form
def canon_td(td):
    from tensordict import TensorDictBase
    if isinstance(td, TensorDictBase):
        leaves = []
        for k in td.keys(True, True):
            v = td.get(k)
            name = k if isinstance(k, str) else ".".join(k)
            leaves.append([name, list(v.shape), v.reshape(-1).tolist()])
        names = [("none" if n is None else n) for n in td.names] if td._has_names() else ["none"] * td.batch_dims
        nodes = []
        for k in td.keys(True, False):
            v = td.get(k)
            if isinstance(v, TensorDictBase) and v.batch_dims > td.batch_dims:
                nodes.append([k if isinstance(k, str) else ".".join(k), list(v.batch_size)])
        return ["ok", ["batch"] + list(td.batch_size), ["names"] + names, ["leaves"] + sorted(leaves, key=lambda l: l[0]), ["nodes"] + sorted(nodes)]
    if isinstance(td, torch.Tensor):
        return ["t", list(td.shape), td.reshape(-1).tolist()]
    if isinstance(td, (tuple, list)):
        return ["seq"] + [canon_td(x) for x in td]
    return ["py", repr(td)]


def canon_model(ans):
    """parsed driver answer -> same canonical form (leaves sorted by name; names as strings)"""
    if ans[0] != "ok":
        return ["err"]
    batch, names, leaves = ans[1], ans[2], ans[3]
    ls = [[str(l[0]), l[1] if isinstance(l[1], list) else [l[1]], l[2] if isinstance(l[2], list) else [l[2]]] for l in leaves[1:]]
    nodes = [[str(x[0]), x[1]] for x in ans[4][1:]] if len(ans) > 4 else []
    return ["ok", ["batch"] + batch[1:], ["names"] + [str(n) for n in names[1:]], ["leaves"] + sorted(ls, key=lambda l: l[0]), ["nodes"] + sorted(nodes)]
