"""C20: ast-shape obligations -- the statements of `_apply_nest` that Model/C20Apply.lean transcribes are re-read from the
current source on every run. An edit of one of them is reported as a broken obligation even when no sampled input
happens to behave differently (the failing-input search of the streams then says whether an input was found)."""
from __future__ import annotations

import ast

from common import REPO


def _find(tree, cls, name):
    c = next((n for n in tree.body if isinstance(n, ast.ClassDef) and n.name == cls), None)
    if c is None:
        return None
    return next((n for n in c.body if isinstance(n, ast.FunctionDef) and n.name == name), None)


def _calls(node, pred):
    return [n for n in ast.walk(node) if isinstance(n, ast.Call) and pred(n)]


def _kw(call):
    return {k.arg: ast.unparse(k.value) for k in call.keywords if k.arg}


def _attr(call):
    return call.func.attr if isinstance(call.func, ast.Attribute) else (call.func.id if isinstance(call.func, ast.Name) else None)


def check_dense(problems):
    tree = ast.parse((REPO / "tensordict" / "_td.py").read_text())
    fn = _find(tree, "TensorDict", "_apply_nest")
    if fn is None:
        problems.append("TensorDict._apply_nest: not found")
        return
    loops = [n for n in fn.body if isinstance(n, ast.For)]
    if len(loops) != 1 or ast.unparse(loops[0].target) != "(key, item)" or ast.unparse(loops[0].iter) != "self.items()":
        problems.append("TensorDict._apply_nest: the loop is no longer `for key, item in self.items()`")
        return
    loop = loops[0]
    # (1) every written entry goes through _set_str(..., validated=checked) (or .set for a sub-tensordict)
    sets = _calls(loop, lambda c: _attr(c) == "_set_str")
    if len(sets) != 1:
        problems.append(f"TensorDict._apply_nest: {len(sets)} _set_str calls in the loop (expected 1)")
    else:
        kw = _kw(sets[0])
        if kw.get("validated") != "checked":
            problems.append(f"TensorDict._apply_nest: _set_str(validated={kw.get('validated')}) instead of validated=checked")
        if kw.get("inplace") != "BEST_ATTEMPT_INPLACE if inplace else False":
            problems.append(f"TensorDict._apply_nest: _set_str(inplace={kw.get('inplace')})")
        if [ast.unparse(a) for a in sets[0].args] != ["key", "item_trsf"]:
            problems.append("TensorDict._apply_nest: _set_str no longer writes (key, item_trsf)")
    guards = [n for n in ast.walk(loop) if isinstance(n, ast.If) and ast.unparse(n.test) == "item_trsf is not None"]
    if len(guards) != 1:
        problems.append("TensorDict._apply_nest: the write is no longer guarded by `item_trsf is not None` alone")
    else:
        inner_ifs = [n for n in guards[0].body if isinstance(n, ast.If)]
        tests = sorted(ast.unparse(n.test) for n in inner_ifs)
        if tests != ["isinstance(result, _SubTensorDict)", "not any_set"]:
            problems.append(f"TensorDict._apply_nest: conditions on the write-back changed: {tests}")
    # (2) recursion: what is forwarded
    rec = _calls(loop, lambda c: _attr(c) == "_apply_nest")
    if len(rec) != 1:
        problems.append(f"TensorDict._apply_nest: {len(rec)} recursive calls (expected 1)")
    else:
        kw = _kw(rec[0])
        want = {"inplace": "inplace", "batch_size": "batch_size", "device": "device", "checked": "checked", "named": "named",
                "nested_keys": "nested_keys", "default": "default", "prefix": "prefix + (key,)", "filter_empty": "filter_empty",
                "is_leaf": "is_leaf", "out": "out._get_str(key, default=None) if out is not None else None"}
        if kw != want:
            diff = {k: (kw.get(k), want.get(k)) for k in set(kw) | set(want) if kw.get(k) != want.get(k)}
            problems.append(f"TensorDict._apply_nest: keywords of the recursive call changed: {diff}")
        if [ast.unparse(a) for a in rec[0].args] != ["fn", "*_others"]:
            problems.append("TensorDict._apply_nest: positional arguments of the recursive call changed")
    # (3) the three spellings of the call
    fcalls = sorted(ast.unparse(c) for c in _calls(loop, lambda c: isinstance(c.func, ast.Name) and c.func.id == "fn"))
    want = sorted(["fn(prefix + (key,) if prefix != () else key, item, *_others)", "fn(key, item, *_others)", "fn(item, *_others)"])
    if fcalls != want:
        problems.append(f"TensorDict._apply_nest: calls of fn changed: {fcalls}")
    # (4) operands by key
    gets = sorted(ast.unparse(c) for c in _calls(loop, lambda c: _attr(c) == "_get_str" and ast.unparse(c.func.value) == "_other"))
    want = sorted(["_other._get_str(key, default=None)", "_other._get_str(key, default=NO_DEFAULT)", "_other._get_str(key, default=default)"])
    if gets != want:
        problems.append(f"TensorDict._apply_nest: operand lookups changed: {gets}")
    assigns = sorted(ast.unparse(n.value) for n in ast.walk(loop) if isinstance(n, ast.Assign) and ast.unparse(n.targets[0]) == "_others")
    want = sorted(["[_other._get_str(key, default=None) for _other in others]", "[item.empty(recurse=True) if _other is None else _other for _other in _others]",
                   "[_other._get_str(key, default=NO_DEFAULT) for _other in others]", "[_other._get_str(key, default=default) for _other in others]"])
    if assigns != want:
        problems.append(f"TensorDict._apply_nest: the operands passed on are no longer looked up by key only: {assigns}")
    sub = [n for n in ast.walk(loop) if isinstance(n, ast.If) and ast.unparse(n.test) == "isinstance(result, _SubTensorDict)"]
    if len(sub) != 1 or [ast.unparse(x) for x in sub[0].body] != ["result.set(key, item_trsf, inplace=inplace)"]:
        problems.append("TensorDict._apply_nest: the sub-tensordict write-back is no longer an unconditional result.set(key, item_trsf, inplace=inplace)")
    # (5) tail
    tail = [ast.unparse(n.test) for n in fn.body if isinstance(n, ast.If)]
    for t in ("filter_empty and (not any_set)", "not inplace and is_locked"):
        if t not in tail:
            problems.append(f"TensorDict._apply_nest: tail condition `{t}` not found")
    tail_elif = [ast.unparse(m.test) for n in fn.body if isinstance(n, ast.If) for m in n.orelse if isinstance(m, ast.If)]
    if "filter_empty is None and (not any_set) and (not self.is_empty())" not in tail_elif:
        problems.append("TensorDict._apply_nest: the filter_empty=None treatment changed")


def check_lazy(problems):
    tree = ast.parse((REPO / "tensordict" / "_lazy.py").read_text())
    fn = _find(tree, "LazyStackedTensorDict", "_apply_nest")
    if fn is None:
        problems.append("LazyStackedTensorDict._apply_nest: not found")
        return
    assigns = [ast.unparse(n) for n in fn.body if isinstance(n, ast.Assign)]
    if "others = (other.unbind(self.stack_dim) for other in others)" not in assigns:
        problems.append("LazyStackedTensorDict._apply_nest: operands are no longer unbound along self.stack_dim")
    dense = _calls(fn, lambda c: ast.unparse(c.func) == "TensorDict._apply_nest")
    if len(dense) != 1 or _kw(dense[0]).get("prefix") != "prefix":
        problems.append("LazyStackedTensorDict._apply_nest: the batch_size branch no longer forwards prefix=prefix")
    mem = _calls(fn, lambda c: ast.unparse(c.func) == "td._apply_nest")
    if len(mem) != 1:
        problems.append(f"LazyStackedTensorDict._apply_nest: {len(mem)} member calls (expected 1)")
    else:
        kw = _kw(mem[0])
        want = {"checked": "checked", "device": "device", "call_on_nested": "call_on_nested", "default": "default", "named": "named",
                "nested_keys": "nested_keys", "inplace": "inplace", "filter_empty": "filter_empty", "is_leaf": "is_leaf",
                "out": "out[i] if out is not None else None",
                "prefix": "prefix + (str(i),) if is_leaf in (_NESTED_TENSORS_AS_LISTS, _NESTED_TENSORS_AS_LISTS_NONTENSOR) else prefix"}
        if kw != want:
            diff = {k: (kw.get(k), want.get(k)) for k in set(kw) | set(want) if kw.get(k) != want.get(k)}
            problems.append(f"LazyStackedTensorDict._apply_nest: keywords of the member call changed: {diff}")
        if [ast.unparse(a) for a in mem[0].args] != ["fn", "*oth"]:
            problems.append("LazyStackedTensorDict._apply_nest: positional arguments of the member call changed")
    tests = [ast.unparse(n.test) for n in fn.body if isinstance(n, ast.If)]
    if "all((r is None for r in results)) and filter_empty in (None, True)" not in tests:
        problems.append("LazyStackedTensorDict._apply_nest: the all-None treatment changed")
    rb = _find(tree, "LazyStackedTensorDict", "_multithread_rebuild")
    if rb is not None:
        tests = [ast.unparse(n.test) for n in rb.body if isinstance(n, ast.If)]
        if "filter_empty in (None, True) and all((r is None for r in results))" not in tests:
            problems.append("LazyStackedTensorDict._multithread_rebuild: the all-None treatment differs from _apply_nest")
    fl = _find(tree, "LazyStackedTensorDict", "_multithread_apply_flat")
    if fl is not None:
        assigns = [ast.unparse(n) for n in fl.body if isinstance(n, ast.Assign)]
        if "others = (other.unbind(self.stack_dim) for other in others)" not in assigns:
            problems.append("LazyStackedTensorDict._multithread_apply_flat: operands are no longer unbound along self.stack_dim")


def check_threads(problems):
    tree = ast.parse((REPO / "tensordict" / "_td.py").read_text())
    fn = _find(tree, "TensorDict", "_multithread_apply_flat")
    if fn is None:
        problems.append("TensorDict._multithread_apply_flat: not found")
        return
    loops = [n for n in fn.body if isinstance(n, ast.For)]
    if len(loops) != 1 or ast.unparse(loops[0].target) != "(key, item)" or ast.unparse(loops[0].iter) != "self.items()":
        problems.append("TensorDict._multithread_apply_flat: the loop is no longer `for key, item in self.items()`")
        return
    loop = loops[0]
    subs = sorted(ast.unparse(c) for c in _calls(loop, lambda c: ast.unparse(c.func) == "executor.submit"))
    want = sorted(["executor.submit(fn, prefix + (key,) if prefix != () else key, item, *_others)", "executor.submit(fn, key, item, *_others)",
                   "executor.submit(fn, item, *_others)"])
    if subs != want:
        problems.append(f"TensorDict._multithread_apply_flat: submitted calls changed: {subs}")
    assigns = sorted(ast.unparse(n.value) for n in ast.walk(loop) if isinstance(n, ast.Assign) and ast.unparse(n.targets[0]) == "_others")
    want = sorted(["[_other._get_str(key, default=None) for _other in others]", "[item.empty(recurse=True) if _other is None else _other for _other in _others]",
                   "[_other._get_str(key, default=NO_DEFAULT) for _other in others]", "[_other._get_str(key, default=default) for _other in others]"])
    if assigns != want:
        problems.append(f"TensorDict._multithread_apply_flat: the operands passed on are no longer looked up by key only: {assigns}")
    rec = _calls(loop, lambda c: _attr(c) == "_multithread_apply_flat")
    if len(rec) != 1 or _kw(rec[0]).get("prefix") != "prefix + (key,)":
        problems.append("TensorDict._multithread_apply_flat: the recursive call no longer extends the prefix by the key")


NAMES = ["source-shape:TensorDict._apply_nest", "source-shape:LazyStackedTensorDict._apply_nest", "source-shape:TensorDict._multithread_apply_flat"]


def source_shape(run):
    for name, fn in zip(NAMES, (check_dense, check_lazy, check_threads)):
        problems = []
        try:
            fn(problems)
        except Exception as e:  # noqa: BLE001   a source this reader cannot parse is a broken tie, not a pass
            problems.append(f"{name}: reader failed: {type(e).__name__}: {e}")
        run.obligations.append(name)
        if problems:
            for pb in problems:
                run.proof_broken.append("source-shape:" + pb)
        else:
            run.discharged.append(name)
        run.count("source_shape", name.split(":", 1)[1] + (":ok" if not problems else ":broken"))
