"""Regenerate every Gen/*.lean from /repo (used by setup.sh; each check regenerates its own too)."""
import gen_tables

for rel, fn in gen_tables.ALL.items():
    try:
        gen_tables.write_if_changed(rel, fn())
    except Exception as e:  # a broken tie is reported by the checks, setup must not fail on it
        print(f"regen {rel}: {type(e).__name__}: {e}")
