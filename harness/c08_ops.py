"""C08 extended-domain oracle: every supported operation on the real LazyStackedTensorDict against the
dense torch.stack of clones of its members (the property's own oracle).

read ops     : lazy.op(args) materialised  ==  dense.op(args)      (or one of them raises)
mutating ops : after lazy.op(args) and dense.op(args): stack(members) == dense and member i == dense.unbind(sd)[i]
member writes: after a write to member i, reads through the stack == dense stack of the current members

Soundness rule: a case is flagged only when BOTH sides return and differ.  A raise on either side is
recorded in the distribution tables (the property allows "or raises")."""
from __future__ import annotations

import math

import torch
from tensordict import LazyStackedTensorDict, TensorDict, lazy_stack

import c08_gen as G
from common import time_limit


# ----------------------------------------------------------------------------- building blocks
NESTED_EXTRA = False   # toggled by the streams: the nested node "n" then has a longer batch size (bs + [2])


def mk_members(bs, n, base=0, nested=True, dtype=torch.float32):
    ne = math.prod(bs) if bs else 1
    out = []
    for i in range(n):
        d = {"a": (torch.arange(ne, dtype=dtype) + base + 1000 * i).reshape(bs),
             "b": (torch.arange(ne * 2, dtype=dtype) + base + 1000 * i + 300).reshape(*bs, 2)}
        if nested:
            if NESTED_EXTRA:
                d["n"] = TensorDict({"c": (torch.arange(ne * 2, dtype=dtype) + base + 1000 * i + 600).reshape(*bs, 2)}, list(bs) + [2])
            else:
                d["n"] = TensorDict({"c": (torch.arange(ne, dtype=dtype) + base + 1000 * i + 600).reshape(bs)}, list(bs))
        out.append(TensorDict(d, list(bs)))
    return out


def dense_of(ms, sd):
    return torch.stack([m.clone() for m in ms], sd)


def is_empty_lazy(r):
    if not isinstance(r, LazyStackedTensorDict):
        return False
    return all(is_empty_lazy(t) for t in r.tensordicts)


def canon(r):
    """canonical, comparable form of whatever an op returns"""
    if isinstance(r, (list, tuple)):
        return ["seq"] + [canon(x) for x in r]
    if isinstance(r, torch.Tensor):
        return ["t", list(r.shape), r.reshape(-1).tolist()]
    if isinstance(r, LazyStackedTensorDict) and is_empty_lazy(r):
        # a lazy stack without any member cannot know its keys: only its batch size can be compared
        return ["empty", list(r.batch_size)]
    if hasattr(r, "batch_size") and hasattr(r, "keys"):
        out = ["td", list(r.batch_size)]
        def name(k):
            return ".".join(k) if isinstance(k, tuple) else k
        for k in sorted(r.keys(True, True), key=name):   # real keys: a flattened key "n.c" is not ("n", "c")
            v = r.get(k)
            out.append([name(k), list(v.shape), v.reshape(-1).tolist()])
        return out
    if isinstance(r, (bool, int, float)) or r is None:
        return ["v", r]
    return ["other", type(r).__name__]


def run_both(f, L, D):
    res = []
    for x in (L, D):
        try:
            with time_limit(180):
                res.append(("ok", canon(f(x))))
        except TimeoutError:
            raise
        except Exception as e:  # noqa: BLE001
            res.append(("raise", type(e).__name__))
    return res


# reductions whose floating-point result depends on the order of the operations (the lazy stack
# reduces member by member / over a differently laid out buffer): compared up to rounding
ROUNDING_OPS = ("prod", "mean", "sum")


def _close(x, y, tol):
    if x == y:
        return True
    if not tol or len(x) != len(y):
        return False
    for u, w in zip(x, y):
        if u == w:
            continue
        if not (isinstance(u, float) and isinstance(w, float)):
            return False
        if not (math.isfinite(u) and math.isfinite(w)):
            # an overflowing product: inf / nan / 0 depending on the order of the factors (inf * 0 = nan) -- not comparable
            continue
        if not abs(u - w) <= tol * max(abs(u), abs(w), 1.0):
            return False
    return True


def diff_canon(a, b, tol=0.0):
    """`tol`: relative tolerance on float values, for ROUNDING_OPS only"""
    if a == b:
        return None
    if a[0] == "empty" and b[0] in ("td", "empty"):
        return None if a[1] == b[1] else f"batch_size {a[1]} vs {b[1]}"
    if a[0] != b[0]:
        return f"kind {a[0]} vs {b[0]}"
    if a[0] == "seq":
        if len(a) != len(b):
            return f"sequence length {len(a) - 1} vs {len(b) - 1}"
        for i, (x, y) in enumerate(zip(a[1:], b[1:])):
            d = diff_canon(x, y, tol)
            if d:
                return f"item {i}: {d}"
        return None
    if a[0] == "t" and tol:
        if a[1] == b[1] and _close(a[2], b[2], tol):
            return None
    if a[0] == "td":
        if a[1] != b[1]:
            return f"batch_size {a[1]} vs {b[1]}"
        ka, kb = [x[0] for x in a[2:]], [x[0] for x in b[2:]]
        if ka != kb:
            return f"keys {ka} vs {kb}"
        for x, y in zip(a[2:], b[2:]):
            if x[1] != y[1]:
                return f"shape of {x[0]}: {x[1]} vs {y[1]}"
            if not _close(x[2], y[2], tol):
                return f"values of {x[0]}: {x[2][:10]} vs {y[2][:10]}"
        return None
    return f"{str(a)[:120]} vs {str(b)[:120]}"


# ----------------------------------------------------------------------------- read ops
def rand_dim(rng, r, extra=0):
    """a dim in [-r-extra, r+extra) spelled positive or negative"""
    d = rng.randrange(r + extra) if r + extra > 0 else 0
    if rng.random() < 0.35:
        d -= (r + extra)
    return d


def gen_read_op(rng, shape, sd):
    """returns (name, args, fn)"""
    r = len(shape)
    kind = rng.choice(["unsqueeze", "squeeze", "squeeze_all", "permute", "transpose", "view", "reshape", "flatten", "unflatten",
                       "unbind", "split", "chunk", "expand", "repeat", "repeat_interleave",
                       "sum", "mean", "all", "any", "prod", "cmp", "contiguous", "densify", "to_tensordict", "clone",
                       "gather", "masked_select", "where", "arith", "getkey", "select_keys", "apply", "len_iter", "flatten_keys",
                       "masked_fill", "to_dtype", "to_dict", "empty", "flat_unflat", "item_shape", "bool_ops", "items",
                       "torch_fn", "apply_other", "inplace_keys", "named_apply",
                       "keys_variants", "contains", "get_default", "entry_class", "to_shallow", "values_nested",
                       "where", "where", "masked_fill", "gather", "split", "expand", "repeat_interleave"])   # extra weight: ops with their own lazy code
    if kind == "unsqueeze":
        d = rand_dim(rng, r, 1)
        return kind, [d], lambda x: x.unsqueeze(d)
    if kind == "squeeze":
        d = rand_dim(rng, r)
        return kind, [d], lambda x: x.squeeze(d)
    if kind == "squeeze_all":
        return kind, [], lambda x: x.squeeze()
    if kind == "permute":
        p = list(range(r))
        rng.shuffle(p)
        if rng.random() < 0.3:
            p = [q - r if rng.random() < 0.5 else q for q in p]
        style = rng.random()
        return kind, [p], (lambda x: x.permute(*p)) if style < 0.5 else (lambda x: x.permute(p))
    if kind == "transpose":
        a, b = rand_dim(rng, r), rand_dim(rng, r)
        return kind, [a, b], lambda x: x.transpose(a, b)
    if kind in ("view", "reshape"):
        new = list(shape)
        q = rng.random()
        if q < 0.4 and r >= 2:
            i = rng.randrange(r - 1)
            j = rng.randrange(i + 1, r)
            new[i:j + 1] = [math.prod(shape[i:j + 1])]
        elif q < 0.7 and r >= 1:
            i = rng.randrange(r)
            s = shape[i]
            f = [a for a in range(1, s + 1) if s % a == 0]
            a = rng.choice(f)
            new[i:i + 1] = [a, s // a]
        elif q < 0.85:
            rng.shuffle(new)
        else:
            new = [math.prod(shape)]
        if rng.random() < 0.3 and new:
            new[rng.randrange(len(new))] = -1
        if kind == "view":
            return kind, [new], lambda x: x.view(*new)
        return kind, [new], lambda x: x.reshape(*new)
    if kind == "flatten":
        a, b = rand_dim(rng, r), rand_dim(rng, r)
        return kind, [a, b], lambda x: x.flatten(a, b)
    if kind == "unflatten":
        d = rand_dim(rng, r)
        s = shape[d] if r else 1
        f = [a for a in range(1, s + 1) if s % a == 0] or [1]
        a = rng.choice(f)
        sizes = (a, s // a) if s else (0, 1)
        if s and rng.random() < 0.4:
            # three factors: the lazy unflatten nests one level per factor
            rest = s // a
            f2 = [c for c in range(1, rest + 1) if rest % c == 0]
            c = rng.choice(f2)
            sizes = (a, c, rest // c)
        return kind, [d, list(sizes)], lambda x: x.unflatten(d, sizes)
    if kind == "unbind":
        d = rand_dim(rng, r)
        return kind, [d], lambda x: x.unbind(d)
    if kind == "split":
        d = rand_dim(rng, r)
        s = shape[d] if r else 1
        if rng.random() < 0.5:
            k = rng.randint(1, max(1, s))
            return kind, [k, d], lambda x: x.split(k, d)
        cuts = []
        left = s
        while left > 0:
            c = rng.randint(1, left)
            cuts.append(c)
            left -= c
        return kind, [cuts, d], lambda x: x.split(cuts, d)
    if kind == "chunk":
        d = rand_dim(rng, r)
        k = rng.randint(1, 3)
        return kind, [k, d], lambda x: x.chunk(k, d)
    if kind == "expand":
        new = [rng.randint(2, 3) if (s == 1 and rng.random() < 0.7) else s for s in shape]
        lead = [rng.randint(1, 2) for _ in range(rng.choice([0, 0, 1]))]
        tgt = lead + new
        return kind, [tgt], lambda x: x.expand(*tgt)
    if kind == "repeat":
        reps = [rng.randint(1, 2) for _ in range(r)]
        return kind, [reps], lambda x: x.repeat(*reps)
    if kind == "repeat_interleave":
        d = rand_dim(rng, r)
        k = rng.randint(1, 3)
        return kind, [k, d], lambda x: x.repeat_interleave(k, dim=d)
    if kind in ("sum", "mean", "all", "any", "prod"):
        if rng.random() < 0.25:
            return kind, [], lambda x: getattr(x, kind)()
        d = rand_dim(rng, r)
        if kind in ("sum", "mean", "prod") and rng.random() < 0.4:
            # the options of `_cast_reduction`: reduce=True (one tensor across the leaves) with / without a dim,
            # dim="feature", keepdim, dtype
            how = rng.choice(["reduce_dim", "reduce_all", "feature", "keepdim", "dtype", "reduce_dim_keepdim"])
            if how == "reduce_dim":
                return kind, [d, how], lambda x: getattr(x, kind)(dim=d, reduce=True)
            if how == "reduce_all":
                return kind, [how], lambda x: getattr(x, kind)(reduce=True)
            if how == "feature":
                return kind, [how], lambda x: getattr(x, kind)(dim="feature")
            if how == "keepdim":
                return kind, [d, how], lambda x: getattr(x, kind)(dim=d, keepdim=True)
            if how == "dtype":
                return kind, [d, how], lambda x: getattr(x, kind)(dim=d, dtype=torch.float64)
            return kind, [d, how], lambda x: getattr(x, kind)(dim=d, keepdim=True, reduce=True)
        return kind, [d], lambda x: getattr(x, kind)(d)
    if kind == "cmp":
        op = rng.choice(["__eq__", "__ne__", "__lt__", "__le__", "__gt__", "__ge__"])
        other = rng.choice(["self", "dense", "shifted", "scalar"])
        return kind, [op, other], ("cmp", op, other)
    if kind in ("contiguous", "densify", "to_tensordict", "clone"):
        return kind, [], lambda x: getattr(x, kind)() if hasattr(x, kind) else x.clone()
    if kind == "gather":
        d = rand_dim(rng, r)
        dd = d % r
        ishape = list(shape)
        ishape[dd] = rng.randint(1, 2)
        idx = torch.tensor([rng.randrange(shape[dd]) for _ in range(math.prod(ishape))], dtype=torch.long).reshape(ishape)
        return kind, [d, idx.tolist()], lambda x: x.gather(d, idx)
    if kind == "masked_select":
        m = torch.tensor([rng.random() < 0.6 for _ in range(math.prod(shape))]).reshape(shape)
        return kind, [m.tolist()], lambda x: x.masked_select(m)
    if kind == "where":
        m = torch.tensor([rng.random() < 0.6 for _ in range(math.prod(shape))]).reshape(shape)
        # a varying `other` (a constant one would hide along which dim it is unbound)
        which = rng.choice(["same_kind", "dense"])
        return kind, [m.tolist(), which], (lambda x: x.where(m, x * 2 + 0.5)) if which == "same_kind" else (
            lambda x: x.where(m, (x * 2 + 0.5).to_tensordict()))
    if kind == "arith":
        op = rng.choice(["add", "mul", "neg", "sub_self", "abs"])
        if op == "add":
            return kind, [op], lambda x: x + 1
        if op == "mul":
            return kind, [op], lambda x: x * 2
        if op == "neg":
            return kind, [op], lambda x: -x
        if op == "abs":
            return kind, [op], lambda x: (x - 1000).abs()
        return kind, [op], lambda x: x - x
    if kind == "getkey":
        k = rng.choice(["a", "b", ("n", "c"), "n"])
        return kind, [str(k)], lambda x: x[k] if rng.random() < 2 else None
    if kind == "select_keys":
        which = rng.choice(["select", "exclude"])
        k = rng.choice(["a", "b", ("n", "c")])
        return kind, [which, str(k)], lambda x: getattr(x, which)(k)
    if kind == "apply":
        return kind, [], lambda x: x.apply(lambda t: t * 3 + 1)
    if kind == "len_iter":
        return kind, [], lambda x: [len(x)] + [t for t in x] if len(shape) else [0]
    if kind == "flatten_keys":
        return kind, [], lambda x: x.flatten_keys(".")
    if kind == "masked_fill":
        m = torch.tensor([rng.random() < 0.5 for _ in range(math.prod(shape))]).reshape(shape)
        return kind, [m.tolist()], lambda x: x.masked_fill(m, -2.0)
    if kind == "to_dtype":
        how = rng.choice(["to", "double", "int"])
        if how == "to":
            return kind, [how], lambda x: x.to(torch.float64)
        return kind, [how], lambda x: getattr(x, how)()
    if kind == "to_dict":
        return kind, [], lambda x: TensorDict.from_dict(x.to_dict(), batch_size=list(x.batch_size))
    if kind == "empty":
        rec = rng.random() < 0.5
        return kind, [rec], lambda x: x.empty(recurse=rec)
    if kind == "flat_unflat":
        return kind, [], lambda x: x.flatten_keys("/").unflatten_keys("/")
    if kind == "item_shape":
        k = rng.choice(["a", "b", ("n", "c")])
        return kind, [str(k)], lambda x: list(x.get_item_shape(k))
    if kind == "bool_ops":
        op = rng.choice(["__or__", "__xor__"])
        return kind, [op], lambda x: getattr(x > 1000, op)(x < 500)
    if kind == "items":
        return kind, [], lambda x: [v for _, v in sorted(x.items(), key=lambda kv: kv[0])]
    if kind == "torch_fn":
        # the functional spellings go through __torch_function__
        fn = rng.choice(["zeros_like", "ones_like", "full_like", "clone", "unbind", "squeeze", "unsqueeze", "permute",
                         "split", "gather", "where", "stack_one", "cat_one"])
        d = rand_dim(rng, r)
        if fn in ("zeros_like", "ones_like", "clone"):
            return kind, [fn], lambda x: getattr(torch, fn)(x)
        if fn == "full_like":
            return kind, [fn], lambda x: torch.full_like(x, 3.0)
        if fn == "unbind":
            return kind, [fn, d], lambda x: torch.unbind(x, d)
        if fn == "squeeze":
            return kind, [fn, d], lambda x: torch.squeeze(x, d)
        if fn == "unsqueeze":
            d1 = rand_dim(rng, r, 1)
            return kind, [fn, d1], lambda x: torch.unsqueeze(x, d1)
        if fn == "permute":
            p = list(range(r))
            rng.shuffle(p)
            return kind, [fn, p], lambda x: torch.permute(x, p)
        if fn == "split":
            k = rng.randint(1, max(1, shape[d] if r else 1))
            return kind, [fn, k, d], lambda x: torch.split(x, k, d)
        if fn == "gather":
            dd = d % r
            ishape = list(shape)
            ishape[dd] = rng.randint(1, 2)
            idx = torch.tensor([rng.randrange(shape[dd]) for _ in range(math.prod(ishape))], dtype=torch.long).reshape(ishape)
            return kind, [fn, d, idx.tolist()], lambda x: torch.gather(x, d, idx)
        if fn == "where":
            m = torch.tensor([rng.random() < 0.6 for _ in range(math.prod(shape))]).reshape(shape)
            return kind, [fn, m.tolist()], lambda x: torch.where(m, x, x * 0 - 1)
        if fn == "stack_one":
            d1 = rand_dim(rng, r, 1)
            return kind, [fn, d1], lambda x: torch.stack([x], d1)
        return kind, [fn, d], lambda x: torch.cat([x], d)
    if kind == "apply_other":
        return kind, [], lambda x: x.apply(lambda a, b: a * 2 + b, x + 1)
    if kind == "named_apply":
        return kind, [], lambda x: x.named_apply(lambda name, t: t + len(name), nested_keys=True)
    if kind == "keys_variants":
        inc, leaves = rng.random() < 0.5, rng.random() < 0.5

        def f(x, inc=inc, leaves=leaves):
            ks = sorted(".".join(k) if isinstance(k, tuple) else k for k in x.keys(include_nested=inc, leaves_only=leaves))
            return [len(ks)] + [torch.tensor([ord(c) for c in k]) for k in ks]
        return kind, [inc, leaves], f
    if kind == "contains":
        k = rng.choice(["a", "zz", ("n", "c"), ("n", "zz"), "n"])
        return kind, [str(k)], lambda x: [k in x.keys(True), len(x.keys())]
    if kind == "get_default":
        k = rng.choice(["a", "zz", ("n", "c"), ("n", "zz")])
        return kind, [str(k)], lambda x: x.get(k, None) if x.get(k, None) is not None else [0]
    if kind == "entry_class":
        k = rng.choice(["a", "n", ("n", "c")])
        return kind, [str(k)], lambda x: [issubclass(x.entry_class(k), torch.Tensor)]
    if kind == "to_shallow":
        return kind, [], lambda x: x.clone(False).apply(lambda t: t + 1)
    if kind == "values_nested":
        return kind, [], lambda x: sorted(x.values(True, True), key=lambda t: (t.dim(), float(t.reshape(-1)[0]) if t.numel() else 0.0))
    if kind == "inplace_keys":
        which = rng.choice(["select", "exclude"])
        k = rng.choice(["a", "b", ("n", "c")])
        return kind, [which, str(k)], lambda x: getattr(x.clone(), which)(k, inplace=True)
    raise AssertionError(kind)


def read_ops_stream(run, n_cases):
    global NESTED_EXTRA
    rng = run.rng
    for _ in range(n_cases):
        NESTED_EXTRA = rng.random() < 0.25
        rank = rng.choice([0, 1, 1, 2, 2])
        bs = tuple(rng.choice([1, 2, 2, 3]) for _ in range(rank))
        n = rng.randint(1, 4)
        sd = rng.randint(0, rank)
        shape = list(bs)
        shape.insert(sd, n)
        ms = mk_members(bs, n)
        L = LazyStackedTensorDict(*ms, stack_dim=sd - (rank + 1) if rng.random() < 0.3 else sd)
        D = dense_of(ms, sd)
        name, args, f = gen_read_op(rng, shape, sd)
        case = {"bs": list(bs), "n": n, "sd": sd, "op": name, "args": args}
        if isinstance(f, tuple):   # comparison: needs the operand built per side
            _, op, other = f
            ms2 = mk_members(bs, n, base=0 if other != "shifted" else 1)
            if other == "shifted":
                ms2[0]["a"] = ms[0]["a"].clone()

            def f(x, op=op, other=other, ms2=ms2):
                if other == "self":
                    o = x
                elif other == "dense":
                    o = dense_of(ms2, sd)
                elif other == "shifted":
                    o = LazyStackedTensorDict(*ms2, stack_dim=sd)
                else:
                    o = 1000.0
                return getattr(x, op)(o)
        (sl, rl), (sdn, rd) = run_both(f, L, D)
        run.case(("op", name, str(args), bs, n, sd))
        run.count("ops.kind", name)
        run.count("ops.outcome", f"{name}:lazy-{sl}/dense-{sdn}")
        if sl == "ok" and sdn == "ok":
            d = diff_canon(rl, rd, 1e-5 if name in ROUNDING_OPS else 0.0)
            if d is None:
                run.oracle_ok("op:" + name)
            else:
                run.oracle_fail("op:" + name, case, f"lazy.{name}{tuple(args)} differs from dense: {d}", f"op:{name}")
        else:
            run.oracle_ok("op_raises:" + name)


# ----------------------------------------------------------------------------- mutating ops
def state_diff(ms, D, sd):
    """members (the only storage of the lazy stack) against the dense twin after the same mutation"""
    try:
        S = torch.stack([m.clone() for m in ms], sd)
    except TimeoutError:      # a slow box is an infrastructure problem (exit 2), never a verdict
        raise
    except Exception as e:  # noqa: BLE001
        return f"members can no longer be stacked: {type(e).__name__}: {str(e)[:80]}"
    d = G.same_td(S, D)
    if d:
        return "stack(members) vs dense: " + d
    for i, (m, dm) in enumerate(zip(ms, D.unbind(sd))):
        d = G.same_td(m, dm)
        if d:
            return f"member {i} vs dense.unbind(sd)[{i}]: {d}"
    return None


def torch_expect_write(ms, sd, index, value, E=None):
    """what torch itself does on every leaf of the dense stack (Ellipsis expanded against the batch
    rank); `value` is a tensordict (keywise) or a tensor (written to every leaf)"""
    if E is None:
        E = dense_of(ms, sd)
    rank = len(E.batch_size)
    if not isinstance(index, tuple):
        index = (index,)
    if any(i is Ellipsis for i in index):
        used = sum((i.dim() if (isinstance(i, torch.Tensor) and i.dtype == torch.bool) else 1)
                   for i in index if i is not None and i is not Ellipsis)
        pos = [j for j, i in enumerate(index) if i is Ellipsis][0]
        index = index[:pos] + (slice(None),) * (rank - used) + index[pos + 1:]
    for k in G.keyset(E):
        leaf = G.get_leaf(E, k)
        if isinstance(value, torch.Tensor):
            src = value
        else:
            try:
                src = G.get_leaf(value, k)
            except TimeoutError:      # a slow box is an infrastructure problem (exit 2), never a verdict
                raise
            except Exception:  # noqa: BLE001
                continue
            if src is None:
                continue
            extra = leaf.dim() - rank
            # right-align: value batch may be a broadcastable suffix of the indexed batch
        leaf[index] = src
    return E


def value_for(rng, bs_idx, keys=("a", "b", "n")):
    ne = math.prod(bs_idx) if bs_idx else 1
    d = {}
    if "a" in keys:
        d["a"] = (torch.arange(ne, dtype=torch.float32) + 5000).reshape(bs_idx)
    if "b" in keys:
        d["b"] = (torch.arange(ne * 2, dtype=torch.float32) + 6000).reshape(*bs_idx, 2)
    if "n" in keys:
        if NESTED_EXTRA:
            d["n"] = TensorDict({"c": (torch.arange(ne * 2, dtype=torch.float32) + 7000).reshape(*bs_idx, 2)}, list(bs_idx) + [2])
        else:
            d["n"] = TensorDict({"c": (torch.arange(ne, dtype=torch.float32) + 7000).reshape(bs_idx)}, list(bs_idx))
    return TensorDict(d, list(bs_idx))


def no_dup_writes(ix):
    for it in ix:
        if it[0] == "tens":
            v = it[3]
            if len(set(v)) != len(v):
                return False
    return True


def gen_extra_mut_op(rng, shape, sd, bs, n):
    """more in-place entry points (each writes through to the member objects): whole-tensordict copies, state dicts, in-place
    arithmetic with a number / another tensordict (lazy operand for the lazy side), apply / named_apply in place, update with
    keys_to_update / inplace=True, setdefault, copy_at_, clear"""
    other = value_for(rng, tuple(shape))

    def src(x):
        # the operand: a lazy stack (same stack dim) for the lazy side, the dense tensordict for the dense side
        o = other.clone()
        if isinstance(x, LazyStackedTensorDict):
            return LazyStackedTensorDict(*[t.clone() for t in o.unbind(sd)], stack_dim=sd)
        return o

    dense_src = rng.random() < 0.4      # a DENSE operand for the lazy side too (paired member-wise along the stack dim)

    def src(x, _src=src):    # noqa: F811
        return other.clone() if dense_src else _src(x)

    name = rng.choice(["copy_", "copy_dense_src", "load_state_dict", "add_number", "add_td", "mul_td", "sub_alpha", "clamp_max_", "neg_",
                       "apply_inplace", "named_apply_inplace", "update_keys", "update_inplace_kw", "update__keys", "setdefault_new",
                       "setdefault_old", "copy_at_", "imul", "clear", "lerp_"])
    if name == "copy_":
        return name, [], lambda x: x.copy_(src(x))
    if name == "copy_dense_src":
        return name, [], lambda x: x.copy_(other.clone())
    if name == "load_state_dict":
        return name, [], lambda x: x.load_state_dict(other.clone().state_dict())
    if name == "add_number":
        return name, [], lambda x: x.add_(1.5)
    if name == "add_td":
        return name, [dense_src], lambda x: x.add_(src(x))
    if name == "mul_td":
        return name, [dense_src], lambda x: x.mul_(src(x))
    if name == "sub_alpha":
        return name, [dense_src], lambda x: x.sub_(src(x), alpha=2)
    if name == "lerp_":
        return name, [dense_src], lambda x: x.lerp_(src(x), 0.5)
    if name == "clamp_max_":
        return name, [], lambda x: x.clamp_max_(500.0)
    if name == "neg_":
        return name, [], lambda x: x.neg_()
    if name == "apply_inplace":
        return name, [], lambda x: x.apply(lambda t: t * 2 + 1, inplace=True)
    if name == "named_apply_inplace":
        return name, [], lambda x: x.named_apply(lambda k, t: t + len(k), inplace=True, nested_keys=True)
    if name == "update_keys":
        ks = rng.choice([["a"], ["b", ("n", "c")], [("n", "c")]])
        return name, [str(ks)], lambda x: x.update(src(x), keys_to_update=ks)
    if name == "update_inplace_kw":
        return name, [], lambda x: x.update(src(x), inplace=True)
    if name == "update__keys":
        ks = rng.choice([["b"], ["a", "b"]])
        return name, [str(ks)], lambda x: x.update_(src(x), keys_to_update=ks)
    if name == "setdefault_new":
        return name, [], lambda x: x.setdefault("zz", other["a"].clone())
    if name == "setdefault_old":
        return name, [], lambda x: x.setdefault("a", other["a"].clone())
    if name == "copy_at_":
        if not shape or shape[0] == 0:
            return name, ["all"], lambda x: x.copy_(src(x))
        j = rng.randrange(shape[0])
        return name, [j], lambda x: x.copy_at_(src(x)[j], j)
    if name == "imul":
        return name, [], lambda x: x.__imul__(2)
    if name == "clear":
        return name, [], lambda x: x.clear()
    raise AssertionError(name)


def gen_mut_op(rng, shape, sd, bs, n):
    r = len(shape)
    kind = rng.choice(["setitem", "setitem", "setitem", "setitem_bcast", "set_at_", "set_key", "set_key_", "set_nested",
                       "update", "update_", "update_lazy", "update_at_", "fill_", "zero_", "masked_fill_", "apply_",
                       "insert", "append", "del_", "rename_key_", "pop", "setitem_scalar_tensor", "iadd",
                       "popitem", "apply_other_", "extra", "extra"])
    if kind == "extra":
        return gen_extra_mut_op(rng, shape, sd, bs, n)
    if kind in ("setitem", "setitem_bcast", "update_at_", "set_at_", "setitem_scalar_tensor"):
        for _ in range(20):
            ix = G.gen_index(rng, shape)
            if no_dup_writes(ix):
                break
        index = G.index_py(ix)
        try:
            probe = torch.zeros(shape)[tuple(i for i in index)] if index else torch.zeros(shape)
            ibs = tuple(probe.shape)
        except TimeoutError:      # a slow box is an infrastructure problem (exit 2), never a verdict
            raise
        except Exception:  # noqa: BLE001
            ibs = None
        if ibs is None:
            ibs = tuple(shape)
        def tag(fn, value):
            fn.write_index, fn.write_value = index, value
            return fn
        if kind == "setitem":
            v = value_for(rng, ibs)
            return kind, [ix], tag(lambda x: x.__setitem__(index, v.clone()), v)
        if kind == "setitem_bcast":
            # a value whose batch is a broadcastable suffix
            cut = rng.randint(0, len(ibs))
            v = value_for(rng, ibs[cut:])
            return kind, [ix, cut], tag(lambda x: x.__setitem__(index, v.clone()), v)
        if kind == "update_at_":
            v = value_for(rng, ibs, keys=rng.choice([("a",), ("a", "b"), ("a", "b", "n")]))
            return kind, [ix], tag(lambda x: x.update_at_(v.clone(), index), v)
        if kind == "set_at_":
            v = value_for(rng, ibs)["a"]
            return kind, [ix], tag(lambda x: x.set_at_("a", v.clone(), index), TensorDict({"a": v}, list(ibs)))
        # a value torch broadcasts against every leaf: a number, a 0-dim tensor, singleton dims
        how = rng.choice(["0-dim", "number", "ones"])
        v = torch.tensor(-7.0) if how != "ones" else torch.full((1,) * rng.randint(1, 2), -7.0)
        if how == "number":
            return kind, [ix, how], tag(lambda x: x.__setitem__(index, -7.0), torch.tensor(-7.0))
        return kind, [ix, how], tag(lambda x: x.__setitem__(index, v), v)
    full = value_for(rng, tuple(shape))
    if kind == "set_key":
        k = rng.choice(["a", "new"])
        v = full["a"] * 2
        return kind, [k], lambda x: x.set(k, v.clone())
    if kind == "set_key_":
        v = full["b"]
        return kind, ["b"], lambda x: x.set_("b", v.clone())
    if kind == "set_nested":
        k = rng.choice([("n", "c"), ("n", "new"), ("m", "z")])
        v = full["a"] + 1
        return kind, [str(k)], lambda x: x.__setitem__(k, v.clone())
    if kind == "update":
        keys = rng.choice([("a",), ("a", "b"), ("a", "b", "n")])
        v = value_for(rng, tuple(shape), keys)
        return kind, [list(keys)], lambda x: x.update(v.clone())
    if kind == "update_":
        keys = rng.choice([("a",), ("a", "b"), ("a", "b", "n")])
        v = value_for(rng, tuple(shape), keys)
        return kind, [list(keys)], lambda x: x.update_(v.clone())
    if kind == "update_lazy":
        other = LazyStackedTensorDict(*mk_members(bs, n, base=9000), stack_dim=sd)
        inplace = rng.random() < 0.5
        return kind, [inplace], (lambda x: x.update_(other)) if inplace else (lambda x: x.update(other))
    if kind == "fill_":
        return kind, ["a"], lambda x: x.fill_("a", 3.0)
    if kind == "zero_":
        return kind, [], lambda x: x.zero_()
    if kind == "masked_fill_":
        m = torch.tensor([rng.random() < 0.5 for _ in range(math.prod(shape))]).reshape(shape)
        return kind, [m.tolist()], lambda x: x.masked_fill_(m, -1.0)
    if kind == "apply_":
        return kind, [], lambda x: x.apply_(lambda t: t.add_(1))
    if kind == "iadd":
        return kind, [], lambda x: x.__iadd__(1)
    if kind in ("insert", "append"):
        pos = rng.randint(-n, n) if kind == "insert" else None
        return kind, [pos], ("grow", kind, pos)
    if kind == "del_":
        k = rng.choice(["a", ("n", "c"), "n"])
        return kind, [str(k)], lambda x: x.del_(k)
    if kind == "rename_key_":
        return kind, [], lambda x: x.rename_key_("a", "z")
    if kind == "pop":
        return kind, [], lambda x: x.pop("b")
    if kind == "popitem":
        # the popped key is implementation-defined: the value is put back under its own key
        def f(x):
            k, v = x.popitem()
            x.set(k, v)          # whichever key it was: the content must be what it was before
        return kind, [], f
    if kind == "apply_other_":
        other = value_for(rng, tuple(shape))
        return kind, [], lambda x: x.apply_(lambda a, b: a.mul_(2).add_(b), other.clone())
    raise AssertionError(kind)


def mut_ops_stream(run, n_cases):
    global NESTED_EXTRA
    rng = run.rng
    for _ in range(n_cases):
        NESTED_EXTRA = rng.random() < 0.25
        rank = rng.choice([0, 1, 1, 2, 2])
        bs = tuple(rng.choice([1, 2, 2, 3]) for _ in range(rank))
        n = rng.randint(1, 4)
        sd = rng.randint(0, rank)
        shape = list(bs)
        shape.insert(sd, n)
        ms = mk_members(bs, n)
        ms0 = [m.clone() for m in ms]
        L = LazyStackedTensorDict(*ms, stack_dim=sd)
        D = dense_of(ms, sd)
        locked = rng.random() < 0.25
        if locked:
            # a locked stack caches what it computes from its members: in-place writes must still be read back
            L.lock_()
            D.lock_()
            for x in (L, D):
                _ = x["a"], x["b"], x.get("n"), x["n", "c"], x.batch_size, list(x.keys(True, True)), x.names
        name, args, f = gen_mut_op(rng, shape, sd, bs, n)
        case = {"bs": list(bs), "n": n, "sd": sd, "op": name, "args": args, "locked": locked}
        run.case(("mut", name, str(args), bs, n, sd, locked))
        run.count("mut.kind", name + ("/locked" if locked else ""))
        if isinstance(f, tuple):
            _, kind, pos = f
            new = mk_members(bs, 1, base=4000)[0]
            try:
                with time_limit(180):
                    if kind == "append":
                        L.append(new)
                        order = ms + [new]
                    else:
                        L.insert(pos, new)
                        order = list(ms)
                        order.insert(pos, new)
                sl = "ok"
            except TimeoutError:      # a slow box is an infrastructure problem (exit 2), never a verdict
                raise
            except Exception as e:  # noqa: BLE001
                sl = "raise"
            run.count("mut.outcome", f"{name}:lazy-{sl}")
            if sl == "ok":
                D2 = dense_of(order, sd)
                try:
                    d = G.same_td(L, D2) or (None if list(L.tensordicts) == order or all(a is b for a, b in zip(L.tensordicts, order)) else "member list order")
                except TimeoutError:      # a slow box is an infrastructure problem (exit 2), never a verdict
                    raise
                except Exception as e:  # noqa: BLE001
                    d = None
                    run.count("mut.outcome", f"{name}:read-after-raises")
                if d:
                    run.oracle_fail("mut:" + name, case, f"after {name}: {d}", f"mut:{name}")
                else:
                    run.oracle_ok("mut:" + name)
            else:
                run.oracle_ok("mut_raises:" + name)
            continue
        res = []
        for x in (L, D):
            try:
                with time_limit(180):
                    f(x)
                res.append("ok")
            except TimeoutError:
                raise
            except Exception as e:  # noqa: BLE001
                res.append("raise:" + type(e).__name__)
        run.count("mut.outcome", f"{name}:lazy-{res[0][:5]}/dense-{res[1][:5]}")
        if res[0] == "ok" and res[1] == "ok":
            d = state_diff(L.tensordicts, D, sd)
            if d is None and name not in ("del_", "rename_key_", "pop"):
                # the member tensordicts the stack was built from (the caller's objects) hold the data
                d = state_diff(ms, D, sd)
                if d:
                    d = "original member objects were not written (the stack now holds other objects): " + d
            if d is None:
                # the stack itself must also read the new content
                try:
                    d = G.same_td(L, D)
                except TimeoutError:      # a slow box is an infrastructure problem (exit 2), never a verdict
                    raise
                except Exception:  # noqa: BLE001
                    d = None
            if d and hasattr(f, "write_index"):
                # is the dense TensorDict itself torch-conforming on this write (C03's subject)?
                try:
                    E = torch_expect_write(ms0, sd, f.write_index, f.write_value)
                    if G.same_td(D, E) is not None:
                        run.count("mut.dense_not_torch(C03)", name)
                        d = None
                except TimeoutError:      # a slow box is an infrastructure problem (exit 2), never a verdict
                    raise
                except Exception:  # noqa: BLE001
                    pass
            if d:
                run.oracle_fail("mut:" + name, case, f"after {name}{tuple(args)}: {d}", f"mut:{name}")
            else:
                run.oracle_ok("mut:" + name)
        else:
            run.oracle_ok("mut_raises:" + name)


# ----------------------------------------------------------------------------- member writes are visible
def member_write_stream(run, n_cases):
    global NESTED_EXTRA
    rng = run.rng
    for _ in range(n_cases):
        NESTED_EXTRA = rng.random() < 0.25
        rank = rng.choice([0, 1, 2, 2])
        bs = tuple(rng.choice([1, 2, 3]) for _ in range(rank))
        n = rng.randint(1, 4)
        sd = rng.randint(0, rank)
        shape = list(bs)
        shape.insert(sd, n)
        ms = mk_members(bs, n)
        L = LazyStackedTensorDict(*ms, stack_dim=sd)
        if rng.random() < 0.5:
            L.lock_()
            L["a"]          # fill the read cache of a locked stack
            L.unlock_()
        _ = L["a"], L["n", "c"]
        i = rng.randrange(n)
        how = rng.choice(["inplace", "rebind", "new_key_all", "index_write", "nested"])
        try:
            if how == "inplace":
                ms[i]["a"].add_(17)
            elif how == "rebind":
                ms[i]["a"] = ms[i]["a"] * 0 - 3
            elif how == "new_key_all":
                for j, m in enumerate(ms):
                    m["fresh"] = m["a"] + j
            elif how == "index_write":
                if rank:
                    ms[i][0] = value_for(rng, tuple(bs[1:]))
                else:
                    ms[i].update(value_for(rng, ()))
            else:
                ms[i]["n", "c"] = ms[i]["n", "c"] + 0.5
        except TimeoutError:      # a slow box is an infrastructure problem (exit 2), never a verdict
            raise
        except Exception:  # noqa: BLE001
            run.oracle_ok("member_write_raises")
            continue
        D = dense_of(ms, sd)
        case = {"bs": list(bs), "n": n, "sd": sd, "member": i, "how": how}
        run.case(("mw", bs, n, sd, i, how))
        run.count("member_write.how", how)
        ix = G.gen_index(rng, shape)
        index = G.index_py(ix)
        d = None
        try:
            d = G.same_td(L, D)
            if d is None:
                try:
                    rl = L[index]
                except TimeoutError:      # a slow box is an infrastructure problem (exit 2), never a verdict
                    raise
                except Exception:  # noqa: BLE001
                    rl = None
                if rl is not None:
                    try:
                        rd = D[index]
                    except TimeoutError:      # a slow box is an infrastructure problem (exit 2), never a verdict
                        raise
                    except Exception:  # noqa: BLE001
                        rd = None
                    if rd is not None:
                        d = G.same_td(rl, rd)
        except TimeoutError:      # a slow box is an infrastructure problem (exit 2), never a verdict
            raise
        except Exception as e:  # noqa: BLE001
            run.count("member_write.read_raises", type(e).__name__)
        if d:
            run.oracle_fail("member_write", dict(case, ix=ix), f"write to member {i} ({how}) not visible through the stack: {d}", f"member_write:{how}")
        else:
            run.oracle_ok("member_write")


# ----------------------------------------------------------------------------- masks of rank 3 (outside the Lean model)
def mask3_stream(run, n_cases):
    """reads and tensordict writes with a boolean mask of rank 3 (before / on / spanning / after the stack dim, full
    slices before it): the Lean model stops at rank 2, the dense stack is the oracle"""
    global NESTED_EXTRA
    rng = run.rng
    for _ in range(n_cases):
        NESTED_EXTRA = False
        rank = rng.choice([2, 3, 3])
        bs = tuple(rng.choice([1, 2, 2, 3]) for _ in range(rank))
        n = rng.randint(1, 3)
        sd = rng.randint(0, rank)
        full = list(bs)
        full.insert(sd, n)
        start = rng.randint(0, len(full) - 3)
        mshape = full[start:start + 3]
        p = rng.choice([0.0, 0.3, 0.5, 0.5, 0.8, 1.0])
        m = torch.tensor([rng.random() < p for _ in range(mshape[0] * mshape[1] * mshape[2])], dtype=torch.bool).reshape(mshape)
        index = (slice(None),) * start + (m,)
        if rng.random() < 0.3 and start + 3 < len(full):
            index = index + (rng.randrange(full[start + 3]),)
        ms = mk_members(bs, n)
        L = LazyStackedTensorDict(*ms, stack_dim=sd)
        D = dense_of(ms, sd)
        where = "before" if start + 3 <= sd else ("after" if start > sd else "on/spanning")
        case = {"bs": list(bs), "n": n, "sd": sd, "mask_start": start, "mask": m.reshape(-1).tolist(), "tail": len(index) - start - 1}
        run.case(("mask3", bs, n, sd, start, str(m.reshape(-1).tolist())))
        run.count("mask3.where", where)
        # read
        try:
            with time_limit(180):
                rl = L[index]
        except TimeoutError:
            raise
        except Exception:  # noqa: BLE001
            rl = None
        try:
            rd = D[index]
        except TimeoutError:      # a slow box is an infrastructure problem (exit 2), never a verdict
            raise
        except Exception:  # noqa: BLE001
            rd = None
        if rl is not None and rd is not None:
            try:
                d = diff_canon(canon(rl), canon(rd))
            except TimeoutError:      # a slow box is an infrastructure problem (exit 2), never a verdict
                raise
            except Exception as e:  # noqa: BLE001
                run.count("mask3.compare_raises", type(e).__name__)
                d = None
            if d:
                run.oracle_fail("mask3_read", case, f"lazy[rank-3 mask {where} the stack dim] differs from dense: {d}", f"mask3_read:{where}")
            else:
                run.oracle_ok("mask3_read")
        else:
            run.oracle_ok("mask3_read_raises")
        # write
        if rd is None:
            continue
        v = value_for(rng, tuple(rd.batch_size))
        ok = []
        for x in (L, D):
            try:
                with time_limit(180):
                    x[index] = v.clone()
                ok.append(True)
            except TimeoutError:
                raise
            except Exception:  # noqa: BLE001
                ok.append(False)
        run.count("mask3.write_outcome", f"lazy-{ok[0]}/dense-{ok[1]}")
        if all(ok):
            try:
                d = state_diff(ms, D, sd)
            except TimeoutError:      # a slow box is an infrastructure problem (exit 2), never a verdict
                raise
            except Exception as e:  # noqa: BLE001
                run.count("mask3.compare_raises", type(e).__name__)
                d = None
            if d:
                run.oracle_fail("mask3_write", case, f"after lazy[rank-3 mask {where} the stack dim] = value: {d}", f"mask3_write:{where}")
            else:
                run.oracle_ok("mask3_write")
        else:
            run.oracle_ok("mask3_write_raises")


# ----------------------------------------------------------------------------- lock / unlock histories (memoised reads must never be stale)
def _lock_view_diff(L, ms, sd):
    """everything a (possibly memoising) locked stack answers from its members vs the dense stack of the CURRENT members"""
    D = dense_of(ms, sd)
    d = G.same_td(L, D)
    if d:
        return d
    for kw in ((), (True, True), (True, False), (False, True)):
        kl, kd = sorted(map(str, L.keys(*kw))), sorted(map(str, D.keys(*kw)))
        if kl != kd:
            return f"keys{kw}: {kl} vs {kd}"
    for k in D.keys():
        vd = D.get(k)
        vl = L.get(k)
        if hasattr(vd, "batch_size") and hasattr(vd, "keys"):
            d = G.same_td(vl, vd)
            if d:
                return f"nested entry {k!r} read as a tensordict: {d}"
        elif not torch.equal(vl, vd):
            return f"values of {k!r}: {vl.reshape(-1).tolist()[:12]} vs {vd.reshape(-1).tolist()[:12]}"
    return diff_canon(canon(L), canon(D))


def lock_history_stream(run, n_cases):
    """a lazy stack under every way of being locked (the stack itself, its members before / after stacking, nobody), read
    through the memoised paths, then its members unlocked, modified (new key, deleted key, rebound leaf / nested node,
    in-place write) and locked again, 1-3 rounds: after every round the stack must read like the dense stack of its members"""
    global NESTED_EXTRA
    rng = run.rng
    for _ in range(n_cases):
        NESTED_EXTRA = False
        rank = rng.choice([0, 1, 1, 2])
        bs = tuple(rng.choice([1, 2, 3]) for _ in range(rank))
        n = rng.randint(1, 3)
        sd = rng.randint(0, rank)
        ms = mk_members(bs, n)
        mode = rng.choice(["members_before", "members_before", "members_after", "stack", "nobody"])
        if mode == "members_before":
            for m in ms:
                m.lock_()
        L = LazyStackedTensorDict(*ms, stack_dim=sd) if rng.random() < 0.5 else lazy_stack(ms, sd)
        if mode == "members_after":
            for m in ms:
                m.lock_()
        elif mode == "stack":
            L.lock_()
        steps = []
        case = {"bs": list(bs), "n": n, "sd": sd, "mode": mode, "steps": steps}
        run.case(("lockhist", bs, n, sd, mode))
        run.count("lock_history.mode", mode)
        d = None
        try:
            d = _lock_view_diff(L, ms, sd)           # first read: fills whatever is memoised
            where = "first read"
            for rnd in range(rng.randint(1, 3)):
                if d:
                    break
                how = rng.choice(["new_key", "del_key", "rebind_nested", "rebind_leaf", "inplace", "new_nested_key"])
                via = "stack" if (mode == "stack" and rng.random() < 0.8) else "members"
                steps.append([how, via])
                run.count("lock_history.how", how)
                # unlock
                if via == "stack":
                    L.unlock_()
                else:
                    for m in ms:
                        if m.is_locked:
                            m.unlock_()
                # modify
                for j, m in enumerate(ms):
                    if how == "new_key":
                        m.set(f"fresh{rnd}", m["a"] + j + 0.5)
                    elif how == "del_key":
                        if "b" in m.keys():
                            del m["b"]
                    elif how == "rebind_nested":
                        m.set("n", TensorDict({"c": m["a"] * 0 + 70 + j + rnd}, list(bs)))
                    elif how == "rebind_leaf":
                        m.set("a", m["a"] * 0 - 5 - j - rnd)
                    elif how == "inplace":
                        m["a"].add_(3 + j)
                    else:
                        m.set(("n", f"extra{rnd}"), m["a"] + 9 + j)
                # lock again (the same way, or another one)
                relock = rng.choice([mode, mode, "members_after", "stack", "nobody"]) if mode != "members_before" else rng.choice(["members_after", "members_after", "nobody"])
                steps[-1].append(relock)
                if relock in ("members_after", "members_before"):
                    for m in ms:
                        m.lock_()
                elif relock == "stack":
                    L.lock_()
                where = f"after round {rnd} ({how}, unlocked via {via}, locked again: {relock})"
                d = _lock_view_diff(L, ms, sd)
                if mode != "members_before":
                    mode = relock if relock != "members_before" else "members_after"
        except TimeoutError:      # a slow box is an infrastructure problem (exit 2), never a verdict
            raise
        except Exception as e:  # noqa: BLE001  (e.g. unlocking a member of a locked stack is refused)
            run.count("lock_history.raises", type(e).__name__)
            run.oracle_ok("lock_history_raises")
            continue
        if d:
            run.oracle_fail("lock_history", case, f"{where}: the stack does not read like the dense stack of its members: {d}", f"lock_history:{case['mode']}")
        else:
            run.oracle_ok("lock_history")


# ----------------------------------------------------------------------------- views and copies
VIEW_OPS = ["unsqueeze", "squeeze", "transpose", "permute", "unbind_piece", "split_piece", "chunk_piece", "basic_index",
            "clone_shallow", "select_keys", "exclude_keys"]   # the last three share the leaf tensors with their input
COPY_OPS = ["repeat", "repeat_interleave", "clone", "gather", "to_tensordict", "cat_two", "stack_two"]


def gen_alias_op(rng, shape, sd):
    """an op whose dense result is known to be a view of (VIEW_OPS) / independent of (COPY_OPS) its input"""
    r = len(shape)
    kind = rng.choice(VIEW_OPS + COPY_OPS)
    if kind == "unsqueeze":
        d = rand_dim(rng, r, 1)
        return kind, [d], lambda x: x.unsqueeze(d)
    if kind == "squeeze":
        d = rand_dim(rng, r)
        return kind, [d], lambda x: x.squeeze(d)
    if kind == "transpose":
        a, b = rand_dim(rng, r), rand_dim(rng, r)
        return kind, [a, b], lambda x: x.transpose(a, b)
    if kind == "permute":
        p = list(range(r))
        rng.shuffle(p)
        return kind, [p], lambda x: x.permute(*p)
    if kind in ("unbind_piece", "split_piece", "chunk_piece"):
        d = rand_dim(rng, r)
        s = shape[d]
        if kind == "unbind_piece":
            j = rng.randrange(s)
            return kind, [d, j], lambda x: x.unbind(d)[j]
        if kind == "split_piece":
            k = rng.randint(1, s)
            j = rng.randrange(-(-s // k))
            return kind, [k, d, j], lambda x: x.split(k, d)[j]
        k = rng.randint(1, 3)
        return kind, [k, d], lambda x: x.chunk(k, d)[0]
    if kind == "basic_index":
        ix = []
        for s in shape[:rng.randint(0, r)]:
            q = rng.random()
            if q < 0.35:
                ix.append(rng.randrange(-s, s))
            elif q < 0.8:
                a = rng.randrange(s)
                ix.append(slice(a, rng.randint(a + 1, s), rng.choice([None, 1, 2])))
            else:
                ix.append(slice(None))
            if rng.random() < 0.15:
                ix.append(None)
        ix = tuple(ix)
        return kind, [str(ix)], lambda x: x[ix]
    if kind == "repeat":
        reps = [rng.randint(1, 2) for _ in range(r)]
        return kind, [reps], lambda x: x.repeat(*reps)
    if kind == "repeat_interleave":
        d = rand_dim(rng, r)
        k = rng.randint(1, 3)
        return kind, [k, d], lambda x: x.repeat_interleave(k, dim=d)
    if kind in ("clone", "to_tensordict"):
        return kind, [], lambda x: getattr(x, kind)()
    if kind == "clone_shallow":
        return kind, [], lambda x: x.clone(False)
    if kind == "select_keys":
        return kind, [], lambda x: x.select("a", "n")
    if kind == "exclude_keys":
        return kind, [], lambda x: x.exclude("b")
    if kind == "gather":
        d = rand_dim(rng, r)
        dd = d % r
        ishape = list(shape)
        ishape[dd] = rng.randint(1, 2)
        idx = torch.tensor([rng.randrange(shape[dd]) for _ in range(math.prod(ishape))], dtype=torch.long).reshape(ishape)
        return kind, [d, idx.tolist()], lambda x: x.gather(d, idx)
    if kind in ("cat_two", "stack_two"):
        # a second operand of the same kind with its own storage (lazy: its own member objects)
        d = rand_dim(rng, r) if kind == "cat_two" else rand_dim(rng, r, 1)

        def f(x, d=d, kind=kind):
            if isinstance(x, LazyStackedTensorDict):
                y = LazyStackedTensorDict(*[m.clone() for m in x.tensordicts], stack_dim=x.stack_dim)
            else:
                y = x.clone()
            return torch.cat([x, y], d) if kind == "cat_two" else torch.stack([x, y], d)
        return kind, [d], f
    raise AssertionError(kind)


def gen_result_write(rng, bs, simple=False):
    """an in-place write on a result of batch size `bs`, through the tensordict API only
    (`simple`: the result lacks some keys, only key-agnostic writes)"""
    how = rng.choice(["zero_", "fill_", "apply_"] if simple else ["zero_", "fill_", "set_item", "apply_", "update_"])
    if how == "set_item" and not (bs and bs[0] > 0):
        how = "zero_"
    if how == "zero_":
        return how, [], lambda r: r.zero_()
    if how == "fill_":
        return how, ["a"], lambda r: r.fill_("a", 7.0)
    if how == "apply_":
        return how, [], lambda r: r.apply_(lambda t: t + 0.25)
    if how == "update_":
        return how, [], lambda r: r.update_(value_for(rng, tuple(bs), keys=("a", "n")))
    j = rng.randrange(bs[0])
    return how, [j], lambda r: r.__setitem__(j, value_for(rng, tuple(bs[1:])))


def alias_stream(run, n_cases):
    """a result that is a view of the dense stack must write through to the members the same way;
    in a result that is a copy on the dense side no position may alias another one (a write to the
    result must leave it equal to the dense result written the same way).  Whether a lazy "copy"
    shares members with its SOURCE is not flagged (torch.cat along the stack dim re-uses the member
    objects by design, as lazy_stack does): it is counted as `alias_shares_source`."""
    global NESTED_EXTRA
    rng = run.rng
    for _ in range(n_cases):
        NESTED_EXTRA = rng.random() < 0.25
        rank = rng.choice([0, 1, 1, 2, 2])
        bs = tuple(rng.choice([1, 2, 2, 3]) for _ in range(rank))
        n = rng.randint(1, 4)
        sd = rng.randint(0, rank)
        shape = list(bs)
        shape.insert(sd, n)
        two = rng.random() < 0.25
        if two:
            # a stack of stacks: `n` inner stacks of `n_in` members stacked at `sd_in`
            n_in = rng.randint(1, 3)
            sd_in = rng.randint(0, rank)
            inner_ms = [mk_members(bs, n_in, base=20000 * j) for j in range(n)]
            L = LazyStackedTensorDict(*[LazyStackedTensorDict(*ms_, stack_dim=sd_in) for ms_ in inner_ms], stack_dim=sd)
            D = torch.stack([dense_of(ms_, sd_in) for ms_ in inner_ms], sd)
            shape = list(D.batch_size)

            def source_diff():
                return G.same_td(torch.stack([dense_of(ms_, sd_in) for ms_ in inner_ms], sd), D)
        else:
            ms = mk_members(bs, n)
            L = LazyStackedTensorDict(*ms, stack_dim=sd)
            D = dense_of(ms, sd)

            def source_diff():
                return state_diff(ms, D, sd)
        name, args, f = gen_alias_op(rng, shape, sd)
        case = {"bs": list(bs), "n": n, "sd": sd, "op": name, "args": args}
        if two:
            case.update(n_in=n_in, sd_in=sd_in)
        run.case(("alias", name, str(args), bs, n, sd, two))
        try:
            with time_limit(180):
                rl, rd = f(L), f(D)
        except TimeoutError:
            raise
        except Exception:  # noqa: BLE001
            run.oracle_ok("alias_raises:" + name)
            continue
        if tuple(rl.batch_size) != tuple(rd.batch_size) or is_empty_lazy(rl):
            run.oracle_ok("alias_skipped:" + name)      # value disagreements are the read streams' business
            continue
        st = rng.getstate()
        simple = name in ("select_keys", "exclude_keys")
        how, wargs, w = gen_result_write(rng, list(rd.batch_size), simple)
        case.update(write=how, wargs=wargs)
        try:
            with time_limit(180):
                w(rd)
                rng.setstate(st)
                how2, _, w2 = gen_result_write(rng, list(rd.batch_size), simple)
                assert how2 == how
                w2(rl)
        except TimeoutError:
            raise
        except Exception:  # noqa: BLE001
            run.oracle_ok("alias_raises:" + name)
            continue
        run.count("alias.kind", f"{name}/{how}")
        d = diff_canon(canon(rl), canon(rd))
        if d is None:
            d = source_diff()
            if d and name in COPY_OPS:
                run.count("alias.shares_source", name)
                d = None
            elif d:
                d = "source after the write: " + d
        else:
            d = "result after the write: " + d
        if d:
            what = "view" if name in VIEW_OPS else "copy"
            run.oracle_fail("alias:" + name, case,
                            f"lazy.{name}{tuple(args)} ({what} on the dense side) then {how}{tuple(wargs)}: {d}", f"alias:{name}")
        else:
            run.oracle_ok("alias:" + name)


# ----------------------------------------------------------------------------- writes must copy their source
# dense semantics: these writes COPY the source; a later in-place write to the source must not show
COPYING_WRITES = ["update_clone", "update_", "setitem", "update_at_", "set_at_", "set_"]
# these store the source tensors themselves (dense: aliasing); only the distribution is recorded
SHARING_WRITES = ["update_noclone", "set"]


def source_alias_stream(run, n_cases):
    """history: write `source` into the stack (lazy and dense twin, each with its own source), then
    write IN PLACE to the source, then compare.  After a copying write the destination must not
    follow its source (the dense stack does not)."""
    global NESTED_EXTRA
    rng = run.rng
    for _ in range(n_cases):
        NESTED_EXTRA = False
        rank = rng.choice([0, 1, 1, 2, 2])
        bs = tuple(rng.choice([1, 2, 2, 3]) for _ in range(rank))
        n = rng.randint(1, 4)
        sd = rng.randint(0, rank)
        shape = list(bs)
        shape.insert(sd, n)
        ms = mk_members(bs, n)
        L = LazyStackedTensorDict(*ms, stack_dim=sd)
        D = dense_of(ms, sd)
        op = rng.choice(COPYING_WRITES + COPYING_WRITES + SHARING_WRITES)
        # the region written and the batch size of the source
        index = None
        if op in ("setitem", "update_at_", "set_at_"):
            for _try in range(20):
                ix = [i for i in G.gen_index(rng, shape, adv="no") if i[0] != "ell"]
                if no_dup_writes(ix):
                    break
            index = G.index_py(ix)
            try:
                sbs = tuple(torch.zeros(shape)[index].shape) if index else tuple(shape)
            except TimeoutError:      # a slow box is an infrastructure problem (exit 2), never a verdict
                raise
            except Exception:  # noqa: BLE001
                run.oracle_ok("source_alias_skipped")
                continue
        else:
            ix = []
            sbs = tuple(shape)
        # the source, once per side (same values, separate storage)
        kind = rng.choice(["lazy_same", "lazy_other", "dense", "dict"])
        if op in ("set_at_", "set_", "set"):
            kind = "tensor"
        if kind == "dict" and op not in ("update_clone", "update_noclone", "update_"):
            kind = "dense"
        if kind.startswith("lazy") and (len(sbs) == 0 or 0 in sbs):
            kind = "dense"

        def mk_source():
            v = value_for(rng_v, sbs)
            if kind == "tensor":
                return v["b"]
            if kind == "dict":
                return v.to_dict()
            if kind == "dense":
                return v
            d = (sd if (kind == "lazy_same" and index is None) else rng_v.randrange(len(sbs))) % len(sbs)
            if kind == "lazy_other" and index is None and len(sbs) > 1 and d == sd:
                d = (d + 1) % len(sbs)
            return LazyStackedTensorDict(*[t.clone() for t in v.unbind(d)], stack_dim=d)
        st = rng.getstate()
        rng_v = rng
        srcL = mk_source()
        rng.setstate(st)
        srcD = mk_source()
        case = {"bs": list(bs), "n": n, "sd": sd, "op": op, "source": kind, "ix": ix}
        run.case(("source_alias", op, kind, str(ix), bs, n, sd))

        def write(x, src):
            if op == "update_clone":
                x.update(src, clone=True)
            elif op == "update_noclone":
                x.update(src)
            elif op == "update_":
                x.update_(src)
            elif op == "setitem":
                x[index] = src
            elif op == "update_at_":
                x.update_at_(src, index)
            elif op == "set_at_":
                x.set_at_("b", src, index)
            elif op == "set_":
                x.set_("b", src)
            else:
                x.set("b", src)

        def poke(src):
            # in-place writes to the source, through every handle on it
            if isinstance(src, torch.Tensor):
                src.mul_(0).sub_(3)
            elif isinstance(src, dict):
                for v in src.values():
                    if isinstance(v, dict):
                        for w in v.values():
                            w.mul_(0).sub_(3)
                    else:
                        v.mul_(0).sub_(3)
            else:
                src.zero_()
                src.apply_(lambda t: t.sub_(3))
                if isinstance(src, LazyStackedTensorDict):
                    for m in src.tensordicts:
                        m.get("a").add_(1)
                        m.get("a").sub_(1)
        try:
            with time_limit(180):
                write(L, srcL)
                write(D, srcD)
        except TimeoutError:
            raise
        except Exception:  # noqa: BLE001
            run.oracle_ok("source_alias_raises:" + op)
            continue
        try:
            before = G.same_td(L, D) or state_diff(ms, D, sd)
        except TimeoutError:      # a slow box is an infrastructure problem (exit 2), never a verdict
            raise
        except Exception:  # noqa: BLE001
            before = "unreadable"
        if before:
            run.oracle_ok("source_alias_skipped")      # a value disagreement: the mutating-op streams' business
            continue
        try:
            poke(srcL)
            poke(srcD)
        except TimeoutError:      # a slow box is an infrastructure problem (exit 2), never a verdict
            raise
        except Exception:  # noqa: BLE001
            run.oracle_ok("source_alias_raises:" + op)
            continue
        try:
            d = G.same_td(L, D) or state_diff(L.tensordicts, D, sd)
        except TimeoutError:      # a slow box is an infrastructure problem (exit 2), never a verdict
            raise
        except Exception as e:  # noqa: BLE001
            d = None
            run.count("source_alias.read_raises", type(e).__name__)
        run.count("source_alias.kind", f"{op}/{kind}")
        if d and op in COPYING_WRITES:
            run.oracle_fail("source_alias:" + op, case,
                            f"{op} with a {kind} source, then an in-place write to the SOURCE: the lazy stack follows its source, the dense stack does not: {d}",
                            f"source_alias:{op}:{kind}")
        else:
            if d:
                run.count("source_alias.sharing_differs", f"{op}/{kind}")
            run.oracle_ok("source_alias:" + op)


# ----------------------------------------------------------------------------- cat / stack (with and without out=)
def cat_stack_stream(run, n_cases):
    global NESTED_EXTRA
    rng = run.rng
    for _ in range(n_cases):
        NESTED_EXTRA = rng.random() < 0.25
        rank = rng.choice([0, 1, 1, 2])
        bs = tuple(rng.choice([1, 2, 3]) for _ in range(rank))
        sd = rng.randint(0, rank)
        nops = rng.randint(1, 3)
        fn = rng.choice(["cat", "cat", "stack"])
        r = rank + 1
        dim = rng.randrange(r + (1 if fn == "stack" else 0))
        if rng.random() < 0.3:
            dim -= r + (1 if fn == "stack" else 0)
        dimn = dim % (r + (1 if fn == "stack" else 0))
        ops_m = []
        for j in range(nops):
            if fn == "cat" and dimn != sd:
                # operands may differ along the cat dim only
                bsj = list(bs)
                md = dimn if dimn < sd else dimn - 1
                bsj[md] = rng.choice([1, 2, 3])
                nj = None
            else:
                bsj = list(bs)
                nj = rng.randint(1, 3) if fn == "cat" else None
            ops_m.append((tuple(bsj), nj))
        n0 = rng.randint(1, 3)
        Ls, Ds = [], []
        mixed = rng.random() < 0.2      # operands stacked along different dims (same overall batch size)
        for j, (bsj, nj) in enumerate(ops_m):
            n = nj if nj is not None else n0
            sdj = sd
            if mixed and j > 0:
                fullj = list(bsj)
                fullj.insert(sd, n)
                sdj = rng.randrange(len(fullj))
                n = fullj.pop(sdj)
                bsj = tuple(fullj)
            if n == 0:
                n = 1
            ms = mk_members(bsj, n, base=10000 * j)
            Ls.append(LazyStackedTensorDict(*ms, stack_dim=sdj))
            Ds.append(dense_of(ms, sdj))
        tf = torch.cat if fn == "cat" else torch.stack
        out_kind = rng.choice(["none", "none", "lazy", "dense", "lazy_otherdim"])
        case = {"fn": fn, "bs": [list(b) for b, _ in ops_m], "n": [len(l.tensordicts) for l in Ls], "sd": sd, "dim": dim, "out": out_kind}
        run.case(("cs", str(case)))
        run.count("cat_stack.kind", f"{fn}/out={out_kind}/{'on_sd' if dimn == sd else 'off_sd'}/{nops}ops" + ("/mixed_sd" if mixed else ""))
        try:
            with time_limit(180):
                expect = tf([d.clone() for d in Ds], dim)
        except TimeoutError:
            raise
        except Exception:  # noqa: BLE001
            run.oracle_ok("cat_stack_dense_raises")
            continue
        got = None
        out_ms = None
        try:
            with time_limit(180):
                if out_kind == "none":
                    got = tf(Ls, dim)
                else:
                    eb = list(expect.batch_size)
                    if out_kind == "dense":
                        out = expect.clone().zero_()
                    else:
                        osd = sd if out_kind == "lazy" else rng.randrange(len(eb))
                        if fn == "stack" and out_kind == "lazy":
                            osd = dimn
                        mb = list(eb)
                        on = mb.pop(osd)
                        out_ms = mk_members(tuple(mb), on, base=77000)
                        out = LazyStackedTensorDict(*out_ms, stack_dim=osd)
                        case["out_sd"] = osd
                    got = tf(Ls, dim, out=out)
                    if got is not out:
                        run.count("cat_stack.out_identity", "returned-other-object")
                    got = out
        except TimeoutError:
            raise
        except Exception as e:  # noqa: BLE001
            run.count("cat_stack.outcome", f"{fn}/out={out_kind}:lazy-raise")
            run.oracle_ok("cat_stack_raises")
            continue
        try:
            d = G.same_td(got, expect)
        except TimeoutError:      # a slow box is an infrastructure problem (exit 2), never a verdict
            raise
        except Exception:  # noqa: BLE001
            run.oracle_ok("cat_stack_unreadable")
            continue
        if d:
            run.oracle_fail("cat_stack", case, f"torch.{fn}(lazy stacks, {dim}, out={out_kind}) differs from the dense {fn}: {d}",
                            f"cat_stack:{fn}:out={out_kind}:{'on_sd' if dimn == sd else 'off_sd'}")
        else:
            run.oracle_ok("cat_stack")


# ----------------------------------------------------------------------------- stacks of stacks
def stack_of_stacks_stream(run, n_cases):
    """a lazy stack whose members are lazy stacks: reads, index writes and shape ops against the dense stack"""
    global NESTED_EXTRA
    rng = run.rng
    for _ in range(n_cases):
        NESTED_EXTRA = rng.random() < 0.2
        rank = rng.choice([0, 1, 1, 2])
        bs = tuple(rng.choice([1, 2, 3]) for _ in range(rank))
        n_in = rng.randint(1, 3)
        n_out = rng.randint(1, 3)
        sd_in = rng.randint(0, rank)
        sd_out = rng.randint(0, rank + 1)
        inner_ms = [mk_members(bs, n_in, base=20000 * j) for j in range(n_out)]
        inners = [LazyStackedTensorDict(*ms, stack_dim=sd_in) for ms in inner_ms]
        L = LazyStackedTensorDict(*inners, stack_dim=sd_out)
        D = torch.stack([dense_of(ms, sd_in) for ms in inner_ms], sd_out)
        shape = list(D.batch_size)
        what = rng.choice(["read", "read", "write", "op", "key", "mut"])
        case = {"bs": list(bs), "n_in": n_in, "n_out": n_out, "sd_in": sd_in, "sd_out": sd_out, "what": what}
        run.case(("sos", str(case), rng.random()))
        run.count("stack_of_stacks.what", what)
        if what == "read":
            ix = G.gen_index(rng, shape)
            case["ix"] = ix
            f = lambda x, index=G.index_py(ix): x[index]  # noqa: E731
            (sl, rl), (sdn, rd) = run_both(f, L, D)
            if sl == "ok" and sdn == "ok" and diff_canon(rl, rd):
                run.oracle_fail("stack_of_stacks", case, f"read differs: {diff_canon(rl, rd)}", "sos:read")
            else:
                run.oracle_ok("stack_of_stacks:" + sl)
        elif what == "op":
            name, args, f = gen_read_op(rng, shape, sd_out)
            case["op"], case["args"] = name, args
            if isinstance(f, tuple):
                f = lambda x: x == x  # noqa: E731
            (sl, rl), (sdn, rd) = run_both(f, L, D)
            tol = 1e-5 if name in ROUNDING_OPS else 0.0
            if sl == "ok" and sdn == "ok" and diff_canon(rl, rd, tol):
                run.oracle_fail("stack_of_stacks", case, f"{name}{tuple(args)} differs: {diff_canon(rl, rd, tol)}", f"sos:op:{name}")
            else:
                run.oracle_ok("stack_of_stacks:" + sl)
        elif what == "mut":
            bs_outer = list(shape)
            del bs_outer[sd_out]
            for _ in range(20):
                name, args, f = gen_mut_op(rng, shape, sd_out, tuple(bs_outer), n_out)
                if not isinstance(f, tuple):      # insert / append of a plain member: the one-level stream's business
                    break
            else:
                continue
            case["op"], case["args"] = name, args
            D0 = D.clone()
            res = []
            for x in (L, D):
                try:
                    with time_limit(180):
                        f(x)
                    res.append("ok")
                except TimeoutError:
                    raise
                except Exception:  # noqa: BLE001
                    res.append("raise")
            run.count("stack_of_stacks.mut", f"{name}:{'/'.join(res)}")
            if res == ["ok", "ok"]:
                d = None
                try:
                    # the leaf members (the caller's objects) hold the data ...
                    S = torch.stack([dense_of(ms, sd_in) for ms in inner_ms], sd_out)
                    d = G.same_td(S, D)
                    if d:
                        d = "stack(stack(leaf members)) vs dense: " + d
                except TimeoutError:      # a slow box is an infrastructure problem (exit 2), never a verdict
                    raise
                except Exception as e:  # noqa: BLE001
                    d = f"leaf members can no longer be stacked: {type(e).__name__}"
                if d is None:
                    try:
                        d = G.same_td(L, D)    # ... and the stack of stacks reads it
                    except TimeoutError:      # a slow box is an infrastructure problem (exit 2), never a verdict
                        raise
                    except Exception:  # noqa: BLE001
                        d = None
                if d and hasattr(f, "write_index"):
                    # is the dense TensorDict itself torch-conforming on this write (C03's subject)?
                    try:
                        E = torch_expect_write(None, None, f.write_index, f.write_value, E=D0)
                        if G.same_td(D, E) is not None:
                            run.count("stack_of_stacks.dense_not_torch(C03)", name)
                            d = None
                    except TimeoutError:      # a slow box is an infrastructure problem (exit 2), never a verdict
                        raise
                    except Exception:  # noqa: BLE001
                        pass
                if d:
                    run.oracle_fail("stack_of_stacks", case, f"after {name}{tuple(args)[:1]} through the stack of stacks: {d}", f"sos:mut:{name}")
                else:
                    run.oracle_ok("stack_of_stacks:mut")
            else:
                run.oracle_ok("stack_of_stacks:mut-" + "/".join(res))
        elif what == "key":
            (sl, rl), (sdn, rd) = run_both(lambda x: [x["a"], x["n", "c"], x.get("b")], L, D)
            if sl == "ok" and sdn == "ok" and diff_canon(rl, rd):
                run.oracle_fail("stack_of_stacks", case, f"key read differs: {diff_canon(rl, rd)}", "sos:key")
            else:
                run.oracle_ok("stack_of_stacks:" + sl)
        else:
            for _ in range(20):
                ix = G.gen_index(rng, shape)
                if no_dup_writes(ix):
                    break
            index = G.index_py(ix)
            case["ix"] = ix
            try:
                ibs = tuple(torch.zeros(shape)[index].shape) if index else tuple(shape)
            except TimeoutError:      # a slow box is an infrastructure problem (exit 2), never a verdict
                raise
            except Exception:  # noqa: BLE001
                run.oracle_ok("stack_of_stacks:bad-index")
                continue
            v = value_for(rng, ibs)
            res = []
            for x in (L, D):
                try:
                    with time_limit(180):
                        x[index] = v.clone()
                    res.append("ok")
                except TimeoutError:
                    raise
                except Exception:  # noqa: BLE001
                    res.append("raise")
            if res == ["ok", "ok"]:
                try:
                    S = torch.stack([dense_of(ms, sd_in) for ms in inner_ms], sd_out)   # the leaf members hold the data
                    d = G.same_td(S, D)
                except TimeoutError:      # a slow box is an infrastructure problem (exit 2), never a verdict
                    raise
                except Exception as e:  # noqa: BLE001
                    d = f"members can no longer be stacked: {type(e).__name__}"
                if d:
                    try:
                        E = torch_expect_write([m for ms in inner_ms for m in ms], 0, index, v) if False else None
                    except TimeoutError:      # a slow box is an infrastructure problem (exit 2), never a verdict
                        raise
                    except Exception:  # noqa: BLE001
                        E = None
                    run.oracle_fail("stack_of_stacks", case, f"after a write through the stack of stacks: {d}", "sos:write")
                else:
                    run.oracle_ok("stack_of_stacks:write")
            else:
                run.oracle_ok("stack_of_stacks:write-" + "/".join(res))
