"""Keep known_findings.json's `fixed` entries in step with the fix: commits on /repo main.
Each fix commit gets `fixed: property=<id> <commit> <what failed>`; a fixed entry suppresses nothing."""
import json, subprocess, re
GROUP = {"K": ["C18"], "A": ["C02", "C17"], "B": ["C03"], "C": ["C08"], "D": ["C04", "C01"], "E": ["C05", "C06"], "F": ["C09", "C20"],
         "G": ["C12", "C11", "C10"], "H": ["C13", "C14"], "I": ["C15", "C16"], "J": ["C07", "C19"]}
# within a builder's group: regex on the subject selecting the NON-first property
SECOND = {"A": [(r"context-manager|`with td|with-block", "C17")],
          "D": [(r"rename_key_ moved|batch_size assignment|names|coheren|device", "C01")],
          "E": [(r"memois|cache|stale", "C06")],
          "F": [(r"apply", "C20")],
          "G": [(r"consolidat|pickle|state_dict|from_dict|pytree|reduce", "C11"), (r"memmap|load_memmap|mmap", "C10")],
          "H": [(r"select_out_keys|select_subsequence|TensorDictModule|Sequential|probabilistic|in_keys|out_keys", "C14")],
          "I": [(r"NonTensor|non-tensor|tolist", "C16")],
          "J": [(r"vmap|batch dim", "C19")]}
RULES = [(r"_slice_indices|unravel_key", "C18")]
OVERRIDE = {}


def patch_id(c):
    d = subprocess.run(["git", "-C", "/repo", "show", c], capture_output=True, text=True).stdout
    return subprocess.run(["git", "patch-id", "--stable"], input=d, capture_output=True, text=True).stdout.split(" ")[0]


origin = {}
for X in GROUP:
    r = subprocess.run(["git", "-C", "/repo", "rev-list", f"4564555..b_{X}"], capture_output=True, text=True)
    for c in r.stdout.split():
        origin.setdefault(patch_id(c), X)
log = subprocess.run(["git", "-C", "/repo", "log", "--reverse", "--format=%h|%s", "4564555..main"], capture_output=True, text=True).stdout.splitlines()
kf = json.load(open("/verif/known_findings.json"))
hashes = {l.split("|", 1)[0] for l in log}
kf["findings"] = [e for e in kf["findings"] if not (e.get("status") == "fixed" and (e.get("commit") not in hashes or "-fixed-" in e["id"]))]  # rebased away / auto entries are regenerated
have = {e.get("commit") for e in kf["findings"] if e.get("status") == "fixed"}
unk = []
for line in log:
    h, subj = line.split("|", 1)
    if not subj.startswith("fix:") or h in have:
        continue
    prop = OVERRIDE.get(h)
    X = origin.get(patch_id(h))
    if prop is None and X is not None and not re.search(RULES[0][0], subj):
        prop = GROUP[X][0]
        for rx, p2 in SECOND.get(X, []):
            if re.search(rx, subj, re.I):
                prop = p2
                break
    if prop is None:
        for rx, p in RULES:
            if re.search(rx, subj):
                prop = p
                break
    if prop is None:
        unk.append(line); continue
    kf["findings"].append({"property": prop, "id": f"{prop}-fixed-{h}", "status": "fixed", "commit": h,
                           "description": f"fixed: property={prop} {h} {subj[4:].strip()}"})
    print("added", prop, h)
json.dump(kf, open("/verif/known_findings.json", "w"), indent=1)
for u in unk:
    print("UNMAPPED", u)
