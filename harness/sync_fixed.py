"""Keep known_findings.json's `fixed` entries in step with the fix: commits on /repo main.
Each fix commit gets `fixed: property=<id> <commit> <what failed>`; a fixed entry suppresses nothing."""
import json, subprocess, re
RULES = [  # (regex on the commit subject, property)
 (r"_slice_indices|unravel_key", "C18"),
 (r"__exit__ must swap|_set_tensor_dict|use_state_dict|custom __setattr__|TensorDictParams|to_module", "C13"),
 (r"context-manager inverses|`with td\.|with-block|_reverse_", "C17"),
 (r"split must|squeeze\(\) down|unflatten must|flatten must range|expand must|view/reshape|permute must|chunk on|repeat|gather|stack|cat\b", "C02"),
 (r"rename_key_ into|exclude\(\) with a nested|flatten_keys\(inplace|select\(\) with a key|membership test|values\(sort", "C04"),
 (r"lerp/addcdiv|prod\(dim=0|reductions|__rsub__|cummin|clamp_max|_items_list ignored|binary ops|in-place binary|in-place arithmetic|__and__", "C09"),
 (r"apply", "C20"),
 (r"rename_key_ moved|batch_size assignment|auto_batch_size|names", "C01"),
 (r"select_out_keys|select_subsequence", "C14"),
]
OVERRIDE = {}  # commit-hash -> property, for subjects the rules get wrong
log = subprocess.run(["git", "-C", "/repo", "log", "--reverse", "--format=%h|%s", "4564555..main"], capture_output=True, text=True).stdout.splitlines()
kf = json.load(open("/verif/known_findings.json"))
hashes = {l.split("|", 1)[0] for l in log}
kf["findings"] = [e for e in kf["findings"] if not (e.get("status") == "fixed" and e.get("commit") not in hashes)]  # rebased away
have = {e.get("commit") for e in kf["findings"] if e.get("status") == "fixed"}
unk = []
for line in log:
    h, subj = line.split("|", 1)
    if not subj.startswith("fix:") or h in have:
        continue
    prop = OVERRIDE.get(h)
    if prop is None:
        for rx, p in RULES:
            if re.search(rx, subj):
                prop = p
                break
    if prop is None:
        unk.append(line); continue
    kf["findings"].append({"property": prop, "id": f"{prop}-fixed-{h}", "status": "fixed", "commit": h,
                           "description": f"fixed: property={prop} {h} {subj[4:].strip()}"})
    print("added", prop, h)
json.dump(kf, open("/verif/known_findings.json", "w"), indent=1)
for u in unk:
    print("UNMAPPED", u)
