"""C15 — a tensorclass behaves as its underlying tensordict with typed fields (DESIGN §6 C15)."""
from __future__ import annotations

import dataclasses
import inspect
import os
import pickle
import shutil
import tempfile
import warnings

from common import BUILD, Infra, Run, err_class, main_guard, parse_sx, sx, time_limit

warnings.filterwarnings("ignore")


# --------------------------------------------------------------------------- 3. dispatch tie
def class_cfg(spec, universe):
    """what `_tensorclass` saw: fields / own (cls.__dict__ after dataclass(), minus defaulted fields) / inherited"""
    body = spec.body()
    body = dict(body)
    pre = type(spec.name + "_pre", (), body)
    dc = dataclasses.dataclass(pre, frozen=spec.frozen)
    fields = list(dc.__dataclass_fields__)
    own = set(dc.__dict__) - set(fields)          # `delattr(cls, field.name)` for defaulted fields
    base = spec.base_for_inherited
    inherited = {n for n in universe if n not in own and hasattr(base, n)}
    if base is not object:
        # fields declared by a parent tensorclass are fields of the child too
        fields = list(getattr(base, "__expected_keys__", [])) + [f for f in fields if f not in getattr(base, "__expected_keys__", [])]
    return fields, sorted(own), sorted(inherited)


def classify(K, name, fields):
    """structural classification of `K.<name>` on the real, decorated class (does not consult the lists)"""
    from tensordict import TensorDict
    if name in K.__dict__:
        v = K.__dict__[name]
        f = v.fget if isinstance(v, property) else v.__func__ if isinstance(v, (classmethod, staticmethod)) else v
        code = getattr(f, "__code__", None)
        qual = getattr(code, "co_qualname", "") if code is not None else ""
        fname = getattr(code, "co_filename", "") if code is not None else ""
        if qual.startswith("_wrap_td_method.<locals>."):
            cl = dict(zip(code.co_freevars, (c.cell_contents for c in (f.__closure__ or ()))))
            if "funcname" in cl and cl["funcname"] != name:
                return ["explicit", "wrong-funcname"]
            # wrapped_func closes over deliver_result (which closes over copy_non_tensor)
            nw = cl.get("no_wrap")
            cp = False
            dr = cl.get("deliver_result")
            if dr is not None and dr.__closure__:
                cp = dict(zip(dr.__code__.co_freevars, (c.cell_contents for c in dr.__closure__))).get("copy_non_tensor", False)
            return "nowrap" if nw else "copy" if cp else "wrap"
        if qual.startswith("_wrap_classmethod.<locals>."):
            return "classmethod"
        static_td = inspect.getattr_static(TensorDict, name, None)
        if static_td is not None and (v is static_td or v is getattr(TensorDict, name, None)):
            return "fromTD"
        if hasattr(v, "__func__") and getattr(TensorDict, name, None) is not None and getattr(getattr(TensorDict, name), "__func__", None) is getattr(v, "__func__", None):
            return "fromTD"   # `cls.load_memmap = TensorDictBase.load_memmap` (bound classmethod object)
        if fname.endswith("tensorclass.py") or (hasattr(v, "__self__") and name in ("from_tensordict",)):
            return ["explicit", "x"]
        if name == "fields":
            return ["explicit", "x"]
        return "user"
    if hasattr(K, name):
        return "inherited"
    if name.startswith("__") and name.endswith("__"):
        return "missing"
    if name in fields:
        return ["explicit", "field"]
    if hasattr(TensorDict, name):
        return "fallback"
    return "missing"


def norm_kind(k):
    if isinstance(k, list) and k and k[0] == "explicit":
        return ["explicit", "field"] if k[1] == "field" else ["explicit", "x"]
    return k


EXCLUDED_FROM_DISPATCH = {
    # python / abc / dataclass machinery and metadata attributes `_tensorclass` writes (not methods of the API)
    "__abstractmethods__", "__dict__", "__weakref__", "_abc_impl", "__dataclass_fields__", "__dataclass_params__",
    "__match_args__", "__module__", "__doc__", "__annotations__", "__slots__", "__orig_bases__", "__parameters__",
    "__firstlineno__", "__static_attributes__", "__class__", "__hash__",
}


def dispatch_tie(run, drv, meta):
    import c15_classes as Z
    import c15_gen
    excluded = EXCLUDED_FROM_DISPATCH | set(c15_gen.METADATA_ATTRS)
    universe = [n for n in meta["names"] if n not in excluded] + ["zz_not_a_method", "__zz__", "x", "s", "n", "o", "d", "z"]
    kinds = {}
    for spec in Z.SPECS:
        fields, own, inherited = class_cfg(spec, universe)
        base = spec.base_for_inherited
        icm = [n for n in universe if isinstance(inspect.getattr_static(base, n, None), classmethod)]
        is_nt = bool(getattr(spec.cls, "_is_non_tensor", False))
        ans = parse_sx(drv.ask(sx("c15.dispatch_all", fields, [n for n in own if n not in excluded], inherited, is_nt, icm, universe)))
        for n, (m, pm) in zip(universe, ans):
            real = classify(spec.cls, n, set(spec.cls.__expected_keys__))
            run.case(("dispatch", spec.name, n), nontrivial=True)
            run.count("dispatch.kind", m if isinstance(m, str) else m[0])
            run.corr(f"dispatch[{spec.name}]", [spec.name, n], norm_kind(real), norm_kind(m))
            if m == "nowrap" and real == "nowrap":
                real_pm = "prop" if isinstance(spec.cls.__dict__[n], property) else "method"
                run.corr("dispatch.property_or_method", [spec.name, n], real_pm, pm)
            kinds[(spec.name, n)] = m if isinstance(m, str) else m[0]
        if spec.name == "U1":
            run.sample({"stream": "dispatch", "class": "U1 (user methods named like list entries)",
                        "model": {n: kinds[("U1", n)] for n in Z.USER_NAMES}})
    return kinds


# --------------------------------------------------------------------------- 4. _from_tensordict tie
def from_td_tie(run, drv):
    import torch
    from tensordict import TensorDict

    import c15_classes as Z
    cls = Z.D1
    fields = sorted(cls.__expected_keys__)
    pool = fields + ["zz", "n.y"]
    n_cases = 400 if run.tier == "quick" else 3000
    reqs, cases = [], []
    for _ in range(n_cases):
        tdk = [k for k in pool if run.rng.random() < 0.35]
        ntk = [k for k in pool if run.rng.random() < 0.3]
        nt = [[k, None if run.rng.random() < 0.7 else "v"] for k in ntk]
        cases.append((tdk, nt))
        reqs.append(sx("c15.from_td", fields, tdk, nt))
    answers = drv.ask_many(reqs)
    for (tdk, nt), ans in zip(cases, answers):
        td = TensorDict({k: torch.zeros(2) for k in tdk}, batch_size=[2])
        ntd = {k: (None if v is None else "v") for k, v in nt}
        try:
            tc = cls._from_tensordict(td, dict(ntd))
            impl = ["ok", sorted([k, "none" if v is None else "v"] for k, v in tc._non_tensordict.items())]
        except Exception as e:  # noqa: BLE001
            impl = ["err", err_class(e)]
        run.case(("from_td", tuple(tdk), tuple(map(tuple, nt))), nontrivial=bool(tdk and nt))
        run.count("from_td.outcome", impl[0] if impl[0] == "ok" else impl[1])
        run.corr("from_tensordict", [tdk, nt], impl, parse_sx(ans))


# --------------------------------------------------------------------------- 5. behaviour: every API member
def reflect_api():
    """the tensordict API by reflection (NOT from the lists): public names + operator dunders"""
    import c15_gen
    from tensordict import TensorDict
    pub = [n for n in dir(TensorDict) if not n.startswith("_")]
    ops = c15_gen.reflect()["operatorApi"]
    return pub, ops


KNOWN_SITES = {}


T1_FOREIGN = {("set", "none-field"), ("set", "nested-key"), ("set", "nontensor")}


def behaviour(run, drv, kinds, meta):
    import torch  # noqa: F401
    from tensordict import TensorDictBase
    from tensordict.tensorclass import NonTensorData

    import c15_args as G
    import c15_behaviour as B
    import c15_classes as Z
    pub, ops = reflect_api()
    api = [(n, False) for n in pub] + [(n, True) for n in ops]
    clear_meta = set(meta["lists"]["_CLEAR_METADATA"])
    classmethods = set(meta["refl"]["tdClassmethods"])
    scratch = tempfile.mkdtemp(prefix="c15_", dir=str(BUILD))
    # T1 (tensor-only fields) is run on a curated name list only: the argument candidates are written for the x/n/s/o/d fields
    general = [c for c in Z.BEHAVIOUR_CLASSES if c != "T1"]
    full = ["D1", "S1"] if run.tier == "quick" else general
    sampled = [c for c in general if c not in full]
    plan = [(c, n, op, "dense") for c in full for n, op in api]
    for c in sampled:
        sub = run.rng.sample(api, 60)
        plan += [(c, n, op, "dense") for n, op in sub]
    # the members that need tensor-only fields of one shape to succeed on the tensordict side: always on T1
    # (+ members whose tensordict-side result is `None` when no leaf qualifies: grad / data / zero_grad / requires_grad_ / detach)
    t1_names = {"cat_from_tensordict", "stack_from_tensordict", "cat_tensors", "stack_tensors", "to_struct_array",
                "grad", "data", "zero_grad", "requires_grad_", "detach", "detach_", "clone", "to_dict", "to_tensordict", "values", "items",
                "sum", "mean", "exp", "__add__", "__neg__", "__or__", "__xor__", "__and__", "__invert__", "__eq__", "__ne__", "__ge__", "__lt__",
                # (the boolean operators only succeed on a class without str payloads: `'a' | 'b'` raises inside NonTensorData)
                "reshape", "view", "flatten", "unbind", "split", "chunk", "numel", "numpy"}
    if run.tier == "thorough" or os.environ.get("VERIF_C15_T1_FULL"):
        # every member except the constructors whose candidates name D1's fields (`s`, `n`): those keys are foreign to T1
        t1_names = {n for n, _ in api} - {"from_dataclass", "from_dict", "from_dict_instance", "from_namedtuple", "fromkeys"}
    plan += [("T1", n, op, "dense") for n, op in api if n in t1_names]
    if os.environ.get("VERIF_C15_T1_FULL"):      # exploration only
        plan += [("T1", n, op, "lazy") for n, op in api if n in t1_names]
    # lazily stacked receivers (a tensorclass around a LazyStackedTensorDict)
    lazy_names = api if run.tier == "thorough" else run.rng.sample(api, 110)
    for c in (["D1", "S1"] if run.tier == "thorough" else ["D1"]):
        plan += [(c, n, op, "lazy") for n, op in lazy_names]
    # the comparison operators always run on the lazily stacked receiver (their reflected forms differ only at tied values)
    comparisons = {"__eq__", "__ne__", "__ge__", "__gt__", "__le__", "__lt__"}
    planned = {(c, n, r) for c, n, _, r in plan}
    plan += [("D1", n, op, "lazy") for n, op in api if n in comparisons and ("D1", n, "lazy") not in planned]
    reqs, pend = [], []
    reqs2, pend2 = [], []
    coverage = {}
    try:
        for clsname, name, is_op, recv in plan:
            mk = (lambda c, fl: Z.make_lazy(c, flavour=fl)) if recv == "lazy" else (lambda c, fl: Z.make(c, flavour=fl))
            if os.environ.get("VERIF_C15_BATCH") is not None and recv == "dense":     # exploration only: other receiver batch shapes
                _b = tuple(int(t) for t in os.environ["VERIF_C15_BATCH"].split(",") if t)
                mk = lambda c, fl, _b=_b: Z.make(c, batch=_b, flavour=fl)  # noqa: E731
            if name in G.SKIP_BEHAVIOUR:
                run.count("behaviour.skipped", G.SKIP_BEHAVIOUR[name])
                continue
            cls = Z.BEHAVIOUR_CLASSES[clsname]
            fields = set(cls.__expected_keys__)
            kind = kinds.get((clsname if clsname in ("D1", "S1", "Fz", "FzS", "Nc", "Ac", "Sh", "D2") else "D1", name))
            if kind is None:
                base = {"AcS": "S1", "NcS": "S1"}.get(clsname, "D1")
                kind = kinds.get((base, name), "missing")
            styles = [False, True] if (name in classmethods and recv == "dense") else [False]
            for cand in G.candidates(name):
              if clsname == "T1" and (name, cand.label) in T1_FOREIGN:
                  run.count("behaviour.t1_candidate_names_foreign_field", name)   # writes `o` / `n` / `s`: undeclared on T1 (set_undeclared_rejects)
                  continue
              for on_class in styles:
                ctx = B.Ctx(cls, scratch, cand.flavour)
                try:
                    tcA, tcB = mk(cls, cand.flavour), mk(cls, cand.flavour)
                except Exception as e:  # noqa: BLE001
                    run.count("behaviour.receiver_failed", f"{recv}:{type(e).__name__}")
                    continue
                tdB = tcB._tensordict
                try:
                    if cand.prepare is not None:
                        cand.prepare(tcA, ctx, "tc")
                        cand.prepare(tdB, ctx, "td")
                    aA, kA = cand.build(ctx, "tc")
                    aB, kB = cand.build(ctx, "td")
                except Exception as e:  # noqa: BLE001
                    run.count("behaviour.argbuild_failed", f"{name}:{cand.label}:{type(e).__name__}")
                    run.notes.append(f"COVERAGE LOSS: argument candidate {name}:{cand.label} ({recv}) could not be built: {type(e).__name__}: {str(e)[:120]}")
                    continue
                st_td, r_td = B.invoke(tdB, name, aB, kB, is_op, on_class)
                nt_before = B.nt_desc(tcA)
                st_tc, r_tc = B.invoke(tcA, name, aA, kA, is_op, on_class)
                if st_tc == "ok" and not on_class and kind in ("wrap", "nowrap", "copy"):
                    # the wrapper's pruning: `_non_tensordict` afterwards = model dropStale(before, keys of `_tensordict` afterwards)
                    try:
                        keys_after = [k for k in tcA._tensordict.keys() if isinstance(k, str)]
                        reqs2.append(sx("c15.dropstale", [[k, ["leaf", "t"]] for k in keys_after], nt_before))
                        pend2.append(([clsname, name, cand.label + ("@lazy" if recv == "lazy" else "")], B.nt_sorted_desc(tcA)))
                    except Exception:  # noqa: BLE001
                        pass
                label = cand.label + ("@class" if on_class else "") + ("@lazy" if recv == "lazy" else "")
                case = [clsname, name, label]
                run.case(tuple(case), nontrivial=(st_td == "ok"))
                run.count("behaviour.td_outcome", st_td if st_td == "ok" else "raises:" + err_class(r_td))
                coverage.setdefault(name, False)
                if st_td == "ok":
                    coverage[name] = True
                # ---- correspondence with the wrapper model (instance calls)
                if st_td == "ok" and not on_class:
                    req = B.model_request(kind, name, clsname, fields, tcA, tdB, r_td, kB, clear_meta)
                    if req is not None:
                        reqs.append(req)
                        pend.append((case, kind, B.actual_outcome(st_tc, r_tc, tcA)))
                # ---- oracle
                site = f"api:{name}"
                if st_td == "exc":
                    run.count("oracle.td_raises", err_class(r_td))
                    if st_tc == "ok":
                        run.count("oracle.tc_accepts_more", name)
                    continue
                if st_tc == "exc":
                    run.oracle_fail(site, case, f"tensordict call returns {type(r_td).__name__}, tensorclass call raises {type(r_tc).__name__}: {str(r_tc)[:160]}",
                                    fingerprint=f"{name}:{label}:raises:{err_class(r_tc)}")
                    continue
                a, b = B.normalise(name, r_tc, r_td)
                why = B.same_result(name, a, b, tcA, tdB, fields, values=name not in B.UNINIT and name not in B.ADDRESSES)
                if why is None and name == "to_dict" and kA.get("retain_none") is False and isinstance(r_tc, dict):
                    # (the normalisation above drops the None placeholders the tensorclass adds: here they must not be there at all)
                    nones = sorted(k for k, v in r_tc.items() if v is None)
                    if nones:
                        why = f"to_dict(retain_none=False) still lists the None-valued fields {nones}"
                if why is None and name == "to_tensordict" and kA.get("retain_none") is False and isinstance(r_tc, TensorDictBase):
                    nones = sorted(k for k in r_tc.keys() if isinstance(r_tc.get(k), NonTensorData) and r_tc.get(k).data is None)
                    if nones:
                        why = f"to_tensordict(retain_none=False) still holds the None-valued fields {nones}"
                if why is None and name in ("update", "update_") and aA and not on_class:
                    # does the receiver share memory with the source afterwards?  (`clone=` decides; same answer on both sides)
                    def shares(dst, src):
                        try:
                            src = src._tensordict if B.is_tensorclass(src) else src
                            return dst.get("x").data_ptr() == (src["x"] if isinstance(src, dict) else src.get("x")).data_ptr()
                        except Exception:  # noqa: BLE001
                            return None
                    s_tc, s_td = shares(tcA._tensordict, aA[0]), shares(tdB, aB[0])
                    if s_tc != s_td:
                        why = f"afterwards the tensorclass {'shares' if s_tc else 'does not share'} the storage of x with the source, the tensordict {'does' if s_td else 'does not'}"
                if why is None and B.canon(tcA._tensordict) != B.canon(tdB):
                    why = "side effects on the receiver differ"
                if why is None:
                    bad = B.fields_readable(tcA)
                    if bad:
                        why = f"after the call fields {bad} of the receiver no longer read as the underlying entries"
                if why is None and isinstance(r_tc, (tuple, list)):
                    why = B.pieces_independent(r_tc, tcA)
                    run.count("oracle.tuple_pieces_checked", name)
                if why:
                    run.oracle_fail(site, case, why, fingerprint=f"{name}:{label}:{why[:60]}")
                else:
                    run.oracle_ok(site)
    finally:
        shutil.rmtree(scratch, ignore_errors=True)
    answers = drv.ask_many(reqs)
    for (case, kind, actual), ans in zip(pend, answers):
        run.count("behaviour.kind", kind)
        run.corr(f"wrapper[{kind}]", case, actual, parse_sx(ans))
    for (case, actual), ans in zip(pend2, drv.ask_many(reqs2)):
        run.corr("wrapper[placeholder pruning]", case, actual, parse_sx(ans))
    never = sorted(n for n, ok in coverage.items() if not ok)
    run.count("behaviour.methods_with_successful_td_call", "yes", sum(1 for v in coverage.values() if v))
    run.count("behaviour.methods_with_successful_td_call", "no", len(never))
    run.notes.append("methods for which no synthesised call succeeded on the tensordict side (behaviour compared on exceptions only): " + " ".join(never))


def debug_dump(run):
    if os.environ.get("VERIF_DEBUG"):
        import json
        (BUILD / "C15_debug.json").write_text(json.dumps({"oracle": run.oracle_fails, "corr": run.corr_broken}, indent=1, default=str))


from c15_guard import guarded  # noqa: E402


def main():
    run = Run("C15")
    run.rule = ("dispatch: every interned name x 10 class configurations (decorator/subclass/frozen/shadow/user-overrides/child class); "
                "behaviour: every public method and operator of TensorDict found by dir() x synthesised argument candidates x classes; "
                "a case is non-trivial when the call on the underlying tensordict succeeded (values are then compared)")
    run.trusted += [
        "harness/c15_gen.py translator (ast literals of the 7 lists + the installation statements of _tensorclass + reflection); "
        "validated each run: the model's dispatch computed from the generated program must equal a structural classification of every attribute of 10 real classes",
        "Model/C15Tensorclass.lean wrapCall/fromTensordict/setField: hand transcription of _wrap_td_method/_from_tensordict/_set, validated each run against the real wrappers on every API call made",
    ]
    run.assumptions += [
        "that each real method is wrapped as the table says is established differentially (dispatch tie), not by proof",
        "tensor values are computed by torch on both sides; equality of values is checked by the oracle, not modelled",
    ]
    import c15_gen
    import gen_tables
    meta = None
    try:
        text, meta = c15_gen.generate()
        gen_tables.write_if_changed("TcTables.lean", text)
    except c15_gen.Untranslatable as e:
        run.proof_broken.append(f"translator:tensorclass.py:{e}")
    run.build_and_audit(["TdVerif.Props.C15"])
    import c15_ast
    c15_ast.compile_twins(run, "C15")
    c15_ast.check(run, "C15")      # ast-shape obligations: the hand-transcribed functions still have the shape they were transcribed from
    if run.tier == "thorough" and not run.proof_broken:
        run.leanchecker(["TdVerif.Props.C15"])
    if meta is None:
        run.finish("proof")
    drv = run.driver()
    sizes = parse_sx(drv.ask("(c15.table_sizes)"))
    if sizes[0] != len(meta["names"]):
        raise Infra("driver binary is stale w.r.t. Gen/TcTables.lean")
    kinds = dispatch_tie(run, drv, meta)
    guarded(run, "from_td_tie", from_td_tie, run, drv)
    guarded(run, "behaviour", behaviour, run, drv, kinds, meta)
    import c15_streams as S
    guarded(run, "torch_functions", S.torch_functions, run, drv, ["D1", "S1"] if run.tier == "quick" else ["D1", "S1", "Fz", "Ac", "Nc", "Sh", "D2"])
    guarded(run, "torch_mixed", S.torch_mixed, run, ["D1", "S1"] if run.tier == "quick" else ["D1", "S1", "Fz", "Ac", "Nc", "Sh", "D2"])
    guarded(run, "property_setters", S.property_setters, run)
    guarded(run, "undeclared_writes", S.undeclared_writes, run)
    guarded(run, "typed_fields", S.typed_fields, run, drv)
    guarded(run, "items_stream", S.items_stream, run, drv)
    guarded(run, "zero_d_setitem", S.zero_d_setitem, run)
    guarded(run, "set_inplace_stream", S.set_inplace_stream, run, drv)
    guarded(run, "set_tuple_stream", S.set_tuple_stream, run, drv)
    guarded(run, "containers", S.containers, run)
    guarded(run, "update_stream", S.update_stream, run, drv)
    guarded(run, "tuple_pieces_stream", S.tuple_pieces_stream, run)
    guarded(run, "option_probes", S.option_probes, run, kinds)
    guarded(run, "options_stream", S.options_stream, run, drv)
    guarded(run, "pytree_stream", S.pytree_stream, run, drv)
    guarded(run, "history_stream", S.history_stream, run)
    debug_dump(run)
    run.finish("proof")


if __name__ == "__main__":
    main_guard(main)
