"""C04 — mapping semantics and nested-key canonicalisation match a nested-dict model (DESIGN §6 C04).

proofs        : lean/TdVerif/Props/C04.lean over lean/TdVerif/Model/C04Tree.lean (+ Model/Key.lean)
correspondence: histories of mapping ops; every step is sent (pre-state, op, probe spellings) to the compiled
                Lean model and compared with the real TensorDict: post-state (with order), outcome / returned
                value / out-of-place results, the 16 key/item views, membership + get of probe spellings, is_empty.
                Key spellings are unravelled by the *model* (Model/Key.lean = csrc/utils.cpp transcription).
oracle        : a plain Python nested dict replaying the same history (c04_ops.apply_oracle), also on lazy stacks,
                on tensordicts held in a tensorclass, and on keys that run through a NonTensorData (extended domain).
"""
from __future__ import annotations

import json
import warnings

from common import Infra, Run, err_class, main_guard, parse_sx, time_limit

import c04_ops as O

warnings.filterwarnings("ignore")


# --------------------------------------------------------------------------- canonical forms
def impl_out(out, res):
    if out[0] == "err":
        return ["err", out[1]]
    if res is not None:
        rs = res if isinstance(res, list) else [res]
        return ["res"] + [O.skel_of(x) for x in rs]
    if len(out) > 1:
        return ["ok", out[1]]
    return ["ok"]


def model_out(v):
    if v[0] == "err":
        return ["err", v[1]]
    if v[0] == "res":
        return ["res"] + [O.skel_from_sx(x) for x in v[1:]]
    if len(v) > 1:
        return ["ok", "none" if v[1] == "none" else O.skel_from_sx(v[1])]
    return ["ok"]


def model_obs(v):
    views, probes, emp = v
    out = {"views": {}, "probe": [], "is_empty": emp == "true"}
    for tag, ks, its in views:
        tag = str(tag).zfill(4)
        out["views"][tag] = {"keys": [[O.unhex(a) for a in k] for k in ks],
                             "items": [[[O.unhex(a) for a in kv[0]], O.skel_from_sx(kv[1])] for kv in its]}
    for c, cn, g in probes:
        def b(x):
            return True if x == "true" else False if x == "false" else x
        out["probe"].append([b(c), b(cn), g if isinstance(g, str) else O.skel_from_sx(g)])
    return out


def impl_obs_canon(obs):
    out = {"views": {}, "probe": [], "is_empty": obs["is_empty"]}
    for tag, v in obs["views"].items():
        if "err" in v:
            out["views"][tag] = v
        else:
            out["views"][tag] = {"keys": v["keys"], "items": v["items"]}
    for p, m, mk, g in obs["probe"]:
        out["probe"].append([m, mk, g])
    return out


# --------------------------------------------------------------------------- oracle on one step
def expected_views(d):
    """key sets per flag combination, from the plain dict"""
    allp = O.o_paths(d)
    exp = {}
    for inc, lo, srt, nt in O.FLAGS:
        tag = f"{int(inc)}{int(lo)}{int(srt)}{int(nt)}"
        ks = []
        for p, v in allp:
            if not inc and len(p) > 1:
                continue
            if lo and (isinstance(v, dict) or (v[0] == "n" and not nt)):
                continue
            ks.append((p, v))
        exp[tag] = ks
    return exp


def check_views(run, case, d, obs):
    """keys/items/values/len of every flag combination agree with the dict"""
    exp = expected_views(d)
    for tag, e in exp.items():
        v = obs["views"][tag]
        if "err" in v:
            run.oracle_fail("views", case, f"keys/items view {tag} raised {v['err']}", f"view-raised:{tag}")
            return False
        want = sorted(list(p) for p, _ in e)
        got = [list(k) for k in v["keys"]]
        if sorted(got) != want:
            run.oracle_fail("views", case, f"keys{tag}={got} dict has {want}", f"keys-set:{tag}")
            return False
        if tag[2] == "1":
            j = [".".join(k) for k in got]
            if j != sorted(j):
                run.oracle_fail("views", case, f"keys{tag} not sorted: {got}", f"keys-sort:{tag}")
                return False
        ik = [list(k) for k, _ in v["items"]]
        if sorted(ik) != want:
            run.oracle_fail("views", case, f"items{tag} keys={ik} dict has {want}", f"items-set:{tag}")
            return False
        for k, val in v["items"]:
            ev = O.o_get(d, tuple(k))
            if ev is O.MISSING or O.unordered(O.o_skel(ev)) != O.unordered(val):
                run.oracle_fail("views", case, f"items{tag}[{k}]={val} dict has {None if ev is O.MISSING else O.o_skel(ev)}", f"items-val:{tag}")
                return False
        if v["values"] != [val for _, val in v["items"]]:
            run.oracle_fail("views", case, f"values{tag} != values of items{tag}", f"values:{tag}")
            return False
        if v["len"] != len(want):
            run.oracle_fail("views", case, f"len(keys{tag})={v['len']} expected {len(want)}", f"len:{tag}")
            return False
    return True


def check_reads(run, case, d, obs):
    for (p, m, mk, g) in obs["probe"]:
        p = tuple(p)
        ev = O.o_get(d, p)
        thru = O.o_through_leaf(d, p)
        for name, val in (("in-td", m), ("in-keys", mk)):
            if isinstance(val, str):      # raised
                if not thru:
                    run.oracle_fail("membership", case, f"{name} of {p} raised {val}", f"member-raised:{name}")
                    return False
            elif val != (ev is not O.MISSING):
                run.oracle_fail("membership", case, f"{name} of {p} is {val}, dict says {ev is not O.MISSING}", f"member:{name}")
                return False
        if isinstance(g, str) and g.startswith("err"):
            if not thru:
                run.oracle_fail("get", case, f"get({p}, None) raised {g}", "get-raised")
                return False
        else:
            want = "none" if ev is O.MISSING else O.unordered(O.o_skel(ev))
            got = "none" if g == "none" else O.unordered(g)
            if want != got:
                run.oracle_fail("get", case, f"get({p}, None)={g}, dict has {want}", "get-value")
                return False
    leaves = O.o_leaves(d)
    if obs["is_empty"] != (not leaves):
        run.oracle_fail("is_empty", case, f"is_empty()={obs['is_empty']} with {len(leaves)} leaves", "is_empty")
        return False
    if obs["to_dict"] != "skip" and (isinstance(obs["to_dict"], str) or O.unordered(obs["to_dict"]) != O.unordered(O.o_skel(d))):
        run.oracle_fail("to_dict", case, f"to_dict()={obs['to_dict']} dict={O.o_skel(d)}", "to_dict")
        return False
    return True


def check_step(run, site, case, pre, op, R, out, post, res):
    """the op itself against the replay on the plain dict. returns True when consistent"""
    kind = op[0]
    fp = kind + (":inplace" if (kind in ("select", "flatten", "unflatten") and op[-1] is True) or (kind == "exclude" and op[2]) or (kind == "split" and op[2]) else "")
    exp_state = O.o_skel(R["state"])

    def norm(s):
        return O.unordered(O.strip_empty(s) if R["modempty"] else s)
    if R["verdict"] == "ok":
        if out[0] != "ok":
            run.oracle_fail(site, case, f"{kind} raised {out[1]} but is well defined on the dict (expected {exp_state})", f"raised:{fp}")
            return False
        if norm(post) != norm(exp_state):
            run.oracle_fail(site, case, f"after {kind}: state {post}, dict {exp_state}", f"state:{fp}")
            return False
        if R["ret"] is not None and len(out) > 1:
            a = out[1] if out[1] == "none" else O.unordered(out[1])
            b = R["ret"] if R["ret"] == "none" else O.unordered(R["ret"])
            if a != b:
                run.oracle_fail(site, case, f"{kind} returned {out[1]}, dict returns {R['ret']}", f"ret:{fp}")
                return False
        if R["result"] is not None and res is not None:
            rs = [O.skel_of(x) for x in res] if isinstance(res, list) else [O.skel_of(res)]
            es = [O.o_skel(x) for x in R["result"]] if isinstance(R["result"], list) else [O.o_skel(R["result"])]
            if [norm(x) for x in rs] != [norm(x) for x in es]:
                run.oracle_fail(site, case, f"{kind} result {rs}, dict {es}", f"result:{fp}")
                return False
    elif R["verdict"] == "err":
        if out[0] == "ok":
            run.oracle_fail(site, case, f"{kind} accepted, the dict replay raises (state now {post})", f"accepted:{fp}")
            return False
        if R["atomic"] and O.unordered(post) != O.unordered(pre):
            run.oracle_fail(site, case, f"{kind} raised {out[1]} and changed the state to {post}", f"raised-changed:{fp}")
            return False
    else:  # "any": ill-formed key in a bulk op; either behaviour is fine, data must not vanish on a raise
        if out[0] == "ok":
            if O.unordered(O.strip_empty(post)) != O.unordered(O.strip_empty(exp_state)):
                run.oracle_fail(site, case, f"after {kind}: state {post}, dict {exp_state}", f"state:{fp}")
                return False
        elif O.leaf_multiset(post) != O.leaf_multiset(pre):
            run.oracle_fail(site, case, f"{kind} raised {out[1]} after dropping entries: {post}", f"raised-changed:{fp}")
            return False
    run.oracle_ok(site)
    return True


def nt_hazard(d, op):
    """the op hands the library a key that runs through a NonTensorData leaf at some point of its execution"""
    kind = op[0]
    if kind == "update":
        cur = O.o_copy(d)
        for sp, v in op[1]:
            p = O.unravel(sp)
            if O.o_through_nt(cur, p):
                return True
            try:
                sub = O.apply_oracle(cur, ["update", [[sp, v]]])
                cur = sub["state"]
            except Exception:  # noqa
                return False
        return False
    if kind == "unflatten":
        if op[1] == "":
            return False        # refused at the first key (ValueError), nothing is reached
        cur = O.o_copy(d)
        for k in list(cur.keys()):
            if op[1] in k:
                p = tuple(k.split(op[1]))
                if O.o_through_nt(cur, p):
                    return True
                if O.o_get(cur, p) is not O.MISSING or O.o_through_leaf(cur, p):
                    return False
                v = cur.pop(k)
                O.o_set(cur, p, v)
        return False
    return any(O.o_through_nt(d, O.unravel(k)) for k in O.op_keys(op))


def ask_batched(drv, reqs, limit=30000):
    """Driver.ask_many writes a whole chunk before reading: keep each chunk below the pipe capacity"""
    out, cur, size = [], [], 0
    for r in reqs:
        if cur and size + len(r) + 1 > limit:
            out += drv.ask_many(cur)
            cur, size = [], 0
        cur.append(r)
        size += len(r) + 1
    if cur:
        out += drv.ask_many(cur)
    return out


def loose_unravel(k):
    """what `unravel_key` keeps of a malformed key: the str members, flattened"""
    if isinstance(k, str):
        return (k,)
    if isinstance(k, (tuple, list)):
        out = ()
        for x in k:
            out += loose_unravel(x)
        return out
    return ()


def bad_key_nt_hazard(d, op):
    keys = []
    if op[0] in ("set", "del", "pop", "setdefault"):
        keys = [op[1]]
    elif op[0] == "rename":
        keys = [op[1], op[2]]
    elif op[0] == "update":
        keys = [k for k, _ in op[1]]
    elif op[0] in ("select", "exclude"):
        keys = list(op[1])
    for k in keys:
        p = loose_unravel(k)
        if p and (O.o_through_nt(d, p) or (O.o_get(d, p) is not O.MISSING and not isinstance(O.o_get(d, p), dict) and O.o_get(d, p)[0] == "n" and False)):
            return True
    return False


# --------------------------------------------------------------------------- one history
def gen_probes(rng, d):
    ps = list(O.CORE)
    ps += [rng.choice(O.UNIVERSE) for _ in range(2)]
    sp = [p for p, _ in O.o_paths(d)]
    if sp:
        ps += [rng.choice(sp) for _ in range(2)]
    return [(p, O.gen_spelling(rng, p, plain=0.4)) for p in ps]


def run_history(run, rng, hid, maxlen, steps_out):
    ids = O.Ids()
    init = O.gen_val(rng, ids, depth=0) if rng.random() < 0.7 else ["d", []]
    if init[0] != "d":
        init = ["d", [["a", init]]]
    td = O.build_impl(init)
    d = O.o_build(init)
    n = rng.randint(1, maxlen)
    hist = []
    for stepno in range(n):
        malformed = rng.random() < 0.03
        op = (O.gen_bad_op if malformed else O.gen_op)(rng, ids, [p for p, _ in O.o_paths(d)])
        pre = O.skel_of(td)
        if malformed and bad_key_nt_hazard(d, op):
            continue      # unravel_key drops the invalid members: what is left may run through a NonTensorData (outside the model)
        if not malformed and nt_hazard(d, op):
            # extended domain: executed on a copy, judged by the oracle only
            run.count("ops.extended", "nt-through:" + op[0])
            td2 = O.build_impl(pre)
            R = O.apply_oracle(d, op)
            out, res = O.apply_impl(td2, op)
            post2 = O.skel_of(td2)
            case = {"pre": pre, "op": op, "note": "key runs through a NonTensorData"}
            ok = check_step(run, "nt-through", case, pre, op, R, out, post2, res)
            if ok and out[0] == "ok":
                # even when the visible state is unchanged the entry may have been stored inside the NonTensorData
                for k in O.op_keys(op):
                    p = O.unravel(k)
                    if O.o_through_nt(d, p):
                        try:
                            g = td2.get(p, None)
                        except Exception:  # noqa
                            g = None
                        if g is not None and O.o_get(R["state"], p) is O.MISSING:
                            run.oracle_fail("nt-through", case, f"{op[0]} stored an entry inside the NonTensorData at {p}: get returns {O.skel_of(g)}", "nt-through:hidden:" + op[0])
                            break
            continue
        hist.append(op)
        R = None if malformed else O.apply_oracle(d, op)
        case = {"history": hid, "step": stepno, "pre": pre, "op": op}
        try:
            out, res = O.apply_impl(td, op)
            post = O.skel_of(td)
            probes = gen_probes(rng, O.o_build(post))
            obs = O.observe_impl(td, probes)
            iout = impl_out(out, res)
        except TimeoutError:
            raise
        except Exception as e:  # noqa
            # e.g. an entry stored inside itself (RecursionError): the mapping can no longer be walked through its public API
            run.oracle_fail("history", case, f"after {op[0]} the tensordict cannot be traversed: {type(e).__name__}: {str(e)[:120]}", "unobservable:" + op[0])
            return hist
        run.case(json.dumps([pre, op]), nontrivial=True)
        run.count("ops", op[0])
        run.count("outcome", iout[0] + (":" + iout[1] if iout[0] == "err" else ""))
        run.count("verdict", "malformed-key" if malformed else R["verdict"])
        steps_out.append({"case": case, "pre": pre, "op": op, "probes": probes, "impl": [post, iout, impl_obs_canon(obs)]})
        good = True if malformed else check_step(run, "history", case, pre, op, R, out, post, res)
        # observations are judged against the dict that corresponds to the implementation's state
        dd = O.o_build(post)
        if good:
            check_views(run, case, dd, obs) and check_reads(run, case, dd, obs)
        # continue from the implementation's state; sometimes from an out-of-place result
        if out[0] == "ok" and res is not None and rng.random() < 0.5:
            cand = res if isinstance(res, list) else [res]
            td = rng.choice(cand)
        d = O.o_build(O.skel_of(td))
        if rng.random() < 0.15:
            check_roundtrip(run, hid, stepno, td, d)
        if rng.random() < 0.12:
            check_split_partition(run, rng, hid, stepno, td, d)
    return hist


def check_split_partition(run, rng, hid, stepno, td, d):
    """split_keys(*key_sets) out of place PARTITIONS the leaves: every tensor / non-tensor of the original is found, with its value, in exactly
    one of the returned tensordicts (the last one is the remainder) and nothing else is. Keys are drawn from the bound paths, prefix-related
    keys INCLUDED (the out-of-place call visits the keys in the order given). Props/C04.lean: split_partition_partial (unrelated keys) and
    the counter-witness split_related_keys_lose_leaf (known finding C04-split-related-keys-lose-leaf)."""
    paths = [p for p, _ in O.o_paths(d)]
    if not paths or not O.o_leaves(d) or any(v[0] == "n" for _, v in O.o_paths(d) if not isinstance(v, dict)):
        return              # (keys through a NonTensorData: the other known finding)
    nsets = rng.randint(1, 2)
    sets = [[rng.choice(paths) for _ in range(rng.randint(1, 2))] for _ in range(nsets)]
    allk = [k for ks in sets for k in ks]
    if len(set(allk)) != len(allk):
        return
    strict = rng.random() < 0.5
    case = {"history": hid, "step": stepno, "pre": O.o_skel(d), "op": ["split-partition", [[list(k) for k in ks] for ks in sets], strict]}
    split_partition_case(run, td, d, sets, strict, case)


def split_partition_case(run, td, d, sets, strict, case):
    leaves = O.o_leaves(d)
    allk = [tuple(k) for ks in sets for k in ks]
    related = any(a != b and a == b[:len(a)] for a in allk for b in allk)
    run.count("ops", "split-partition:" + ("related" if related else "unrelated"))
    try:
        with time_limit(20):
            outs = td.split_keys(*[[tuple(k) if len(k) > 1 else k[0] for k in ks] for ks in sets], inplace=False, strict=strict)
            got = [O.o_leaves(O.o_build(O.skel_of(o))) for o in outs]
    except TimeoutError:
        raise
    except Exception:  # noqa  (a missing key with strict, a key below one that was already moved: refused calls are judged by the history stream)
        run.oracle_ok("split-partition")
        return
    tag = "related" if related else "unrelated"
    flat = [pv for g in got for pv in g]
    lost = [pv for pv in leaves if pv not in flat]
    extra = [pv for pv in flat if pv not in leaves]
    dup = len(flat) != len(set((p, repr(v)) for p, v in flat))
    if lost:
        run.oracle_fail("split-partition", case, f"split_keys lost {lost[:3]}: found in none of the {len(outs)} results {got}", f"split:leaf-lost:{tag}")
    elif extra or dup:
        run.oracle_fail("split-partition", case, f"split_keys results {got} hold {'a leaf twice' if dup else extra[:3]} (original leaves {leaves[:6]})", f"split:leaf-extra:{tag}")
    else:
        run.oracle_ok("split-partition")


def check_roundtrip(run, hid, stepno, td, d):
    """Props/C04.lean:flatten_unflatten_roundtrip on the implementation: when no key on the way to a leaf contains the
    separator, flatten_keys(sep).unflatten_keys(sep) binds exactly the leaves of the original (and no empty dict)"""
    leaves = O.o_leaves(d)
    if any("." in k for p, _ in leaves for k in p):
        return
    case = {"history": hid, "step": stepno, "pre": O.o_skel(d), "op": ["roundtrip", "."]}
    run.count("ops", "roundtrip")
    try:
        with time_limit(20):
            back = td.flatten_keys(".").unflatten_keys(".")
            bd = O.o_build(O.skel_of(back))
            same = O.o_build(O.skel_of(td))
    except TimeoutError:
        raise
    except Exception as e:  # noqa
        run.oracle_fail("roundtrip", case, f"flatten_keys('.').unflatten_keys('.') raised {type(e).__name__}: {str(e)[:120]}", "roundtrip:raised")
        return
    key = lambda pv: (pv[0], repr(pv[1]))
    if sorted(O.o_leaves(bd), key=key) != sorted(leaves, key=key):
        run.oracle_fail("roundtrip", case, f"leaves after the roundtrip {O.o_leaves(bd)[:6]} differ from the original {leaves[:6]}", "roundtrip:leaves")
    elif any(isinstance(v, dict) and not O.o_leaves(v) for _, v in O.o_paths(bd)):
        run.oracle_fail("roundtrip", case, "the roundtrip left an empty nested tensordict behind", "roundtrip:empty-node")
    elif same != d:
        run.oracle_fail("roundtrip", case, "the out-of-place roundtrip modified its source", "roundtrip:source-modified")
    else:
        run.oracle_ok("roundtrip")


def replay_file(run, path, quiet=False):
    """re-execute the (pre-state, op) pairs of a replay / corpus file on the implementation against the dict oracle"""
    data = json.loads(open(path).read())
    cases = [f["case"] for f in data.get("failures", [])]
    for v in data.get("broken_correspondence", {}).values():
        cases += [c["case"] for c in v]
    for case in cases:
        if not isinstance(case, dict) or "pre" not in case or "op" not in case:
            continue
        pre, op = case["pre"], case["op"]

        def tup(x):
            return tuple(tup(i) for i in x) if isinstance(x, list) else x
        # keys travel as JSON lists: restore the tuples
        if op[0] in ("set", "del", "pop", "setdefault"):
            op[1] = tup(op[1])
        elif op[0] == "rename":
            op[1], op[2] = tup(op[1]), tup(op[2])
        elif op[0] == "update":
            op[1] = [[tup(k), v] for k, v in op[1]]
        elif op[0] in ("select", "exclude"):
            op[1] = [tup(k) for k in op[1]]
        elif op[0] == "split":
            op[1] = [[tup(k) for k in ks] for ks in op[1]]
        td = O.build_impl(pre)
        d = O.o_build(pre)
        if op[0] == "split-partition":
            split_partition_case(run, td, d, [[tup(k) for k in ks] for ks in op[1]], op[2], case)
            run.count("corpus", case.get("id", op[0]))
            continue
        if op[0] == "roundtrip":
            check_roundtrip(run, case.get("history"), case.get("step"), td, d)
            run.count("corpus", case.get("id", op[0]))
            continue
        R = O.apply_oracle(d, op)
        out, res = O.apply_impl(td, op)
        post = O.skel_of(td)
        site = "nt-through" if nt_hazard(d, op) else "history"
        run.case(json.dumps([pre, op]))
        if check_step(run, site, case, pre, op, R, out, post, res):
            obs = O.observe_impl(td, gen_probes(run.rng, O.o_build(post)))
            dd = O.o_build(post)
            check_views(run, case, dd, obs) and check_reads(run, case, dd, obs)
        run.count("corpus", case.get("id", op[0]))
        if not quiet:
            print(f"replayed {op[0]}: impl outcome {out}, dict verdict {R['verdict']}")


def main():
    run = Run("C04")
    run.rule = ("histories of 1..40 mapping ops (set/del/pop/rename_key_/setdefault/update/select/exclude/split_keys/flatten_keys/"
                "unflatten_keys/clear/empty, in-place and out-of-place) over the key universe {a,b,(a,b),(a,b,c),'a.b',(a,'b.c'),...} under random "
                "nested-tuple spellings, values = tensors / NonTensorData / empty and non-empty nested tensordicts; a case is one (pre-state, op) pair")
    run.trusted += [
        "Model/C04Tree.lean + Model/Key.lean: hand transcriptions of tensordict/_td.py, base.py, utils.py, csrc/utils.cpp (each function cites its source); "
        "tied to the code by the per-step correspondence of this check",
        "harness/c04_ops.py: generators, the plain-dict oracle, canonicalisers",
    ]
    run.assumptions += [
        "entries are tensors, NonTensorData and TensorDict nodes with batch_size []; values are always valid (shape/device validation is C01)",
        "keys that run through a NonTensorData are outside the model (known finding C04-nontensor-transparent); they are judged by the oracle only",
        "split_keys in the correspondence histories is issued with key sets whose keys are pairwise prefix-unrelated (inplace pops them in hash order); the oracle site "
        "split-partition issues it out of place with prefix-related keys as well: there it loses tensors (known finding C04-split-related-keys-lose-leaf; "
        "theorems split_partition_partial / split_related_keys_lose_leaf)",
        "locking, memmap/shared state and persistent containers are outside the model; lazy stacks (homogeneous keys) and tensorclass-held tensordicts are "
        "compared exactly, member by member, with the same model (streams lazy-stack.* / tensorclass.*)",
    ]
    run.build_and_audit(["TdVerif.Props.C04"])
    import c04_pins
    from common import REPO as _REPO
    c04_pins.check(run, _REPO, "C04")
    drv = run.driver()
    rng = run.rng
    if run.replay:
        replay_file(run, run.replay)
        run.finish("proof")

    # ---- 0. corpus: witnesses of the repaired defects and of the known findings, replayed first
    from common import VERIF
    for f in sorted((VERIF / "corpus" / "C04").glob("*.json")):
        replay_file(run, str(f), quiet=True)

    # ---- 1. key canonicalisation: spellings of universe paths, model (C++ transcription) vs the library
    import cxx_build
    from tensordict import _C as builtC
    _C = cxx_build.build_and_load()       # csrc/*.cpp of the working tree, recompiled when it changed (cached by hash)
    sp_cases = []
    for p in O.UNIVERSE:
        for _ in range(12 if run.tier == "quick" else 60):
            sp_cases.append((p, O.gen_spelling(rng, p, plain=0.2)))
    ans = ask_batched(drv, [f"(c04.unravel {O.sx_key(sp)})" for _, sp in sp_cases])
    for (p, sp), a in zip(sp_cases, ans):
        v = parse_sx(a)
        mt = tuple(O.unhex(x) for x in v[0])
        mk = v[1]
        mk = "err" if mk == "err" else (O.unhex(mk[1]) if mk[0] == "s" else tuple(O.unhex(x) for x in mk[1:]))
        it = tuple(_C._unravel_key_to_tuple(sp))
        ik = _C.unravel_key(sp)
        if tuple(builtC._unravel_key_to_tuple(sp)) != it or builtC.unravel_key(sp) != ik:
            raise Infra("tensordict/_C*.so is stale w.r.t. tensordict/csrc (rebuild the extension)")
        run.case(("spell", repr(sp)), nontrivial=not isinstance(sp, str))
        run.corr("unravel_tuple", repr(sp), list(it), list(mt))
        run.corr("unravel_key", repr(sp), ik if isinstance(ik, str) else list(ik), mk if isinstance(mk, str) else list(mk))
        if it != tuple(p) or (ik if isinstance(ik, tuple) else (ik,)) != tuple(p):
            run.oracle_fail("spelling", repr(sp), f"spelling of {p} unravels to {it} / {ik}", "spelling")
        else:
            run.oracle_ok("spelling")

    # ---- 2. histories
    nh, maxlen = (400, 40) if run.tier == "quick" else (4000, 40)
    steps = []
    with time_limit(300 if run.tier == "quick" else 2400):
        for hid in range(nh):
            run_history(run, rng, hid, maxlen, steps)
    reqs = []
    for s in steps:
        reqs.append(f"(c04.step {O.sx_skel(s['pre'])} {O.sx_op(s['op'])} ({' '.join(O.sx_key(sp) for _, sp in s['probes'])}))")
    answers = ask_batched(drv, reqs)
    for s, a in zip(steps, answers):
        if a == "(bad-op)":
            raise Infra("driver rejected " + reqs[steps.index(s)][:300])
        v = parse_sx(a)
        model = [O.skel_from_sx(v[0]), model_out(v[1]), model_obs(v[2])]
        impl = s["impl"]
        run.corr("step.state", s["case"], impl[0], model[0])
        run.corr("step.outcome", s["case"], impl[1], model[1])
        run.corr("step.views", s["case"], impl[2]["views"], model[2]["views"])
        run.corr("step.reads", s["case"], [impl[2]["probe"], impl[2]["is_empty"]], [model[2]["probe"], model[2]["is_empty"]])
    for s in steps[:3]:
        run.sample({"pre": s["pre"], "op": s["op"], "impl_post": s["impl"][0], "impl_out": s["impl"][1]})

    # ---- 3. extended domain: lazy stacks and tensorclass-held tensordicts against the oracle
    import c04_extended
    c04_extended.run_extended(run, rng, drv)
    run.finish("proof")


if __name__ == "__main__":
    main_guard(main)
