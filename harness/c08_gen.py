"""C08 helpers: structured inputs (member stacks, index grammar), the implementation runner,
canonicalisers and the dense-stack oracle.  Every random choice comes from the rng passed in."""
from __future__ import annotations

import itertools

import torch
from tensordict import LazyStackedTensorDict, TensorDict, lazy_stack

from common import Raw, sx

def ask_all(drv, reqs, chunk=40):
    """the answers of this property are long (materialised leaves): keep every write to the driver
    below the pipe buffer so that writer and reader can never block on each other"""
    out = []
    for i in range(0, len(reqs), chunk):
        out += drv.ask_many(reqs[i:i + chunk])
    return out


# ----------------------------------------------------------------------------- stacks
FEATS_PLAIN = [("a", ()), ("b", (2,))]
FEATS_NESTED = [("a", ()), ("n.c", (2,)), ("n.d", ())]


def member_base(nkeys, i, j):
    return (i * nkeys + j) * 10000


def numel(shape):
    n = 1
    for s in shape:
        n *= s
    return n


def mk_member(bs, feats, i, nested_extra=0):
    """member i: provenance leaves base+arange(numel) of shape bs+feat; dotted keys are nested
    tensordicts (batch = bs + first `nested_extra` feature dims of the nested leaves)."""
    flat = {}
    for j, (k, f) in enumerate(feats):
        shp = tuple(bs) + tuple(f)
        flat[k] = (torch.arange(numel(shp), dtype=torch.int64) + member_base(len(feats), i, j)).reshape(shp)
    root = {}
    nested = {}
    for k, v in flat.items():
        if "." in k:
            a, b = k.split(".", 1)
            nested.setdefault(a, {})[b] = v
        else:
            root[k] = v
    for a, d in nested.items():
        root[a] = TensorDict(d, batch_size=list(bs))
    return TensorDict(root, batch_size=list(bs))


def mk_lazy(bs, n, sd, feats, via="ctor"):
    ms = [mk_member(bs, feats, i) for i in range(n)]
    if via == "ctor":
        L = LazyStackedTensorDict(*ms, stack_dim=sd)
    else:
        L = lazy_stack(ms, sd)
    return L, ms


def get_leaf(td, k):
    return td.get(tuple(k.split(".")))


def td_canon(td, feats):
    """['bs', ...], ['leaves', [k, ['shape', ...], ['vals', ...]], ...] in the model's key order"""
    leaves = []
    for k, _ in feats:
        v = get_leaf(td, k)
        leaves.append([k, ["shape"] + list(v.shape), ["vals"] + v.reshape(-1).tolist()])
    return [["bs"] + list(td.batch_size), ["leaves"] + leaves]


def keyset(td):
    return sorted(".".join(k) if isinstance(k, tuple) else k for k in td.keys(True, True))


# ----------------------------------------------------------------------------- index grammar
def ix_sx(item):
    t = item[0]
    if t == "int":
        return Raw(f"(int {item[1]})")
    if t == "slice":
        return Raw(sx("slice", item[1], item[2], item[3]))
    if t == "none":
        return Raw("none")
    if t == "ell":
        return Raw("ell")
    if t == "tens":
        _, _kind, shape, vals = item
        return Raw("(tens " + sx("shape", *shape) + " " + sx("vals", *vals) + ")")
    if t == "mask":
        _, shape, vals = item
        return Raw("(mask " + sx("shape", *shape) + " " + sx("vals", *[int(v) for v in vals]) + ")")
    raise ValueError(item)


def ixs_sx(ix):
    return Raw("(ix" + "".join(" " + ix_sx(i).s for i in ix) + ")")


def ix_py(item):
    t = item[0]
    if t == "int":
        return item[1]
    if t == "slice":
        return slice(item[1], item[2], item[3])
    if t == "none":
        return None
    if t == "ell":
        return Ellipsis
    if t == "tens":
        _, kind, shape, vals = item
        if kind == "list":
            return list(vals)
        if kind == "range":
            return range(vals[0], vals[-1] + 1) if vals else range(0)
        return torch.tensor(vals, dtype=torch.int64).reshape(shape)
    if t == "mask":
        _, shape, vals = item
        return torch.tensor([bool(v) for v in vals]).reshape(shape)
    raise ValueError(item)


def index_py(ix, allow_bare=True):
    t = tuple(ix_py(i) for i in ix)
    return t


SLICES = [(None, None, None), (None, None, None), (0, None, None), (1, None, None), (None, 1, None), (None, -1, None),
          (-2, None, None), (0, 2, None), (None, None, 2), (1, None, 2), (1, 1, None), (5, None, None), (None, 7, None)]


def gen_item_for_dim(rng, d, allow_neg_step=False):
    r = rng.random()
    if r < 0.33 and d > 0:
        i = rng.randrange(d)
        if rng.random() < 0.3:
            i -= d
        return ("int", i)
    s = rng.choice(SLICES)
    if allow_neg_step and rng.random() < 0.1:
        s = (None, None, -1)
    return ("slice",) + s


def gen_adv(rng, dims):
    """one advanced item addressed to the leading dim(s) `dims` (list of sizes it may span)"""
    d = dims[0]
    r = rng.random()
    if r < 0.6 and d > 0:
        kind = rng.choice(["list", "range", "tensor", "tensor"])
        if kind == "range":
            a = rng.randrange(d)
            b = rng.randrange(a, d)
            vals = list(range(a, b + 1))
            return ("tens", "range", (len(vals),), vals), 1
        rank = 1 if kind == "list" else rng.choice([1, 2])
        shape = tuple(rng.randint(1, 3) for _ in range(rank))
        vals = []
        for _ in range(numel(shape)):
            v = rng.randrange(d)
            if rng.random() < 0.2:
                v -= d
            vals.append(v)
        return ("tens", kind, shape, vals), 1
    k = 1 if (len(dims) < 2 or rng.random() < 0.6) else 2
    shape = tuple(dims[:k])
    vals = [rng.random() < 0.6 for _ in range(numel(shape))]
    return ("mask", shape, vals), k


def gen_index(rng, shape, adv="maybe", malformed=False):
    """index tuple over `shape` from the property's grammar: ints, slices, None, Ellipsis and at
    most one advanced item; returns the structured list"""
    rank = len(shape)
    ix = []
    cursor = 0
    want_adv = adv == "yes" or (adv == "maybe" and rng.random() < 0.45)
    adv_pos = rng.randrange(rank) if (want_adv and rank > 0) else None
    stop = rank if rng.random() < 0.6 else rng.randint(0, rank)
    while cursor < stop:
        if rng.random() < 0.15:
            ix.append(("none",))
            continue
        if adv_pos is not None and cursor >= adv_pos:
            item, k = gen_adv(rng, list(shape[cursor:]))
            adv_pos = None
            ix.append(item)
            cursor += k
            continue
        ix.append(gen_item_for_dim(rng, shape[cursor]))
        cursor += 1
    if rng.random() < 0.12:
        ix.append(("none",))
    # Ellipsis: replace a maximal run of trailing/leading/inner full slices, or append/prepend
    if rng.random() < 0.3:
        fulls = [i for i, it in enumerate(ix) if it == ("slice", None, None, None)]
        r = rng.random()
        if fulls and r < 0.5:
            p = rng.choice(fulls)
            q = p
            while q + 1 < len(ix) and ix[q + 1] == ("slice", None, None, None) and rng.random() < 0.7:
                q += 1
            ix[p:q + 1] = [("ell",)]
        elif cursor >= rank and r < 0.75:
            ix.insert(rng.randint(0, len(ix)), ("ell",))   # zero-length ellipsis
        elif cursor < rank:
            ix.append(("ell",))
            # items after the ellipsis address the last dims
            tail = rng.randint(0, rank - cursor)
            for d in shape[rank - tail:]:
                ix.append(gen_item_for_dim(rng, d))
    if malformed:
        r = rng.random()
        if r < 0.3 and rank > 0:
            p = rng.randrange(rank)
            ix.insert(min(p, len(ix)), ("int", shape[p] + rng.randint(0, 2)))
        elif r < 0.5:
            ix += [("int", 0)] * (rank + 1)
        elif r < 0.7:
            ix.insert(rng.randint(0, len(ix)), ("ell",))
            ix.insert(rng.randint(0, len(ix)), ("ell",))
        elif r < 0.85:
            ix.append(("slice", None, None, 0))
        else:
            ix.insert(0, ("int", -shape[0] - 1 if rank else -1))
    return ix


def gen_index_mask_before(rng, bs, n, sd):
    """targeted: a mask (rank 1 or 2) lying entirely BEFORE the stack dim (num_squash != 0 in
    `_split_index`), optional Nones around it, then an item for the following dims"""
    full = list(bs)
    full.insert(sd, n)
    k = rng.randint(1, min(2, sd))
    start = rng.randint(0, sd - k)
    ix = []
    for d in full[:start]:
        if rng.random() < 0.2:
            ix.append(("none",))
        ix.append(gen_item_for_dim(rng, d))
    if rng.random() < 0.3:
        ix.append(("none",))
    mshape = full[start:start + k]
    cnt = 1
    for d in mshape:
        cnt *= d
    ix.append(("mask", list(mshape), [rng.random() < 0.6 for _ in range(cnt)]))
    if rng.random() < 0.2:
        ix.append(("none",))
    r = rng.random()
    if r < 0.35:
        pass
    elif r < 0.5:
        ix.append(("ell",))
    else:
        for d in full[start + k:rng.randint(start + k, len(full))]:
            ix.append(gen_item_for_dim(rng, d))
    return ix


def gen_index_mask2(rng, bs, n, sd):
    """targeted: a rank-2 mask starting ON the stack dim (needs a member dim after it) or SPANNING it (starting one
    dim before it), basic items / Nones before, basic items / an Ellipsis / nothing after"""
    full = list(bs)
    full.insert(sd, n)
    starts = ([sd] if sd + 1 < len(full) else []) + ([sd - 1] if sd >= 1 else [])
    if not starts:
        return None
    start = rng.choice(starts)
    ix = []
    for d in full[:start]:
        if rng.random() < 0.2:
            ix.append(("none",))
        it = gen_item_for_dim(rng, d)
        ix.append(it if it[0] in ("int", "slice") else ("slice", None, None, None))
    if rng.random() < 0.25:
        ix.append(("none",))
    mshape = full[start:start + 2]
    cnt = mshape[0] * mshape[1]
    p = rng.choice([0.0, 0.3, 0.6, 0.6, 1.0]) if rng.random() < 0.3 else 0.6
    ix.append(("mask", list(mshape), [rng.random() < p for _ in range(cnt)]))
    if rng.random() < 0.2:
        ix.append(("none",))
    r = rng.random()
    if r < 0.35:
        pass
    elif r < 0.5:
        ix.append(("ell",))
    else:
        for d in full[start + 2:rng.randint(start + 2, len(full))]:
            it = gen_item_for_dim(rng, d)
            ix.append(it if it[0] in ("int", "slice") else ("slice", None, None, None))
    return ix


def expand_ell(ix, rank):
    """the index with Ellipsis replaced by the full slices it stands for (as convert_ellipsis_to_idx does)"""
    if not any(i[0] == "ell" for i in ix):
        return list(ix)
    used = sum((len(i[1]) if i[0] == "mask" else 1) for i in ix if i[0] not in ("none", "ell"))
    pos = [j for j, i in enumerate(ix) if i[0] == "ell"][0]
    return list(ix[:pos]) + [("slice", None, None, None)] * max(0, rank - used) + [i for i in ix[pos + 1:] if i[0] != "ell"]


def oob_on_empty(shape, ix):
    """torch skips the bounds check of an index tensor when the result has no element (an empty slice
    elsewhere in the index): `zeros(4, 1)[1:1, [3]]` is accepted.  The Lean spec rejects every
    out-of-range entry, so such indices are outside the spec (documented gap); the streams that
    compare the model with real code re-draw them."""
    rank = len(shape)
    cursor, oob = 0, False
    for it in expand_ell(ix, rank):
        if it[0] == "none":
            continue
        if it[0] == "mask":
            cursor += len(it[1])
            continue
        if it[0] == "tens" and cursor < rank:
            d = shape[cursor]
            if any(not (-d <= v < d) for v in it[3]):
                oob = True
        cursor += 1
    if not oob:
        return False
    try:
        y = torch.zeros(tuple(shape))[index_py(ix)]
    except TimeoutError:      # a slow box is an infrastructure problem (exit 2), never a verdict
        raise
    except Exception:  # noqa: BLE001
        return False
    return y.numel() == 0


def gen_index_spec(rng, shape, drop_ell=False, **kw):
    """`gen_index` restricted to the domain of the Lean spec (see `oob_on_empty`)"""
    while True:
        ix = gen_index(rng, shape, **kw)
        if drop_ell:
            ix = [i for i in ix if i[0] != "ell"]
        if not oob_on_empty(shape, ix):
            return ix


def ix_kinds(ix):
    return "+".join(sorted({i[0] if i[0] != "tens" else "tens" + str(len(i[2])) for i in ix})) or "empty"


def adv_position(ix, sd):
    """where the advanced item sits relative to the stack dim (for the distribution table)"""
    cursor = 0
    for it in ix:
        if it[0] == "none":
            continue
        if it[0] == "ell":
            return "ell"
        k = len(it[1]) if it[0] == "mask" else 1
        if it[0] in ("tens", "mask"):
            if cursor + k <= sd:
                return "before"
            if cursor > sd:
                return "after"
            if cursor == sd:
                return "on"
            return "spanning"
        cursor += k
    return "noadv"


# ----------------------------------------------------------------------------- implementation runners
def impl_kind(r):
    if isinstance(r, LazyStackedTensorDict):
        if r.tensordicts and isinstance(r.tensordicts[0], LazyStackedTensorDict):
            return ["kind", "lazy2", r.stack_dim, len(r.tensordicts)]
        return ["kind", "lazy", r.stack_dim, len(r.tensordicts)]
    return ["kind", "member"]


def impl_get(L, ix, feats):
    """canonical answer of the real lazy stack for a read"""
    index = index_py(ix)
    try:
        r = L[index]
    except TimeoutError:      # a slow box is an infrastructure problem (exit 2), never a verdict
        raise
    except Exception as e:  # noqa: BLE001
        return ["err"], e
    try:
        return ["ok", impl_kind(r)] + td_canon(r, feats), r
    except TimeoutError:      # a slow box is an infrastructure problem (exit 2), never a verdict
        raise
    except Exception as e:  # noqa: BLE001  (e.g. a lazy stack left with zero members: every read raises)
        if isinstance(r, LazyStackedTensorDict) and len(r.tensordicts) == 0:
            return ["ok", ["kind", "empty"], ["bs"] + list(r.batch_size)], r
        return ["unreadable", impl_kind(r)], r


def mk_value(ibs, feats):
    """the value of the write stream (same provenance as Drive/C08.lean:mkValue)"""
    flat = {}
    for j, (k, f) in enumerate(feats):
        shp = tuple(ibs) + tuple(f)
        flat[k] = (torch.arange(numel(shp), dtype=torch.int64) + 500000 + 10000 * j).reshape(shp)
    root, nested = {}, {}
    for k, v in flat.items():
        if "." in k:
            a, b = k.split(".", 1)
            nested.setdefault(a, {})[b] = v
        else:
            root[k] = v
    for a, d in nested.items():
        root[a] = TensorDict(d, batch_size=list(ibs))
    return TensorDict(root, batch_size=list(ibs))


def members_canon(L, feats):
    return ["ok", ["sd", L.stack_dim]] + [["member"] + td_canon(m, feats) for m in L.tensordicts]


def has_dup_targets(ix):
    for it in ix:
        if it[0] == "tens":
            return len(set(it[3])) != len(it[3])
    return False


def split_canon(d):
    hb = bool(d["has_bool"])
    return ["ok", ["num_single", int(d["num_single"])], ["num_none", int(d["num_none"])], ["num_squash", int(d["num_squash"])],
            ["isinteger", "true" if d["isinteger"] else "false"], ["has_bool", "true" if hb else "false"],
            ["is_nd_tensor", "true" if d["is_nd_tensor"] else "false"],
            ["split_dim", int(d["split_dim"]) if hb else "na"], ["mask_loc", int(d["mask_loc"]) if hb else "na"],
            ["mask_dim", int(d["mask_dim"]) if hb else "na"]]


def dense_of(members, sd):
    """the property's oracle: dense torch.stack of clones of the members"""
    return torch.stack([m.clone() for m in members], sd)


def same_td(a, b):
    """batch size, key set and values equal (exact integer comparison)"""
    if tuple(a.batch_size) != tuple(b.batch_size):
        return f"batch_size {tuple(a.batch_size)} vs {tuple(b.batch_size)}"
    ka, kb = keyset(a), keyset(b)
    if ka != kb:
        return f"keys {ka} vs {kb}"
    for k in ka:
        va, vb = get_leaf(a, k), get_leaf(b, k)
        if va.shape != vb.shape:
            return f"shape of {k}: {tuple(va.shape)} vs {tuple(vb.shape)}"
        if not torch.equal(va, vb):
            return f"values of {k}: {va.reshape(-1).tolist()[:12]} vs {vb.reshape(-1).tolist()[:12]}"
    # nested batch sizes
    for k in a.keys(True, False):
        va = a.get(k)
        if hasattr(va, "batch_size"):
            vb = b.get(k)
            if tuple(va.batch_size) != tuple(vb.batch_size):
                return f"nested batch_size of {k}: {tuple(va.batch_size)} vs {tuple(vb.batch_size)}"
    return None


def torch_leaf_index(dense, index, feats):
    """torch itself on every leaf of the dense stack (Ellipsis expanded against the batch rank)"""
    out = {}
    for k, _ in feats:
        v = get_leaf(dense, k)
        idx = index
        if any(i is Ellipsis for i in idx):
            extra = v.dim() - len(dense.batch_size)
            pos = [j for j, i in enumerate(idx) if i is Ellipsis][0]
            idx = idx[:pos] + (Ellipsis,) + idx[pos + 1:] + (slice(None),) * extra
        out[k] = v[idx]
    return out
