"""C10: memory-mapped save / load vs the Lean model (streams A–E) and the property oracle on the
container kinds the model abstracts.

Both sides emit: the writer tasks in submission order (targets), the directory listing (file sizes,
parsed meta.json) and the loaded tree (keys, nesting, kinds, batch sizes, dtypes, shapes, bytes, payloads).
"""
from __future__ import annotations

import itertools
import json
import os
import shutil
import warnings
from pathlib import Path

import torch

from common import BUILD, Infra, Raw, parse_sx, sx, time_limit
from c11_canon import bits, canon, first_diff
from c11_hist import DT_HIST, mk_tensor
from c12_fns import ask_batched
from c12_threads import patched_pool

# dtypes a MemoryMappedTensor can hold through a file (complex included: torch.from_file handles them)
DT = DT_HIST + [torch.uint16, torch.uint32, torch.uint64]


# ------------------------------------------------------------------------------- structures
def gen_tree(rng, b, depth=0):
    """spec: list of (key, ('l', dtype, shape) | ('nt', payload) | ('n', sub-spec))"""
    # keys: also with dots (the file is `<key>.memmap`, the sub-directory `<key>`: a key is not a file name with a suffix),
    # dashes, underscores, capitals, a key that looks like another entry's file
    keys = list("abcdefgh") + ["a.b", "x.y.z", "k-1", "_u", "A", "b.memmap", "meta"]
    rng.shuffle(keys)
    n = rng.randint(1, 4) if depth == 0 else rng.randint(0, 3)
    out = []
    for k in keys[:n]:
        r = rng.random()
        if k == "b.memmap" and "b" in keys[:n]:
            continue    # the excluded point of PathSafe: a node / leaf named like another leaf's file
        if depth < 2 and r < 0.08 and len(b) >= 1 and b[0] > 0:
            # a lazy stack along dim 0: members share keys and dtypes
            member = [(kk, ("l", rng.choice(DT), b[1:] + rng.choice([[], [2], [0]]))) for kk in list("xyz")[: rng.randint(1, 2)]]
            if rng.random() < 0.4:
                member.append(("w", ("n", [("v", ("l", rng.choice(DT), b[1:]))])))
            out.append((k, ("lz", [member] * b[0])))
        elif r < 0.18 and r >= 0.14 and len(b) >= 1 and b[0] > 0:
            out.append((k, ("nts", rng.choice(["s", "item", "z"]))))
        elif r < 0.14 and k.isalpha():
            # a tensorclass instance (two tensor fields, one string field) as an entry
            out.append((k, ("tc", rng.choice([torch.float32, torch.int16, torch.uint8]), rng.choice(["T", "tag1", "x"]))))
        elif (depth < 2 and r < 0.25) or (depth == 2 and r < 0.15):
            out.append((k, ("n", gen_tree(rng, b, depth + 1))))
        elif r < 0.35:
            out.append((k, ("nt", rng.choice(["hello", "x", "payload"]))))
        else:
            out.append((k, ("l", rng.choice(DT), b + rng.choice([[], [], [2], [1, 3], [0], [2, 0]]))))
    return out


def build(spec, b, device, base=0):
    """deterministic given the spec (tensordict.clone() is unusable here: torch has no _foreach_add for uint16/32/64)"""
    from tensordict import NonTensorData, TensorDict
    d = {}
    for i, (k, v) in enumerate(spec):
        if v[0] == "l":
            d[k] = mk_tensor(None, v[1], v[2], (base * 7 + i * 3 + 1) % 19)
        elif v[0] == "nt":
            d[k] = NonTensorData(v[1], batch_size=b)
        elif v[0] == "nts":
            from tensordict import NonTensorStack

            def nts_of(shape, pre):
                if len(shape) == 1:
                    return NonTensorStack(*[NonTensorData(f"{v[1]}{pre}{j}", batch_size=[]) for j in range(shape[0])])
                return NonTensorStack(*[nts_of(shape[1:], f"{pre}{j}-") for j in range(shape[0])])
            d[k] = nts_of(b, "")
        elif v[0] == "tc":
            import c11_trips
            d[k] = c11_trips.tc_cls()(u=mk_tensor(None, v[1], b + [2], (base + i) % 17), v=mk_tensor(None, torch.int16, b, (base + i + 1) % 17), tag=v[2], batch_size=b)
        elif v[0] == "lz":
            from tensordict import LazyStackedTensorDict
            d[k] = LazyStackedTensorDict(*[build(m, b[1:], device, base + 11 * (j + 1) + i) for j, m in enumerate(v[1])], stack_dim=0)
        else:
            d[k] = build(v[1], b, device, base + i + 1)
    return TensorDict(d, batch_size=b, device=device)


def nts_data(v):
    """the payloads of a NonTensorStack as one atom: the nested list with `<` `>` for brackets"""
    return json.dumps(v.tolist(), separators=(",", ":")).replace("[", "<").replace("]", ">").replace('"', "").replace(",", ":")


def tc_fields(tc):
    """the non-tensor fields of a tensorclass as one atom: `name=value,…` (what its meta.json carries besides `_type`)"""
    return ",".join(f"{k}={v}" for k, v in sorted(tc._non_tensordict.items())) or "nofields"


def td_sx(td):
    """(n (batch) device (key tree)…) in the tensordict's own key order; device as saved (memmap is cpu)"""
    from tensordict import LazyStackedTensorDict, NonTensorData, TensorDictBase, is_tensorclass
    if isinstance(td, LazyStackedTensorDict):
        return sx("lz", td.stack_dim, *[[str(i), Raw(td_sx(m))] for i, m in enumerate(td.tensordicts)])
    if is_tensorclass(td) and not isinstance(td, NonTensorData):
        return sx("tc", type(td).__name__, tc_fields(td), ["_tensordict", Raw(td_sx(td._tensordict))])
    parts = ["n", list(td.batch_size), "cpu"]
    from tensordict import NonTensorStack
    for k, v in td.items():
        if isinstance(v, NonTensorData):
            parts.append([k, ["nt", v.data, list(v.batch_size)]])
        elif isinstance(v, NonTensorStack):
            parts.append([k, ["nts", nts_data(v), v.stack_dim]])
        elif is_tensorclass(v):
            parts.append([k, Raw(td_sx(v))])
        elif isinstance(v, TensorDictBase):
            parts.append([k, Raw(td_sx(v))])
        else:
            parts.append([k, ["l", str(v.dtype), list(v.shape), bits(v)]])
    return sx(*parts)


def tree_of(td):
    """canonical nested-list form of a loaded / saved tensordict, keys in iteration order"""
    from tensordict import LazyStackedTensorDict, NonTensorData, TensorDictBase, is_tensorclass
    if isinstance(td, LazyStackedTensorDict):
        return ["lz", td.stack_dim] + [[str(i), tree_of(m)] for i, m in enumerate(td.tensordicts)]
    if is_tensorclass(td) and not isinstance(td, NonTensorData):
        return ["tc", type(td).__name__, tc_fields(td), ["_tensordict", tree_of(td._tensordict)]]
    out = ["n", list(td.batch_size), "cpu" if td.device is None else str(td.device)]
    from tensordict import NonTensorStack
    for k, v in td.items():
        if isinstance(v, NonTensorData):
            out.append([k, ["nt", v.data, list(v.batch_size)]])
        elif isinstance(v, NonTensorStack):
            out.append([k, ["nts", nts_data(v), v.stack_dim]])
        elif is_tensorclass(v):
            out.append([k, tree_of(v)])
        elif isinstance(v, TensorDictBase):
            out.append([k, tree_of(v)])
        else:
            out.append([k, ["l", str(v.dtype), list(v.shape), bits(v)]])
    return out


def sort_tree(t):
    if isinstance(t, list) and t and t[0] == "n":
        return t[:3] + sorted(([k, sort_tree(v)] for k, v in t[3:]), key=lambda kv: kv[0])
    if isinstance(t, list) and t and t[0] == "lz":
        return t[:2] + [[k, sort_tree(v)] for k, v in t[2:]]
    if isinstance(t, list) and t and t[0] == "tc":
        return t[:3] + [[k, sort_tree(v)] for k, v in t[3:]]
    return t


def listing(root: Path):
    """[(path components, ['bytes', size] | ['meta', kind, batch, device, entries] | ['meta', 'NonTensorData', payload])], sorted"""
    out = []
    for p in sorted(root.rglob("*")):
        if not p.is_file():
            continue
        if p.name == "other.pickle":
            # NonTensorData: pickle of the fields that are not json-serialisable *when the metadata task runs*; with an
            # executor the task runs after the caller has stored a Path in `_metadata`, single-threaded it runs before:
            # the file exists or not depending on timing and does not change what is loaded (reported, not compared)
            continue
        rel = list(p.relative_to(root).parts)
        if p.name == "meta.json":
            m = json.loads(p.read_bytes())
            kind = m.get("_type", "").split(".")[-1].rstrip("'>")
            if kind == "NonTensorData":
                out.append([rel, ["meta", kind, m.get("data")]])
            elif kind == "LazyStackedTensorDict":
                out.append([rel, ["meta", kind, [m.get("stack_dim"), m.get("len")], "None", []]])
            elif kind == "NonTensorStack":
                out.append([rel, ["meta", kind, json.dumps(m.get("data"), separators=(",", ":")).replace("[", "<").replace("]", ">").replace('"', "").replace(",", ":")]])
            elif kind != "TensorDict":
                # a tensorclass: `_type` and its non-tensor fields
                out.append([rel, ["meta", kind, ",".join(f"{k}={v}" for k, v in sorted(m.items()) if k != "_type") or "nofields"]])
            else:
                ents = []
                for k, v in m.items():
                    if isinstance(v, dict):
                        ents.append([k, "coll", v["type"]] if "type" in v else [k, "leaf", v["dtype"], list(v["shape"])])
                out.append([rel, ["meta", kind, list(m.get("shape", [])), str(m.get("device")), sorted(ents)]])
        else:
            out.append([rel, ["bytes", p.stat().st_size]])
    return sorted(out, key=lambda x: x[0])


def pstr(p):
    """path components as strings (the members of a lazy stack live in directories named 0, 1, …, which parse as ints)"""
    return [str(x) for x in (p if isinstance(p, list) else [p])]


def model_listing(l):
    out = []
    for path, f in l:
        path = pstr(path)
        if f[0] == "bytes":
            out.append([path, ["bytes", f[1]]])
        elif f[1] == "NonTensorData":
            out.append([path, ["meta", "NonTensorData", f[2]]])
        elif f[1] not in ("TensorDict", "LazyStackedTensorDict"):
            out.append([path, ["meta", f[1], f[2] if not isinstance(f[2], (int, float)) else str(f[2])]])
        else:
            out.append([path, ["meta", f[1], list(f[2]), f[3], sorted([list(e[:2]) + [e[2]] + ([list(e[3])] if len(e) > 3 else []) for e in f[4]])]])
    return sorted(out, key=lambda x: x[0])


def model_tree(t):
    if t == "none":
        return "none"
    if t[0] == "l":
        return ["l", t[1], list(t[2]), list(t[3])]
    if t[0] == "nt":
        return ["nt", t[1], list(t[2])]
    if t[0] == "lz":
        return ["lz", t[1]] + [[str(k), model_tree(v)] for k, v in t[2:]]
    if t[0] == "nts":
        return ["nts", t[1], t[2]]
    if t[0] == "tc":
        return ["tc", t[1], t[2]] + [[str(k), model_tree(v)] for k, v in t[3:]]
    return ["n", list(t[1]), t[2]] + [[k, model_tree(v)] for k, v in t[3:]]


def task_targets(ex, root):
    """targets of the submitted writer tasks, relative to root, in submission order"""
    out = []
    for (fn, args, kw) in ex.submitted:
        if fn.__name__ == "_populate_memmap":
            out.append(list((kw["prefix"] / f"{kw['key']}.memmap").relative_to(root).parts))
        elif fn.__name__ == "_save_metadata":
            out.append(list((args[1] / "meta.json").relative_to(root).parts))
        elif fn.__name__ == "save_metadata" and fn.__defaults__:
            # closures with the directory as a default argument: tensorclass.py:_memmap_ (cls, _non_tensordict, prefix)
            # and _lazy.py:LazyStackedTensorDict._memmap_ (prefix, self)
            pre = [x for x in fn.__defaults__ if isinstance(x, Path)][0]
            out.append(list((pre / "meta.json").relative_to(root).parts))
        else:
            out.append(["?" + fn.__name__])
    return out


OPTS = dict(lock=False, names=False, device=False)


def run_model_streams(run, drv):
    from tensordict import TensorDict
    rng = run.rng
    quick = run.tier == "quick"
    root = BUILD / "tmp" / f"c10_{run.seed}_{run.tier}"
    shutil.rmtree(root, ignore_errors=True)
    root.mkdir(parents=True, exist_ok=True)
    n_struct = 90 if quick else 500
    try:
        for it in range(n_struct):
            b = rng.choice([[2], [3], [], [2, 2]])
            spec = gen_tree(rng, b)
            if it == 0:
                spec = [("a", ("l", torch.float32, b + [2])), ("z", ("l", torch.float64, b + [0])), ("s", ("nt", "hello")),
                        ("m", ("n", [("x", ("l", torch.uint8, b)), ("e", ("n", []))]))]
            if it == 1 or (it > 1 and it % 30 == 1):
                # a lazy stack with more members than one decimal digit counts (directories "0" … "11+": numeric, not lexicographic, order)
                b = [rng.randint(11, 13)]
                spec = [("t", ("l", torch.int32, b)), ("ls", ("lz", [[("x", ("l", torch.int16, [])), ("y", ("l", torch.float32, [2]))]] * b[0]))]
            device = rng.choice([None, "cpu"])
            td = build(spec, b, device)
            tsx = td_sx(td)
            # number of writer tasks = files written
            m0 = parse_sx(drv.ask(f"(c10.save {tsx} ())"))
            n_tasks = len(m0[0])
            api = rng.choice(["memmap", "memmap", "memmap_", "save"])
            if n_tasks <= 4:
                orders = list(itertools.permutations(range(n_tasks)))
                if quick and n_tasks == 4:
                    orders = rng.sample(orders, 8)
            elif n_tasks == 5:
                orders = rng.sample(list(itertools.permutations(range(5))), 6 if quick else 120)
            else:
                orders = [tuple(rng.sample(range(n_tasks), n_tasks)) for _ in range(4 if quick else 12)]
            ref = sort_tree(tree_of(td))
            runs = [("threads0", None, 0), ("threads1", None, 1)] + [("perm", o, 3) for o in orders] + [("real", None, nt) for nt in (2, 4, 8)]
            reqs = [f"(c10.save {tsx} {sx(*o) if o else '()'})" for (_, o, _) in runs]
            answers = [parse_sx(a) for a in ask_batched(drv, reqs, 10)]
            for ri, ((kind, o, nt), m) in enumerate(zip(runs, answers)):
                d = root / f"s{it}_{ri}"
                run.case(("save", it, kind, o, nt), nontrivial=kind != "real")
                run.count("save.api", api)
                run.count("save.tasks", n_tasks)
                src = build(spec, b, device)
                try:
                    with time_limit(180):
                        if kind == "perm":
                            with patched_pool(order=list(o)) as pp:
                                getattr(src, api)(d, num_threads=nt)
                            ex = pp.executors[0]
                            if len(ex.submitted) == len(o) and ex.ran != list(o):
                                if "(tc " in tsx:
                                    # a tensorclass that is not saved in place waits for the tasks of its own tensordict before it is rebuilt
                                    # (tensorclass.py:_memmap_): the tasks submitted so far run at that point, the rest of the order afterwards
                                    run.count("save.order_restricted_by_a_wait_inside", 1)
                                else:
                                    raise Infra("permuting executor did not realise the order")
                            # a `_populate_memmap` task for a tensor without elements is submitted but writes nothing
                            targets = [t for t in task_targets(ex, d) if not t[-1].endswith(".memmap") or (d / Path(*t)).exists()]
                        else:
                            getattr(src, api)(d, num_threads=nt)
                            targets = None
                        lst = listing(d)
                        loaded = TensorDict.load_memmap(d)
                        got = tree_of(loaded)
                    impl = ["ok", lst, sort_tree(got)]
                except TimeoutError as e:
                    raise Infra(f"memmap timed out: {e}")
                except Infra:
                    raise
                except Exception as e:  # noqa: BLE001
                    impl = ["err", f"{type(e).__name__}: {str(e)[:150]}"]
                    targets = None
                model = ["ok", model_listing(m[1]), sort_tree(model_tree(m[2]))]
                run.corr(f"save+load({kind})", {"tree": tsx, "api": api, "order": o, "num_threads": nt}, impl, model)
                if targets is not None:
                    run.corr("writer_tasks(submission order)", {"tree": tsx}, targets, [pstr(p) for p in m[0]])
                # oracle: loaded == original (keys, nesting, kinds, batch size, dtypes, shapes, values, payloads)
                if impl[0] == "err":
                    run.oracle_fail("load_equals_saved", {"tree": tsx, "api": api, "order": o, "num_threads": nt}, f"raised {impl[1]}", f"save:{kind}:raise")
                elif impl[2] != ref:
                    run.oracle_fail("load_equals_saved", {"tree": tsx, "api": api, "order": o, "num_threads": nt},
                                    f"loaded tensordict differs from the one saved: {first_diff(ref, impl[2])}", f"save:{kind}:differs")
                else:
                    run.oracle_ok("load_equals_saved")
                shutil.rmtree(d, ignore_errors=True)
            if it < 2:
                run.sample({"stream": "save", "tree": tsx[:300], "model": str(m0)[:400]})
            # ---- memmap_like
            d = root / f"like{it}"
            try:
                like = td.memmap_like(d, num_threads=rng.choice([0, 2]))
                impl = ["ok", listing(d), sort_tree(tree_of(TensorDict.load_memmap(d)))]
            except Exception as e:  # noqa: BLE001
                impl = ["err", f"{type(e).__name__}: {str(e)[:150]}"]
            ml = parse_sx(drv.ask(f"(c10.like {tsx})"))
            model = ["ok", model_listing(ml[0]), sort_tree(model_tree(ml[1]))]
            run.case(("like", it))
            run.corr("memmap_like", {"tree": tsx}, impl, model)
            if impl[0] == "ok":
                zero = canon(td.apply(lambda x: torch.zeros_like(x), filter_empty=False), **OPTS)
                if canon(like, **OPTS) != zero or canon(TensorDict.load_memmap(d), **OPTS) != zero:
                    run.oracle_fail("memmap_like_structure", {"tree": tsx}, "memmap_like does not have the structure of the original with zero content", "like")
                else:
                    run.oracle_ok("memmap_like_structure")
            else:
                run.oracle_fail("memmap_like_structure", {"tree": tsx}, impl[1], "like:raise")
            shutil.rmtree(d, ignore_errors=True)
            # ---- make_memmap on the saved directory + write-through
            d = root / f"mk{it}"
            try:
                saved = build(spec, b, device).memmap_(d)
                other = TensorDict.load_memmap(d)          # a second mapping of the same files
            except Exception as e:  # noqa: BLE001
                run.oracle_fail("load_equals_saved", {"tree": tsx, "api": "memmap_"}, f"raised {type(e).__name__}: {str(e)[:150]}", "save:threads0:raise")
                shutil.rmtree(d, ignore_errors=True)
                continue
            key = "new" + str(it % 3)
            dt = rng.choice([torch.float32, torch.int64, torch.uint8, torch.bool])
            shape = b + rng.choice([[], [2], [0]])
            try:
                t = saved.make_memmap(key, shape=torch.Size(shape), dtype=dt)
                impl = ["ok", listing(d), sort_tree(tree_of(TensorDict.load_memmap(d)))]
            except Exception as e:  # noqa: BLE001
                impl = ["err", f"{type(e).__name__}: {str(e)[:150]}"]
            nbytes = torch.empty((), dtype=dt).element_size() * int(torch.Size(shape).numel())
            mm = parse_sx(drv.ask(sx("c10.make", Raw(tsx), [], key, str(dt), shape, nbytes)))
            model = ["ok", model_listing(mm[0]), sort_tree(model_tree(mm[1]))] if mm != "none" else ["none"]
            run.case(("make", it))
            run.corr("make_memmap(merge)", {"tree": tsx, "key": key, "dtype": str(dt), "shape": shape}, impl, model)
            if impl[0] == "ok":
                exp = sort_tree(tree_of(td))
                exp = exp[:3] + sorted(exp[3:] + [[key, ["l", str(dt), shape, [0] * nbytes]]], key=lambda kv: kv[0])
                if impl[2] != exp:
                    run.oracle_fail("make_memmap_merge", {"tree": tsx, "key": key}, f"after make_memmap the directory does not load as old entries + new one: {first_diff(exp, impl[2])}", "make")
                else:
                    run.oracle_ok("make_memmap_merge")
            else:
                run.oracle_fail("make_memmap_merge", {"tree": tsx, "key": key}, impl[1], "make:raise")
            # refresh: a reader maps the directory; through another mapping make_memmap creates an entry at the root or inside a
            # nested node the reader already holds and fills it; the reader after load_memmap_ / memmap_refresh_ vs `loadInto`
            if it % 2 == 1:
                def nodes_of(sp, path=()):
                    out = [path]
                    for kk, vv in sp:
                        if vv[0] == "n":
                            out += nodes_of(vv[1], path + (kk,))
                    return out
                rdir = root / f"r{it}"
                run.case(("refresh", it))
                try:
                    with time_limit(180):
                        wtd = build(spec, b, device).memmap_(rdir)
                        reader = TensorDict.load_memmap(rdir).memmap_()
                        where = rng.choice(nodes_of(spec))
                        rkey = "fresh"
                        rdt = rng.choice([torch.int32, torch.uint8, torch.float64])
                        rshape = b + rng.choice([[], [2]])
                        newt = mk_tensor(None, rdt, rshape, 5 + it % 7)
                        target = wtd
                        for kk in where:
                            target = target[kk]
                        if rkey in target.keys():
                            raise KeyError("skip")
                        wtd.make_memmap(where + (rkey,), shape=torch.Size(rshape), dtype=rdt).copy_(newt)
                        if it % 4 == 1:
                            reader.memmap_refresh_()
                        else:
                            reader.load_memmap_(rdir)
                        impl = [sort_tree(tree_of(TensorDict.load_memmap(rdir))), sort_tree(tree_of(reader))]
                        writer_view = sort_tree(tree_of(wtd))
                    mrf = parse_sx(drv.ask(sx("c10.refresh", Raw(tsx), list(where), rkey, str(rdt), rshape, bits(newt))))
                    model = [sort_tree(model_tree(mrf[0])), sort_tree(model_tree(mrf[1]))] if mrf != "none" else ["none"]
                    rcase = {"tree": tsx, "dir": list(where), "dtype": str(rdt), "shape": rshape}
                    run.corr("refresh(fresh load, reader after load_memmap_)", rcase, impl, model)
                    if impl[0] == impl[1] == writer_view:
                        run.oracle_ok("refresh_equals_load")
                    elif impl[0] != writer_view:
                        run.oracle_fail("refresh_equals_load", rcase, "after the reader's refresh a fresh load of the directory differs from the tensordict that created the entry: "
                                        f"{first_diff(writer_view, impl[0])}", f"refresh-later-load:{'nested' if where else 'root'}")
                    else:
                        run.oracle_fail("refresh_equals_load", rcase, f"after the refresh the reader differs from a fresh load of the directory: {first_diff(impl[0], impl[1])}",
                                        f"refresh:{'nested' if where else 'root'}")
                except KeyError:
                    pass
                except TimeoutError as e:
                    raise Infra(f"refresh timed out: {e}")
                except Exception as e:  # noqa: BLE001
                    run.oracle_fail("refresh_equals_load", {"tree": tsx}, f"refresh history raised {type(e).__name__}: {str(e)[:150]}", "refresh:raise")
                shutil.rmtree(rdir, ignore_errors=True)
            # write through: a root leaf with elements, written in place through `saved`, read through `other` and a fresh load
            cands = [k for k, v in spec if v[0] == "l" and torch.Size(v[2]).numel() > 0]
            if cands:
                k = rng.choice(cands)
                run.case(("write", it))
                try:
                    newv = mk_tensor(None, saved[k].dtype, list(saved[k].shape), 3 + it % 11)
                    saved[k].copy_(newv)
                    mw = parse_sx(drv.ask(sx("c10.write", Raw(tsx), [], k, bits(newv))))
                    later = TensorDict.load_memmap(d)
                    got = [bits(other[k]), bits(later[k])]
                    model_leaf = [v for kk, v in model_tree(mw)[3:] if kk == k][0][3]
                    run.corr("write_through(load after write)", {"tree": tsx, "key": k}, got[1], model_leaf)
                    bad = got[0] != bits(newv) or got[1] != bits(newv)
                    what = "an in-place write through one mapping is not seen by another mapping / a later load"
                except Exception as e:  # noqa: BLE001
                    bad, what = True, f"write-through probe raised {type(e).__name__}: {str(e)[:150]}"
                if bad:
                    run.oracle_fail("write_through_mapping", {"tree": tsx, "key": k}, what, "write")
                else:
                    run.oracle_ok("write_through_mapping")
            shutil.rmtree(d, ignore_errors=True)
            # ---- saving into a directory that already holds an earlier save of another structure (stale files stay, must not be read)
            if it % 2 == 0:
                # the former save may have a longer batch: its lazy stacks then have more members than the new ones
                b1 = ([b[0] + rng.choice([0, 1, 2])] + b[1:]) if b else b
                spec1 = gen_tree(rng, b1)
                if it % 4 == 0 and b:
                    # same key for a lazy stack in both saves (stale member directories under the same name)
                    lzkeys = [k for k, v in spec if v[0] == "lz"]
                    if lzkeys:
                        spec1 = [(lzkeys[0], ("lz", [[("x", ("l", torch.float32, b1[1:]))]] * b1[0]))] + [kv for kv in spec1 if kv[0] != lzkeys[0]]
                td1 = build(spec1, b1, device, base=5)
                d = root / f"re{it}"
                run.case(("resave", it))
                try:
                    with time_limit(180):
                        nts = [rng.choice([0, 2]), rng.choice([0, 2])]
                        td1.memmap(d, num_threads=nts[0])
                        build(spec, b, device).memmap(d, num_threads=nts[1])
                        impl = ["ok", sorted(x[0] for x in listing(d)), sort_tree(tree_of(TensorDict.load_memmap(d)))]
                except TimeoutError as e:
                    raise Infra(f"memmap timed out: {e}")
                except Exception as e:  # noqa: BLE001
                    impl = ["err", f"{type(e).__name__}: {str(e)[:150]}"]
                t1sx = td_sx(td1)
                check_resave(run, drv, {"first": t1sx[:400], "second": tsx[:400], "first_full": t1sx, "second_full": tsx, "num_threads": nts}, td1, td, ref, impl, "resave(existing directory)")
                shutil.rmtree(d, ignore_errors=True)
    finally:
        shutil.rmtree(root, ignore_errors=True)


def fs_paths(td, prefix=()):
    """(files, directories) a save of `td` needs, as path tuples: a leaf is the file `<key>.memmap`, every collection
    (sub-tensordict, lazy stack and its members, NonTensorData, tensorclass) a directory with a `meta.json`"""
    from tensordict import LazyStackedTensorDict, TensorDictBase, is_tensor_collection
    files, dirs = {prefix + ("meta.json",)}, {prefix}
    if isinstance(td, LazyStackedTensorDict):
        for i, m in enumerate(td.tensordicts):
            f, d_ = fs_paths(m, prefix + (str(i),))
            files |= f
            dirs |= d_
        return files, dirs
    if not isinstance(td, TensorDictBase):
        return files, dirs
    for k, v in td.items():
        if is_tensor_collection(v):
            f, d_ = fs_paths(v, prefix + (k,))
            files |= f
            dirs |= d_
        elif v.numel():
            files.add(prefix + (k + ".memmap",))
    return files, dirs


def dir_conflict(first, second):
    """the second save needs a directory where the first left a file, or a file where it left a directory: outside the
    file-system model (its cells are independent); the save must then fail loudly whatever the number of threads"""
    f1, d1 = fs_paths(first)
    f2, d2 = fs_paths(second)
    return bool((f1 & d2) | (d1 & f2))


def check_resave(run, drv, case, first, second, ref, impl, stream):
    if dir_conflict(first, second):
        run.count("resave.file_vs_directory_conflict", 1)
        if impl[0] == "err" or impl[2] == ref:
            run.oracle_ok("resave_conflict_is_loud")
        else:
            run.oracle_fail("resave_conflict_is_loud", case, "a save that needs a directory where a former save left a file (or the converse) returned normally "
                            "and the directory does not hold the tensordict saved", "resave-conflict-silent")
        return
    mr = parse_sx(drv.ask(f"(c10.resave {case['first_full']} {case['second_full']})"))
    model = ["ok", sorted(pstr(p) for p in mr[0]), sort_tree(model_tree(mr[1]))]
    shown = case
    run.corr(stream, shown, impl, model)
    if impl[0] == "ok" and impl[2] == ref:
        run.oracle_ok("load_equals_saved(existing dir)")
    else:
        run.oracle_fail("load_equals_saved(existing dir)", shown,
                        "after saving over an earlier save, the loaded tensordict differs from the one saved" if impl[0] == "ok" else impl[1], "resave")


def td_from_tree(t):
    """tensordict from the parsed s-expression of td_sx"""
    from tensordict import NonTensorData, TensorDict
    from c11_hist import tensor_from
    if t[0] == "lz":
        from tensordict import LazyStackedTensorDict
        return LazyStackedTensorDict(*[td_from_tree(v) for _, v in t[2:]], stack_dim=t[1])
    if t[0] == "tc":
        import c11_trips
        inner = td_from_tree(t[3][1])
        fields = dict(kv.split("=", 1) for kv in str(t[2]).split(",")) if t[2] != "nofields" else {}
        return c11_trips.tc_cls()(**{k_: v_ for k_, v_ in inner.items()}, **fields, batch_size=inner.batch_size)
    assert t[0] == "n"
    d = {}
    for k, v in t[3:]:
        if v[0] == "l":
            d[k] = tensor_from(v[1], list(v[2]), list(v[3]))
        elif v[0] == "nt":
            d[k] = NonTensorData(v[1], batch_size=list(v[2]))
        elif v[0] == "nts":
            from tensordict import NonTensorStack

            def nts_from(x):
                return NonTensorStack(*[nts_from(y) for y in x]) if isinstance(x, list) else NonTensorData(x, batch_size=[])
            import re as _re
            d[k] = nts_from(json.loads(_re.sub(r"([^<>:]+)", r'"\1"', str(v[1])).replace("<", "[").replace(">", "]").replace(":", ",")))
        else:
            d[k] = td_from_tree(v)
    return TensorDict(d, batch_size=list(t[1]))


def replay_saves(run, drv, cases, stream="save+load(replay)"):
    """re-run recorded save/load cases (corpus entries or the failures of a replay file)"""
    from tensordict import TensorDict
    root = BUILD / "tmp" / f"c10r_{run.seed}_{run.tier}"
    shutil.rmtree(root, ignore_errors=True)
    root.mkdir(parents=True, exist_ok=True)
    n = 0
    try:
        for ci, c in enumerate(cases):
            if isinstance(c, dict) and isinstance(c.get("first"), str) and isinstance(c.get("second"), str):
                # a save over a former save
                n += 1
                d = root / f"rr{ci}"
                run.case(("resave-replay", ci))
                c = dict(c, first=c.get("first_full", c["first"]), second=c.get("second_full", c["second"]))
                t1, t2 = td_from_tree(parse_sx(c["first"])), td_from_tree(parse_sx(c["second"]))
                ref = sort_tree(tree_of(t2))
                try:
                    with time_limit(180):
                        nts = c.get("num_threads", [0, 0])
                        t1.memmap(d, num_threads=nts[0])
                        t2.memmap(d, num_threads=nts[1])
                        impl = ["ok", sorted(x[0] for x in listing(d)), sort_tree(tree_of(TensorDict.load_memmap(d)))]
                except TimeoutError as e:
                    raise Infra(f"memmap timed out: {e}")
                except Exception as e:  # noqa: BLE001
                    impl = ["err", f"{type(e).__name__}: {str(e)[:150]}"]
                check_resave(run, drv, {"first": c["first"], "second": c["second"], "first_full": c["first"], "second_full": c["second"], "num_threads": c.get("num_threads", [0, 0])}, t1, t2, ref, impl,
                             "resave(" + ("corpus" if "corpus" in stream else "replay") + ")")
                shutil.rmtree(d, ignore_errors=True)
                continue
            if not (isinstance(c, dict) and isinstance(c.get("tree"), str) and c["tree"].startswith(("(n ", "(lz "))):
                continue
            n += 1
            tsx = c["tree"]
            parsed = parse_sx(tsx)
            order = c.get("order")
            nt = c.get("num_threads", 0) or 0
            api = c.get("api", "memmap")
            m = parse_sx(drv.ask(f"(c10.save {tsx} {sx(*order) if order else '()'})"))
            d = root / f"r{ci}"
            run.case(("save-replay", ci))
            td = td_from_tree(parsed)
            ref = sort_tree(tree_of(td))
            try:
                with time_limit(180):
                    if order:
                        with patched_pool(order=list(order)):
                            getattr(td, api)(d, num_threads=max(nt, 2))
                    else:
                        getattr(td, api)(d, num_threads=nt)
                    impl = ["ok", listing(d), sort_tree(tree_of(TensorDict.load_memmap(d)))]
            except TimeoutError as e:
                raise Infra(f"memmap timed out: {e}")
            except Exception as e:  # noqa: BLE001
                impl = ["err", f"{type(e).__name__}: {str(e)[:150]}"]
            run.corr(stream, c, impl, ["ok", model_listing(m[1]), sort_tree(model_tree(m[2]))])
            if impl[0] == "err":
                run.oracle_fail("load_equals_saved", c, f"raised {impl[1]}", "save:replay:raise")
            elif impl[2] != ref:
                run.oracle_fail("load_equals_saved", c, f"loaded tensordict differs from the one saved: {first_diff(ref, impl[2])}", "save:replay:differs")
            else:
                run.oracle_ok("load_equals_saved")
            shutil.rmtree(d, ignore_errors=True)
    finally:
        shutil.rmtree(root, ignore_errors=True)
    return n
