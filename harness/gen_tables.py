"""Regenerate lean/TdVerif/Gen/*.lean from /repo's working tree (DESIGN §3.1).

Each generator returns the file text; `write_if_changed` keeps lake's hash trace quiet when
nothing moved.  A source edit that leaves the translatable subset raises `Untranslatable`:
the caller records a broken tie.
"""
from __future__ import annotations

import ast
import importlib
from pathlib import Path

import py2lean
from common import LEAN, REPO

HEADER = "-- GENERATED from /repo by harness/gen_tables.py on every run; do not edit\n"


def write_if_changed(rel: str, text: str) -> bool:
    p = LEAN / "TdVerif" / "Gen" / rel
    p.parent.mkdir(parents=True, exist_ok=True)
    if p.exists() and p.read_text() == text:
        return False
    p.write_text(text)
    return True


def lean_str(s: str) -> str:
    return '"' + s.replace("\\", "\\\\").replace('"', '\\"') + '"'


def lean_str_list(xs) -> str:
    return "[" + ", ".join(lean_str(x) for x in xs) + "]"


def gen_pyfuns() -> str:
    import tensordict.utils as U
    importlib.reload  # (the harness process imports the working tree once)
    body = py2lean.translate_function(
        U._slice_indices, "sliceIndices",
        [("index_start", "opt"), ("index_stop", "opt"), ("index_step", "opt"), ("len", "int")], 3)
    # the dual pair `infer_size_impl` (eager: base.py view/unflatten, _lazy.py) / `_infer_size_impl`
    # (the copy that torch.compile does not skip: _td.py view/reshape, _lazy.py _view, tensorclass.py)
    for fn, nm in ((U.infer_size_impl, "inferSizeImpl"), (U._infer_size_impl, "inferSizeImplLocal")):
        body += "\n" + py2lean.translate_function(fn, nm, [("shape", "list"), ("numel", "int")], 0)
    # `_maybe_correct_neg_dim(dim, shape, ndim=None)`: used by every dim-taking op on both paths; `shape` is
    # declared a list (calls with shape=None differ only in the text of the IndexError message)
    body += "\n" + py2lean.translate_function(
        U._maybe_correct_neg_dim, "maybeCorrectNegDim", [("dim", "int"), ("shape", "list"), ("ndim", "opt")], 1)
    # translator self-test functions (harness/c18_selftest_funcs.py): every construct of the subset on operands the
    # library functions never see; compared with CPython on grids by check_C18 (stream `translator_selftest`)
    import c18_selftest_funcs as F
    body += "\n" + py2lean.translate_function(F.st_divmod, "stDivmod", [("a", "int"), ("b", "int")], 2)
    body += "\n" + py2lean.translate_function(F.st_clamp, "stClamp", [("x", "int"), ("lo", "int"), ("hi", "int")], 1)
    body += "\n" + py2lean.translate_function(F.st_opt, "stOpt", [("x", "opt"), ("d", "int")], 1)
    body += "\n" + py2lean.translate_function(F.st_guard, "stGuard", [("a", "int"), ("b", "int")], 1)
    body += "\n" + py2lean.translate_function(F.st_loop, "stLoop", [("xs", "list"), ("k", "int")], 0)
    return HEADER + "namespace TdVerif.Gen\n\n" + body + "\nend TdVerif.Gen\n"


def module_ast(rel: str) -> ast.Module:
    return ast.parse((REPO / rel).read_text())


ALL = {"PyFuns.lean": gen_pyfuns}


def dual_helper_names() -> list[str]:
    """every function of the library that contains an `is_compiling()` test (a compile-only code path)"""
    out = []
    for f in sorted((REPO / "tensordict").rglob("*.py")):
        tree = ast.parse(f.read_text())
        rel = str(f.relative_to(REPO / "tensordict"))

        class V(ast.NodeVisitor):
            def __init__(self):
                self.stack = []

            def visit_ClassDef(self, n):
                self.stack.append(n.name)
                self.generic_visit(n)
                self.stack.pop()

            def visit_FunctionDef(self, n):
                self.stack.append(n.name)
                for ch in ast.walk(n):
                    if isinstance(ch, ast.Call):
                        fn = ch.func
                        nm = fn.id if isinstance(fn, ast.Name) else (fn.attr if isinstance(fn, ast.Attribute) else None)
                        if nm == "is_compiling":
                            out.append(rel + ":" + ".".join(self.stack))
                            break
                self.generic_visit(n)
                self.stack.pop()

            visit_AsyncFunctionDef = visit_FunctionDef

        V().visit(tree)
    return sorted(set(out))


def gen_dual_helpers() -> str:
    names = dual_helper_names()
    return (HEADER + "namespace TdVerif.Gen\n\n/-- functions containing an `is_compiling()` branch, from the current source -/\n"
            "def dualHelpers : List String := [\n  " + ",\n  ".join(lean_str(n) for n in names) + "]\n\nend TdVerif.Gen\n")


ALL["DualHelpers.lean"] = gen_dual_helpers
