"""C08 transcription obligations: the functions the Lean model transcribes, pinned by the shape of
their syntax tree.

The model (Model/C08Lazy.lean, C08Lazy2.lean, C08Apply.lean, C08Index.lean) is a hand transcription
of the functions listed in TRANSCRIBED.  The correspondence streams tie the two on sampled inputs;
this module ties them *structurally*: every run re-reads the source with `ast`, strips what cannot
change behaviour (docstrings, string literals such as error messages, annotations), and compares a
digest of the remaining tree with the digest recorded when the function was (re-)transcribed
(harness/c08_transcribed.json).  An edit of a transcribed function is therefore noticed even when no
sampled input behaves differently: the check then reports `broken correspondence [transcription]`
naming the function and the Lean definitions to re-read; after re-transcribing (or convincing
oneself that the model still says the same) run `python harness/c08_ast.py --update`.
"""
from __future__ import annotations

import ast
import hashlib
import json
import os
import sys

HERE = os.path.dirname(os.path.abspath(__file__))
TABLE = os.path.join(HERE, "c08_transcribed.json")

# (file, qualified name) -> the Lean definitions that transcribe it
TRANSCRIBED = {
    ("tensordict/_lazy.py", "LazyStackedTensorDict._split_index"): "C08Lazy: splitStep / splitLoop / splitIndex (Lemmas: splitRec)",
    ("tensordict/_lazy.py", "LazyStackedTensorDict.__getitem__"): "C08Lazy: lazyGetCore / lazyGetCoreM / lazyGet; C08Lazy2: lazyGetCore2",
    ("tensordict/_lazy.py", "LazyStackedTensorDict.__setitem__"): "C08Lazy: lazySetCore / lazySet (memberSet, writeAll)",
    ("tensordict/_lazy.py", "LazyStackedTensorDict._set_at_str"): "C08Lazy: lazySetCore with a one-key value",
    ("tensordict/_lazy.py", "LazyStackedTensorDict._get_str"): "C08Lazy: lazyGetStr",
    ("tensordict/_lazy.py", "LazyStackedTensorDict._set_str"): "C08Lazy: lazySetStr",
    ("tensordict/_lazy.py", "LazyStackedTensorDict._unbind"): "C08Lazy: lazyUnbind",
    ("tensordict/_lazy.py", "LazyStackedTensorDict._unsqueeze"): "C08Lazy: lazyUnsqueeze",
    ("tensordict/_lazy.py", "LazyStackedTensorDict._squeeze"): "C08Lazy: lazySqueeze",
    ("tensordict/_lazy.py", "LazyStackedTensorDict._transpose"): "C08Lazy: lazyTranspose (rollPerm)",
    ("tensordict/_lazy.py", "LazyStackedTensorDict._permute"): "C08Lazy: lazyPermute",
    ("tensordict/_lazy.py", "LazyStackedTensorDict.insert"): "C08Lazy: lazyInsert",
    ("tensordict/_lazy.py", "LazyStackedTensorDict.append"): "C08Lazy: lazyAppend",
    ("tensordict/_lazy.py", "LazyStackedTensorDict.update_"): "C08Lazy: lazyUpdate_",
    ("tensordict/_lazy.py", "LazyStackedTensorDict._apply_nest"): "C08Apply: lazyApply1 / lazyApply2",
    ("tensordict/_lazy.py", "LazyStackedTensorDict._compute_batch_size"): "C08Lazy: Lazy.batch",
    ("tensordict/_lazy.py", "LazyStackedTensorDict._dispatch_comparison"): "C08Apply: lazyCompare / lazyCompareScalar",
    ("tensordict/_lazy.py", "LazyStackedTensorDict.all"): "C08Reduce: lazyAll / lazyReduceEntries",
    ("tensordict/_lazy.py", "LazyStackedTensorDict.any"): "C08Reduce: lazyAny / lazyReduceEntries",
    ("tensordict/_lazy.py", "LazyStackedTensorDict._cast_reduction"): "C08Reduce: lazyReduceEntries (the to_tensordict path)",
    ("tensordict/_lazy.py", "LazyStackedTensorDict.split"): "C08Resize: lazySplit / lazySplitInt",
    ("tensordict/_lazy.py", "LazyStackedTensorDict.repeat_interleave"): "C08Resize: lazyRepeatInterleave",
    ("tensordict/_lazy.py", "LazyStackedTensorDict._repeat"): "C08Resize: lazyRepeat",
    ("tensordict/_lazy.py", "LazyStackedTensorDict.expand"): "C08Resize: lazyExpand",
    ("tensordict/base.py", "TensorDictBase.repeat"): "C08Resize: lazyRepeat (argument checks)",
    ("tensordict/_lazy.py", "LazyStackedTensorDict._stack_onto_"): "C08Out: lazyStackOnto",
    ("tensordict/_torch_func.py", "_lazy_cat"): "C08Lazy: lazyCat; C08Out: lazyCatOut",
    ("tensordict/_torch_func.py", "_stack"): "C08Lazy: lazyStackOp (the branch over lazy operands)",
    ("tensordict/_lazy.py", "LazyStackedTensorDict.update_at_"): "C08UpdateAt: lazyUpdateAt",
    ("tensordict/_lazy.py", "LazyStackedTensorDict._view"): "C08View: lazyView (flatten branch: iterUnbindR / resUnbind)",
    ("tensordict/_lazy.py", "LazyStackedTensorDict.flatten"): "C08View: lazyFlatten",
    ("tensordict/utils.py", "_check_is_flatten"): "C08View: checkIsFlatten",
    ("tensordict/utils.py", "_maybe_correct_neg_dim"): "C08View: lazyFlatten (dim normalisation)",
    ("tensordict/utils.py", "convert_ellipsis_to_idx"): "C08Index: convertEllipsis",
    ("tensordict/utils.py", "_getitem_batch_size"): "C08Lazy: getitemBatchSize",
}


class _Strip(ast.NodeTransformer):
    """remove what cannot change behaviour: docstrings, string literals, annotations"""

    def _body(self, node):
        if node.body and isinstance(node.body[0], ast.Expr) and isinstance(getattr(node.body[0], "value", None), ast.Constant) \
                and isinstance(node.body[0].value.value, str):
            node.body = node.body[1:] or [ast.Pass()]
        return node

    def visit_FunctionDef(self, node):
        node = self._body(node)
        node.returns = None
        for a in node.args.args + node.args.kwonlyargs + node.args.posonlyargs + [x for x in (node.args.vararg, node.args.kwarg) if x]:
            a.annotation = None
        self.generic_visit(node)
        return node

    visit_AsyncFunctionDef = visit_FunctionDef

    def visit_AnnAssign(self, node):
        self.generic_visit(node)
        if node.value is None:
            return ast.Pass()
        return ast.Assign(targets=[node.target], value=node.value)

    def visit_Constant(self, node):
        if isinstance(node.value, str):
            return ast.Constant(value="<str>")
        return node

    def visit_JoinedStr(self, node):
        return ast.Constant(value="<str>")


def _find(tree, qual):
    parts = qual.split(".")
    body = tree.body
    node = None
    for p in parts:
        cands = [n for n in body if isinstance(n, (ast.FunctionDef, ast.AsyncFunctionDef, ast.ClassDef)) and n.name == p]
        if not cands:
            return None
        node = cands[-1]          # the last definition wins, as at import time
        body = node.body
    return node


def digest(repo, rel, qual):
    with open(os.path.join(repo, rel)) as f:
        tree = ast.parse(f.read())
    node = _find(tree, qual)
    if node is None:
        return None
    node = _Strip().visit(node)
    return hashlib.sha1(ast.dump(node, annotate_fields=False, include_attributes=False).encode()).hexdigest()[:16]


def current(repo):
    return {f"{rel}::{qual}": digest(repo, rel, qual) for (rel, qual) in TRANSCRIBED}


def pinned():
    with open(TABLE) as f:
        return json.load(f)


def obligations(run, repo):
    """one correspondence comparison per transcribed function"""
    pins = pinned()
    now = current(repo)
    for (rel, qual), lean in TRANSCRIBED.items():
        k = f"{rel}::{qual}"
        case = {"function": k, "transcribed_by": lean,
                "meaning": "the syntax tree of this function (docstrings, string literals, annotations stripped) differs from the one "
                           "the Lean model was transcribed from: re-read the model against the code, then `python harness/c08_ast.py --update`"}
        run.case(("transcription", k))
        run.corr("transcription", case, ["digest", now[k]], ["digest", pins.get(k)])


if __name__ == "__main__":
    repo = os.environ.get("VERIF_REPO", "/repo")
    now = current(repo)
    if "--update" in sys.argv:
        missing = [k for k, v in now.items() if v is None]
        if missing:
            sys.exit(f"not found in the source: {missing}")
        with open(TABLE, "w") as f:
            json.dump(now, f, indent=1, sort_keys=True)
        print(f"pinned {len(now)} functions of {repo}")
    else:
        pins = pinned()
        for k, v in now.items():
            print("ok  " if pins.get(k) == v else "DIFF", k, v)
