"""C17: regenerate lean/TdVerif/Gen/CtxTable.lean from the working tree (DESIGN §3.1).

Extracted with `ast` (nothing is imported from tensordict here):
  * every method decorated `@_as_context_manager(...)` in tensordict/*.py and tensordict/nn/*.py:
    (file, class, method, decorator argument, parameter names incl. *varargs/**kwargs spelling);
  * the keys assigned into `LAST_OP_MAPS[...]` in tensordict/_contextlib.py and the function bound to each.
"""
from __future__ import annotations

import ast

from common import REPO
from gen_tables import lean_str, lean_str_list, write_if_changed

HEADER = "-- GENERATED from the tensordict working tree by harness/c17_gen.py on every run; do not edit\n"
FILES = ["tensordict/base.py", "tensordict/_td.py", "tensordict/_lazy.py", "tensordict/persistent.py",
         "tensordict/nn/params.py", "tensordict/tensorclass.py", "tensordict/_unbatched.py"]


class Untranslatable(Exception):
    pass


def _params(fn: ast.FunctionDef):
    a = fn.args
    out = [x.arg for x in a.posonlyargs + a.args if x.arg != "self"]
    if a.vararg:
        out.append("*" + a.vararg.arg)
    out += [x.arg for x in a.kwonlyargs]
    if a.kwarg:
        out.append("**" + a.kwarg.arg)
    return out


def extract():
    ops = []
    for rel in FILES:
        p = REPO / rel
        if not p.exists():
            continue
        tree = ast.parse(p.read_text())
        for cls in [n for n in ast.walk(tree) if isinstance(n, ast.ClassDef)]:
            for fn in cls.body:
                if not isinstance(fn, ast.FunctionDef):
                    continue
                for dec in fn.decorator_list:
                    if isinstance(dec, ast.Call) and isinstance(dec.func, ast.Name) and dec.func.id == "_as_context_manager":
                        attr = ""
                        if dec.args:
                            if not isinstance(dec.args[0], ast.Constant):
                                raise Untranslatable(f"{rel}:{fn.lineno}: non-literal decorator argument")
                            attr = str(dec.args[0].value)
                        ops.append((rel, cls.name, fn.name, attr, _params(fn)))
                    elif isinstance(dec, ast.Name) and dec.id == "_as_context_manager":
                        raise Untranslatable(f"{rel}:{fn.lineno}: bare @_as_context_manager")
    ctx = ast.parse((REPO / "tensordict/_contextlib.py").read_text())
    maps = []
    for n in ast.walk(ctx):
        if isinstance(n, ast.Assign) and len(n.targets) == 1 and isinstance(n.targets[0], ast.Subscript):
            t = n.targets[0]
            if isinstance(t.value, ast.Name) and t.value.id == "LAST_OP_MAPS":
                if not (isinstance(t.slice, ast.Constant) and isinstance(n.value, ast.Name)):
                    raise Untranslatable(f"_contextlib.py:{n.lineno}: LAST_OP_MAPS entry is not `[literal] = name`")
                maps.append((t.slice.value, n.value.id))
    if not ops or not maps:
        raise Untranslatable("no @_as_context_manager methods / LAST_OP_MAPS entries found")
    return ops, maps


def gen_ctx_table() -> str:
    ops, maps = extract()
    names = sorted({o[2] for o in ops})
    base = {o[2]: o[4] for o in ops if o[1] == "TensorDictBase"}
    lines = [HEADER, "namespace TdVerif.Gen\n"]
    lines.append("/-- (file, class, method, decorator argument) of every `@_as_context_manager` method -/")
    lines.append("def ctxOps : List (String × String × String × String) := [")
    lines.append(",\n".join(f"  ({lean_str(r)}, {lean_str(c)}, {lean_str(m)}, {lean_str(a)})" for r, c, m, a, _ in ops))
    lines.append("]\n")
    lines.append("/-- distinct method names usable as context managers -/")
    lines.append(f"def ctxOpNames : List String := {lean_str_list(names)}\n")
    lines.append("/-- keys of `LAST_OP_MAPS` (tensordict/_contextlib.py) with the function registered for each -/")
    lines.append("def lastOpMaps : List (String × String) := [" + ", ".join(f"({lean_str(k)}, {lean_str(f)})" for k, f in maps) + "]\n")
    lines.append("/-- parameter names of the `TensorDictBase` definition of each context-manager method -/")
    lines.append("def ctxSignatures : List (String × List String) := [")
    lines.append(",\n".join(f"  ({lean_str(m)}, {lean_str_list(base[m])})" for m in sorted(base)))
    lines.append("]\n")
    lines.append("/-- the decorator argument per method: the attribute whose change decides whether the call is recorded -/")
    attrs = sorted({(o[2], o[3]) for o in ops})
    lines.append("def ctxAttr : List (String × String) := [" + ", ".join(f"({lean_str(m)}, {lean_str(a)})" for m, a in attrs) + "]\n")
    lines.append("end TdVerif.Gen\n")
    return "\n".join(lines)


def regenerate() -> bool:
    return write_if_changed("CtxTable.lean", gen_ctx_table())


if __name__ == "__main__":
    print(gen_ctx_table())
