"""C13 — `to_module(use_state_dict=True)` with load_state_dict pre-hooks: the `state_dict_hooks` stream.

Model: `applyHooks` / `swapSDHook` (Model/C13Module.lean) — the hooks as one function of the flattened key and the tensor,
followed by `convert_type`; the with-block inverts with the same call, so the hooks run again on the tensors that are put back
(recorded finding C13-state-dict-hook-reapplied-on-exit, counter-witness theorem state_dict_hook_reapplied_counterexample).
Here the transcription is compared with the library: random module graphs, valid parameter tensordicts, and on a random subset
of the (module, name) pairs a pre-hook that replaces the entry by a *new* tensor (value + 500000). Objects are identified by
value (every harness tensor holds its own number), the three dicts of every module are compared, in order, inside the
block and after the second call."""
import torch
import torch.nn as nn

import c13_graph as G
from common import parse_sx, time_limit

OFF = 500000


def snapshot_by_value(mods):
    out = ["mods"]
    for m in mods:
        def ent(n, v):
            if v is None:
                return [n, "none"]
            return [n, int(round(float(v.detach().reshape(-1)[0].item()))), "p" if isinstance(v, nn.Parameter) else "t"]
        ps = ["params"] + [ent(n, v) for n, v in m._parameters.items()]
        bs = ["buffers"] + [ent(n, v) for n, v in m._buffers.items()]
        ds = ["plain"] + [ent(n, v) for n, v in m.__dict__.items() if isinstance(v, torch.Tensor)]
        out.append(["mod", ps, bs, ds])
    return out


def leaf_sites(graph, tree, m, path=()):
    """(module index, name, full path) of every leaf of the tree"""
    kids = {nm: k for nm, k in graph["mods"][m]["kids"]}
    for nm, v in tree:
        if v[0] == "leaf":
            yield (m, nm, path + (nm,))
        elif kids.get(nm) is not None:
            yield from leaf_sites(graph, v[1], kids[nm], path + (nm,))


def make_hook(names):
    def hook(state_dict, prefix, local_metadata, strict, missing_keys, unexpected_keys, error_msgs):
        for nm in names:
            old = state_dict.get(prefix + nm, None)
            if old is not None:
                state_dict[prefix + nm] = torch.tensor([float(old.detach().reshape(-1)[0].item()) + OFF], dtype=torch.float64)
    return hook


def run_sdhook(run, drv, ask, rng):
    n = 200 if run.tier == "quick" else 2000
    reqs, ctx = [], []
    for _ in range(n):
        graph = G.gen_graph(rng)
        world = G.World(graph["kinds"])
        tree = G.gen_tree(rng, graph, world, 0)
        sites = list(leaf_sites(graph, tree, 0))
        p = rng.choice([0.0, 0.3, 0.7])
        hooked = {(m, nm) for m, nm, _ in sites if rng.random() < p}
        paths = sorted({path for m, nm, path in sites if (m, nm) in hooked})
        gsx, tsx = G.graph_sx(graph, world), G.tree_sx(tree, world)
        psx = "(paths" + "".join(" (" + " ".join(path) + ")" for path in paths) + ")"
        reqs.append(f"(c13.roundtrip_sd_hook {gsx} 0 {tsx} {psx})")
        ctx.append((graph, world, tree, hooked, gsx, tsx, psx))
    answers = ask(drv, reqs)
    for i, (graph, world, tree, hooked, gsx, tsx, psx) in enumerate(ctx):
        model = parse_sx(answers[i])
        run.case(("sd_hook", gsx, tsx, psx), nontrivial=bool(hooked))
        run.count("sd_hook.hooked", min(len(hooked), 4))
        mods = G.build(graph, world)
        by_mod = {}
        for m, nm in hooked:
            by_mod.setdefault(m, []).append(nm)
        for m, names in by_mod.items():
            mods[m]._register_load_state_dict_pre_hook(make_hook(sorted(names)))
        td = G.make_td(tree, world)
        try:
            with time_limit(60):
                s = td.to_module(mods[0], use_state_dict=True)
                inside = snapshot_by_value(mods)
                s.to_module(mods[0], use_state_dict=True)
            impl = ["ok", inside, snapshot_by_value(mods)]
        except TimeoutError:
            raise
        except Exception as e:  # noqa: BLE001
            impl = ["raised", type(e).__name__]
        run.corr("state_dict_hooks", [gsx, tsx, psx], impl, model)
        if i < 2:
            run.sample({"stream": "state_dict_hooks", "graph": gsx, "params": tsx, "hooked": psx, "model": answers[i][:400]})
