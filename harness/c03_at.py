"""C03 — the per-entry index API: `td.get_at(key, idx)`, `td.set_at_(key, value, idx)`, `td.update_at_({key: value}, idx)`.

Here the index addresses the ENTRY itself (all its dims, no Ellipsis conversion, no dim check): `_get_at_str` is `entry[idx]`,
`TensorDict._set_at_str` is `entry[idx] = value` (`_set_item`), so the model answer is TorchSpec on the entry's shape
(`c03.torch` / `c03.torchset`, i.e. `Td.leafGet` / `TorchSpec.setIndex`, the same functions the theorems about `td[idx]` and
`td[idx] = v` reduce to). Correspondence + the property oracle (torch on a clone of the entry; every other entry untouched).
Nested-tuple indices of `set_at_` (`_sub_index`, documented as "multiple indexing") are judged by the oracle only, against
torch's own chain `entry[i1][i2].copy_(value)`."""
from __future__ import annotations

import json

import numpy as np
import torch

import c03_gen as G
import c03_streams as S
import c03_write as W
from common import err_class, parse_sx, time_limit

TL = S.TL


def _others_untouched(td, spec, key):
    bad = []
    for k, shape, _ in W.leaf_keys(spec):
        if k != key and not torch.equal(td.get(k), S.prov(shape)):
            bad.append(list(k))
    return bad


def at_api(run, drv):
    rng = run.rng
    n = 1500 if run.tier == "quick" else 10000
    cases = []
    for _ in range(n):
        bs = G.gen_bs(rng)
        spec = W.gen_write_spec(rng, bs)
        key, shape, _nf = rng.choice(W.leaf_keys(spec))
        idx = G.gen_index_adv(rng, shape) if rng.random() < 0.25 else G.gen_index(rng, shape, p_bad=0.05, p_overrun=0.05)
        if sum(1 for t in G.items_of(idx) if t == G.ELL) > 1:
            continue
        try:
            rs = list(torch.zeros(shape)[G.index_py(idx)].shape)
        except Exception:
            rs = [rng.randint(1, 3) for _ in range(rng.randint(0, 2))]
        u = rng.random()
        if u < 0.4:
            value = ("scalar",)
        elif u < 0.75:
            value = ("tensor", rs)
        elif u < 0.9:
            k = rng.randint(0, len(rs))
            value = ("tensor", [1 if rng.random() < 0.3 else s for s in rs[k:]])
        else:
            value = ("tensor", [rng.randint(0, 3) for _ in range(rng.randint(1, 3))])
        mode = rng.choice(["set_at_", "set_at_", "update_at_"])
        if mode == "update_at_" and idx == ("tuple", []):
            # `update_at_(d, ())` is by design a shortcut into `update_` (whole-entry copy_ semantics: a value with extra leading
            # 1-dims is refused where `entry[()] = value` strips them) — another property's contract, not an indexed write
            mode = "set_at_"
            run.count("at.update_at_", "empty-index-is-update_ (not judged)")
        cases.append((spec, key, shape, idx, value, mode, rng.random() < 0.15))
    a_get = S.ask_chunked(drv, [f"(c03.torch {S.shape_sx('shape', shape)} {G.index_sx(idx)})" for _, _, shape, idx, _, _, _ in cases])
    a_set = S.ask_chunked(drv, [f"(c03.torchset {S.shape_sx('shape', shape)} {G.index_sx(idx)} {S.shape_sx('v', W.value_shape(v))})"
                                for _, _, shape, idx, v, _, _ in cases])
    for (spec, key, shape, idx, value, mode, as_np), ag, aw in zip(cases, a_get, a_set):
        run.case(("at", json.dumps(spec, sort_keys=True), json.dumps(list(key)), G.index_sx(idx), json.dumps(value), mode, as_np))
        py = G.index_py(idx, as_numpy=as_np)
        tpy = G.index_py(idx)
        case = {"mode": "at", "td": spec, "key": list(key), "idx": idx, "idx_str": G.index_json(idx), "numpy": as_np}
        # ------------------------------------------------------------------ get_at
        m = parse_sx(ag)
        if S.outcome(m) == "ok":
            m = ["ok", S.fix_model_leaf(m[1], G.numel(shape))]
        td = S.build_td(spec)
        try:
            with time_limit(TL):
                r = td.get_at(key, py)
            impl = ["ok", S.leaf_answer(td.get(key), r)]
        except TimeoutError:
            raise
        except Exception as e:
            impl = ["err", err_class(e)]
        run.count("at.get", S.outcome(impl))
        # the entry API hands the index object to torch as it is: the reference is torch on that very object. torch's own treatment
        # of numpy objects differs from tensors in corners (a numpy mask of rank 2 after an Ellipsis counts as one dim when the
        # Ellipsis is expanded): those cases are judged by the oracle only, the model speaks about tensors
        try:
            want = S.prov(shape)[py]
            werr = None
        except Exception as e:
            want, werr = None, err_class(e)
        quirk = False
        if as_np:
            try:
                wt = S.prov(shape)[tpy]
                quirk = werr is not None or list(wt.shape) != list(want.shape) or not torch.equal(wt, want)
            except Exception:
                quirk = werr is None
        if quirk:
            run.count("at.torch-numpy-quirk", G.stage_of(idx))
        elif S.outcome(impl) == "err" and S.outcome(m) == "err":
            run.corr("get_at", None, "err", "err")
        else:
            run.corr("get_at", {"td": spec, "key": list(key), "idx": G.index_json(idx), "numpy": as_np}, impl, m)
        if werr is not None:
            if S.outcome(impl) == "ok":
                run.oracle_fail("at-api", dict(case, op="get_at"), f"torch rejects entry[idx] ({werr}); get_at returned a tensor", "at:get_at:accepts-rejected")
            else:
                run.oracle_ok("at-api")
        elif S.outcome(impl) == "err":
            run.oracle_fail("at-api", dict(case, op="get_at"), f"torch accepts entry[idx]; get_at raised {impl[1]}", f"at:get_at:raises:{impl[1]}")
        elif list(r.shape) != list(want.shape) or not torch.equal(r, want):
            run.oracle_fail("at-api", dict(case, op="get_at"), f"get_at: shape {list(r.shape)} content {r.reshape(-1).tolist()[:12]}; torch: shape {list(want.shape)} content {want.reshape(-1).tolist()[:12]}", "at:get_at:values")
        else:
            run.oracle_ok("at-api")
        # ------------------------------------------------------------------ set_at_ / update_at_
        mw = parse_sx(aw)
        td = S.build_td(spec)
        v = W.value_py(value)
        if value[0] == "scalar" and mode == "update_at_":
            v = torch.tensor(-1)          # update_at_ wants tensors
        try:
            with time_limit(TL):
                if mode == "set_at_":
                    td.set_at_(key, v, py)
                else:
                    td.update_at_({key: v}, py)
            implw = ["ok"] + W.written_map(td.get(key))
        except TimeoutError:
            raise
        except Exception as e:
            implw = ["err", err_class(e)]
        run.count("at." + mode, S.outcome(implw))
        ref = S.prov(shape).clone()
        try:
            ref[py] = v
            terr = None
        except Exception as e:
            terr = err_class(e)
        try:
            sel = S.prov(shape)[tpy].reshape(-1).tolist()
            dup = len(set(sel)) != len(sel) and G.numel(W.value_shape(value)) > 1
        except Exception:
            dup = False
        ci, cm = implw, mw
        if dup and S.outcome(ci) == "ok" and S.outcome(cm) == "ok":
            ci = ["ok"] + [-1 if x == -1 else 0 for x in ci[1:]]
            cm = ["ok"] + [-1 if x == -1 else 0 for x in cm[1:]]
        numpy_bare = as_np and isinstance(py, (np.ndarray, np.generic)) and mode == "update_at_"
        if (numpy_bare and S.outcome(implw) == "err" and terr is None) or quirk:
            # known finding (see below) / torch's own numpy corner: not a statement about the model
            pass
        elif S.outcome(ci) == "err" and S.outcome(cm) == "err":
            run.corr(mode, None, "err", "err")
        else:
            run.corr(mode, {"td": spec, "key": list(key), "idx": G.index_json(idx), "value": list(value), "numpy": as_np}, ci, cm)
        wcase = dict(case, op=mode, value=list(value))
        if terr is not None:
            if S.outcome(implw) == "ok":
                run.oracle_fail("at-api", wcase, f"torch rejects entry[idx] = value ({terr}); {mode} accepted it", f"at:{mode}:accepts-rejected")
            else:
                run.oracle_ok("at-api")
        elif S.outcome(implw) == "err":
            fp = f"at:{mode}:raises:{implw[1]}" + (":bare-numpy-index" if numpy_bare else "")
            run.oracle_fail("at-api", wcase, f"torch accepts entry[idx] = value; {mode} raised {implw[1]}", fp)
        else:
            got = td.get(key)
            same = torch.equal(got < 0, ref < 0) if dup else torch.equal(got, ref)
            bad = _others_untouched(td, spec, key)
            if not same:
                run.oracle_fail("at-api", wcase, f"{mode}: entry {got.reshape(-1).tolist()[:16]} expected {ref.reshape(-1).tolist()[:16]}", f"at:{mode}:values")
            elif bad:
                run.oracle_fail("at-api", wcase, f"{mode} on {list(key)} changed other entries: {bad}", f"at:{mode}:frame")
            else:
                run.oracle_ok("at-api")

    # ---------------------------------------------------------------------- nested-tuple index of set_at_ (`_sub_index` branch):
    # Td.setAtMulti + oracle = torch's own chain entry[i1][i2][()].copy_(value)
    import warnings
    nm = 400 if run.tier == "quick" else 3000
    mcases = []
    for _ in range(nm):
        bs = G.gen_bs(rng, sizes=(1, 2, 3, 4))
        spec = W.gen_write_spec(rng, bs)
        key, shape, _nf = rng.choice(W.leaf_keys(spec))
        want_basic = rng.random() < 0.6       # both selections views: the value reaches the entry
        i1 = G.gen_index(rng, shape, p_bad=0.03, p_overrun=0.03) if rng.random() < 0.8 else G.gen_index_adv(rng, shape)
        for _try in range(8):
            if not want_basic or G.n_advanced(i1) == 0:
                break
            i1 = G.gen_index(rng, shape, p_bad=0.03, p_overrun=0.03)
        try:
            s1 = list(torch.zeros(shape)[G.index_py(i1)].shape)
        except Exception:
            s1 = [2]
        i2 = G.gen_index(rng, s1, p_bad=0.03, p_overrun=0.03) if rng.random() < 0.85 else G.gen_index_adv(rng, s1)
        for _try in range(8):
            if not want_basic or G.n_advanced(i2) == 0:
                break
            i2 = G.gen_index(rng, s1, p_bad=0.03, p_overrun=0.03)
        if any(sum(1 for t in G.items_of(i) if t == G.ELL) > 1 for i in (i1, i2)):
            continue
        p1, p2 = G.index_py(i1), G.index_py(i2)
        p1 = p1 if isinstance(p1, tuple) else (p1,)
        p2 = p2 if isinstance(p2, tuple) else (p2,)
        if not p1:
            continue                  # ((), i2): not a nested-tuple index for `_set_at_str`'s test... it is, but `()` first is `td[()]`'s business
        try:
            s2 = list(torch.zeros(s1)[G.index_py(i2)].shape)
        except Exception:
            s2 = [2]
        u = rng.random()
        v = [] if u < 0.5 else (s2 if u < 0.75 else (s2[1:] if u < 0.85 else ([1] + s2 if u < 0.92 else [1 if rng.random() < 0.5 else x for x in s2])))
        mcases.append((spec, key, shape, i1, i2, p1, p2, v))
    answers = S.ask_chunked(drv, [f"(c03.setatmulti {S.shape_sx('shape', shape)} {G.index_sx(i1)} {G.index_sx(i2)} {S.shape_sx('v', v)})"
                                  for _, _, shape, i1, i2, _, _, v in mcases])
    for (spec, key, shape, i1, i2, p1, p2, v), a in zip(mcases, answers):
        run.case(("at-multi", json.dumps(spec, sort_keys=True), json.dumps(list(key)), G.index_sx(i1), G.index_sx(i2), json.dumps(v)))
        case = {"mode": "at-multi", "td": spec, "key": list(key), "idx": i1, "idx_str": f"({G.index_json(i1)}, {G.index_json(i2)})", "value_shape": v}
        val = W.value_tensor(v)
        ref = S.prov(shape).clone()
        try:
            ref[p1][p2][()].copy_(val)
            terr = None
        except Exception as e:
            terr = err_class(e)
        td = S.build_td(spec)
        try:
            with time_limit(TL), warnings.catch_warnings():
                warnings.simplefilter("ignore")
                td.set_at_(key, val, (p1, p2))
            impl = ["ok"] + W.written_map(td.get(key))
        except TimeoutError:
            raise
        except Exception as e:
            impl = ["err", err_class(e)]
        ierr = impl[1] if S.outcome(impl) == "err" else None
        run.count("at.multi", "err" if ierr else ("written" if any(x != -1 for x in impl[1:]) else "nothing-written"))
        m = parse_sx(a)
        if ierr is not None and S.outcome(m) == "err":
            run.corr("set_at_multi", None, "err", "err")
        else:
            run.corr("set_at_multi", {"td": spec, "key": list(key), "i1": G.index_json(i1), "i2": G.index_json(i2), "value_shape": v}, impl, m)
        if terr is not None:
            if ierr is None:
                run.oracle_fail("at-api", case, f"torch rejects entry[i1][i2].copy_(v) ({terr}); set_at_ accepted the nested index", "at:multi:accepts-rejected")
            else:
                run.oracle_ok("at-api")
        elif ierr is not None:
            run.oracle_fail("at-api", case, f"torch accepts entry[i1][i2].copy_(v); set_at_ raised {ierr}", f"at:multi:raises:{ierr}")
        elif not torch.equal(td.get(key), ref) or _others_untouched(td, spec, key):
            run.oracle_fail("at-api", case, f"set_at_ with (i1, i2): entry {td.get(key).reshape(-1).tolist()[:16]} expected {ref.reshape(-1).tolist()[:16]}", "at:multi:values")
        else:
            run.oracle_ok("at-api")
