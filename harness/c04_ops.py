"""C04 — shared pieces: key universe, spellings, value/op generators, the implementation executor,
the plain-nested-dict oracle, observers and S-expression encoders for the Lean driver.

Value skeletons (JSON-able):   ["t", id] tensor leaf | ["n", id] non-tensor leaf | ["d", [[key, skel], ...]] node
Paths are tuples of str; a *spelling* of a path is a str or an arbitrarily nested tuple that unravels to it.
"""
from __future__ import annotations

import warnings

import torch

from common import err_class, time_limit

warnings.filterwarnings("ignore")

NAMES = ["a", "b", "c", "a.b", "b.c"]
# the property's universe (prefixes of one another, keys containing the separator) + a few more
UNIVERSE = [("a",), ("b",), ("a", "b"), ("a", "b", "c"), ("a.b",), ("a", "b.c"), ("c",), ("b", "c"), ("a", "c"),
            ("a.b", "c"), ("b.c",), ("b", "a"), ("a", "b", "c", "a"), ("c", "a", "b")]
CORE = UNIVERSE[:6]


# --------------------------------------------------------------------------- generators
def gen_path(rng, maxlen=3):
    r = rng.random()
    if r < 0.62:
        return rng.choice(CORE)
    if r < 0.85:
        return rng.choice(UNIVERSE)
    return tuple(rng.choice(NAMES) for _ in range(rng.randint(1, maxlen)))


def gen_spelling(rng, path, plain=0.5):
    """a random nested-tuple spelling of `path` (never contains an empty tuple)"""
    path = tuple(path)
    if len(path) == 1 and rng.random() < 0.7:
        return path[0]
    if rng.random() < plain:
        return path

    def chunks(p, depth):
        out = []
        i = 0
        while i < len(p):
            n = rng.randint(1, len(p) - i)
            part = p[i:i + n]
            if n == 1 and rng.random() < 0.6:
                out.append(part[0])
            elif depth >= 3 or (len(part) == len(p) and depth > 0 and rng.random() < 0.5):
                out.extend(part)
            else:
                out.append(chunks(part, depth + 1))
            i += n
        return tuple(out)
    return chunks(path, 0)


def unravel(sp):
    """reference flattening of a spelling (independent of the library)"""
    if isinstance(sp, str):
        return (sp,)
    out = ()
    for s in sp:
        out += unravel(s)
    return out


class Ids:
    def __init__(self):
        self.n = 0

    def new(self):
        self.n += 1
        return self.n


def gen_val(rng, ids, depth=0, leaf_only=False):
    r = rng.random()
    if leaf_only or r < 0.55 or depth >= 2:
        return ["n" if rng.random() < 0.2 else "t", ids.new()]
    if r < 0.7:
        return ["d", []]
    ks = rng.sample(NAMES, rng.randint(1, 3))
    return ["d", [[k, gen_val(rng, ids, depth + 1)] for k in ks]]


def gen_bad_key(rng, path):
    """a malformed key (a tuple with an empty tuple or a non-str member) built around a valid path"""
    path = tuple(path)
    return rng.choice([(), path + ((),), path + (1,), (path, 1), (1,), path[:1] + (path[1:] + (2,),)])


def gen_bad_op(rng, ids, state_paths):
    """one operation handed a malformed key (model-vs-code stream only: the property says nothing about them)"""
    p = tuple(rng.choice(state_paths)) if state_paths and rng.random() < 0.7 else gen_path(rng)
    k = gen_bad_key(rng, p)
    r = rng.random()
    if r < 0.2:
        return ["set", k, gen_val(rng, ids, leaf_only=True)]
    if r < 0.3:
        return ["del", k]
    if r < 0.4:
        return ["pop", k, rng.random() < 0.5]
    if r < 0.55:
        return ["rename", k, gen_spelling(rng, gen_path(rng)), False] if rng.random() < 0.5 else ["rename", gen_spelling(rng, p), k, False]
    if r < 0.65:
        return ["setdefault", k, gen_val(rng, ids, leaf_only=True)]
    if r < 0.75:
        return ["update", [[k, gen_val(rng, ids, leaf_only=True)]]]
    if r < 0.88:
        return ["select", [k], rng.random() < 0.5, rng.random() < 0.5]
    return ["exclude", [k], rng.random() < 0.5]


SEPS = [".", ".", ".", ".", "::", "b", "a.", ".b", "b.c", ""]


def gen_sep(rng):
    """mostly ".", sometimes a longer separator, one that is itself a key of the universe, or the empty string"""
    return rng.choice(SEPS)


def gen_op(rng, ids, state_paths):
    """state_paths: list of paths (leaves and nodes) currently in the oracle state — lets ops hit existing entries"""
    def path(p_exist=0.6):
        if state_paths and rng.random() < p_exist:
            return tuple(rng.choice(state_paths))
        return gen_path(rng)

    def sp(p=None, **kw):
        return gen_spelling(rng, p if p is not None else path(), **kw)
    r = rng.random()
    if r < 0.26:
        return ["set", sp(path(0.3)), gen_val(rng, ids)]
    if r < 0.33:
        return ["del", sp()]
    if r < 0.41:
        return ["pop", sp(), rng.random() < 0.5]
    if r < 0.55:
        old = path(0.8)
        q = rng.random()
        if q < 0.25 and len(old) < 4:
            new = old + tuple(rng.choice(NAMES) for _ in range(rng.randint(1, 2)))      # into a descendant
        elif q < 0.45 and len(old) > 1:
            new = old[:rng.randint(1, len(old) - 1)]                                      # onto an ancestor
        elif q < 0.5:
            new = old
        else:
            new = path(0.3)
        return ["rename", sp(old), sp(new), rng.random() < 0.3]
    if r < 0.61:
        return ["setdefault", sp(), gen_val(rng, ids)]
    if r < 0.69:
        n = rng.randint(0, 3)
        items, seen = [], set()
        for _ in range(n):
            s = sp(path(0.4))
            if s not in seen:            # a python dict payload cannot hold the same spelling twice
                seen.add(s)
                items.append([s, gen_val(rng, ids)])
        return ["update", items]
    if r < 0.77:
        n = rng.randint(0, 3)
        return ["select", [sp(path(0.75)) for _ in range(n)], rng.random() < 0.6, rng.random() < 0.5]
    if r < 0.84:
        n = rng.randint(0, 3)
        return ["exclude", [sp(path(0.7)) for _ in range(n)], rng.random() < 0.5]
    if r < 0.885:
        return ["flatten", gen_sep(rng), rng.random() < 0.5]
    if r < 0.93:
        return ["unflatten", gen_sep(rng), rng.random() < 0.5]
    if r < 0.96:
        # split_keys(inplace=True) pops the keys in *set* order (hash order): keys that are prefixes of one
        # another make the outcome depend on PYTHONHASHSEED, so the generator keeps the keys unrelated
        nsets = rng.randint(1, 2)
        used, sets = [], []
        for _ in range(nsets):
            ks = []
            for _ in range(rng.randint(0, 2)):
                p = path(0.8)
                if any(p[:len(q)] == q or q[:len(p)] == p for q in used):
                    continue
                used.append(p)
                ks.append(sp(p))
            sets.append(ks)
        return ["split", sets, rng.random() < 0.5, rng.random() < 0.5]
    if r < 0.98:
        return ["clear"]
    return ["empty"]


# --------------------------------------------------------------------------- implementation side
def build_impl(skel, kind="td"):
    """skeleton -> tensordict value"""
    from tensordict import NonTensorData, TensorDict
    if skel[0] == "t":
        return torch.tensor(skel[1])
    if skel[0] == "n":
        return NonTensorData(skel[1], batch_size=[])
    return TensorDict({k: build_impl(v) for k, v in skel[1]}, batch_size=[])


def build_payload(skel):
    """skeleton -> plain python payload for update (dict for nodes)"""
    from tensordict import NonTensorData
    if skel[0] == "t":
        return torch.tensor(skel[1])
    if skel[0] == "n":
        return NonTensorData(skel[1], batch_size=[])
    return {k: build_payload(v) for k, v in skel[1]}


def skel_of(x):
    """value -> skeleton, through the public mapping API (items() order)"""
    from tensordict import TensorDictBase
    from tensordict.utils import is_non_tensor
    if isinstance(x, torch.Tensor):
        return ["t", int(x.reshape(-1)[0]) if x.numel() else -1]
    if is_non_tensor(x):
        d = x.data if hasattr(x, "data") else x.tolist()
        while isinstance(d, list):
            d = d[0]
        return ["n", int(d)]
    if isinstance(x, TensorDictBase) or hasattr(x, "_tensordict"):
        return ["d", [[k, skel_of(v)] for k, v in x.items()]]
    return ["?", repr(type(x))]


def tc(td):
    return td


def apply_impl(td, op, tlimit=10.0):
    """run one op on the real tensordict. returns (outcome, td_after, result_or_None)
    outcome: ["ok", ret] | ["err", class];  result: for out-of-place ops the returned tensordict(s)"""
    kind = op[0]
    res = None
    try:
        with time_limit(tlimit):
            if kind == "set":
                td.set(op[1], build_impl(op[2]))
                out = ["ok"]
            elif kind == "del":
                td.del_(op[1])
                out = ["ok"]
            elif kind == "pop":
                r = td.pop(op[1], None) if op[2] else td.pop(op[1])
                out = ["ok", "none" if r is None else skel_of(r)]
            elif kind == "rename":
                td.rename_key_(op[1], op[2], safe=op[3])
                out = ["ok"]
            elif kind == "setdefault":
                r = td.setdefault(op[1], build_impl(op[2]))
                out = ["ok", "none" if r is None else skel_of(r)]
            elif kind == "update":
                td.update({k: build_payload(v) for k, v in op[1]})
                out = ["ok"]
            elif kind == "select":
                r = td.select(*op[1], strict=op[2], inplace=op[3])
                out = ["ok"]
                res = None if op[3] else r
            elif kind == "exclude":
                r = td.exclude(*op[1], inplace=op[2])
                out = ["ok"]
                res = None if op[2] else r
            elif kind == "flatten":
                r = td.flatten_keys(op[1], inplace=op[2])
                out = ["ok"]
                res = None if op[2] else r
            elif kind == "unflatten":
                r = td.unflatten_keys(op[1], inplace=op[2])
                out = ["ok"]
                res = None if op[2] else r
            elif kind == "split":
                r = td.split_keys(*op[1], inplace=op[2], strict=op[3])
                out = ["ok"]
                res = list(r)
            elif kind == "clear":
                td.clear()
                out = ["ok"]
            elif kind == "empty":
                res = td.empty()
                out = ["ok"]
            else:
                raise AssertionError(kind)
    except TimeoutError:
        raise
    except Exception as e:  # noqa
        out = ["err", err_class(e) if not isinstance(e, AttributeError) else "attr"]
    return out, res


FLAGS = [(inc, lo, srt, nt) for inc in (False, True) for lo in (False, True) for srt in (False, True) for nt in (False, True)]


def keystr(k):
    return [k] if isinstance(k, str) else list(k)


def observe_impl(td, probes):
    """everything the property lets one observe. probes: list of (path, spelling)"""
    from tensordict.base import _is_leaf_nontensor
    obs = {}
    obs["tree"] = skel_of(td)
    views = {}
    for inc, lo, srt, nt in FLAGS:
        il = _is_leaf_nontensor if nt else None
        tag = f"{int(inc)}{int(lo)}{int(srt)}{int(nt)}"
        try:
            ks = [keystr(k) for k in td.keys(inc, lo, il, sort=srt)]
            its = [[keystr(k), skel_of(v)] for k, v in td.items(inc, lo, il, sort=srt)]
            vs = [skel_of(v) for v in td.values(inc, lo, il, sort=srt)]
            ln = len(td.keys(inc, lo, il, sort=srt)) if (inc or lo or nt) else len(list(td.keys(sort=srt)))
            views[tag] = {"keys": ks, "items": its, "values": vs, "len": ln}
        except Exception as e:  # noqa
            views[tag] = {"err": err_class(e)}
    obs["views"] = views
    mem = []
    for p, sp in probes:
        try:
            m = bool(sp in td)
        except Exception as e:  # noqa
            m = "err:" + (err_class(e) if not isinstance(e, AttributeError) else "attr")
        try:
            mk = bool(sp in td.keys(True))
        except Exception as e:  # noqa
            mk = "err:" + (err_class(e) if not isinstance(e, AttributeError) else "attr")
        try:
            g = td.get(sp, None)
            g = "none" if g is None else skel_of(g)
        except Exception as e:  # noqa
            g = "err:" + (err_class(e) if not isinstance(e, AttributeError) else "attr")
        mem.append([list(p), m, mk, g])
    obs["probe"] = mem
    try:
        obs["is_empty"] = bool(td.is_empty())
    except Exception as e:  # noqa
        obs["is_empty"] = "err:" + err_class(e)
    try:
        obs["to_dict"] = todict_skel(td.to_dict())
    except Exception as e:  # noqa
        obs["to_dict"] = "err:" + err_class(e)
    return obs


def todict_skel(d):
    if isinstance(d, dict):
        return ["d", [[k, todict_skel(v)] for k, v in d.items()]]
    if isinstance(d, torch.Tensor):
        return ["t", int(d)]
    return ["n", int(d)]


# --------------------------------------------------------------------------- the plain nested dict oracle
class OErr(Exception):
    pass


def o_build(skel):
    if skel[0] == "d":
        return {k: o_build(v) for k, v in skel[1]}
    return (skel[0], skel[1])


def o_skel(x):
    if isinstance(x, dict):
        return ["d", [[k, o_skel(v)] for k, v in x.items()]]
    return [x[0], x[1]]


def o_copy(x):
    if isinstance(x, dict):
        return {k: o_copy(v) for k, v in x.items()}
    return x


MISSING = object()


def o_get(d, p):
    for k in p:
        if not isinstance(d, dict) or k not in d:
            return MISSING
        d = d[k]
    return d


def o_through_leaf(d, p):
    """a proper prefix of p is a leaf"""
    for k in p[:-1]:
        if not isinstance(d, dict):
            return True
        if k not in d:
            return False
        d = d[k]
    return not isinstance(d, dict)


def o_through_nt(d, p):
    """a proper prefix of p is a non-tensor leaf (the library lets such keys reach *inside* the NonTensorData)"""
    for k in p[:-1]:
        if not isinstance(d, dict):
            return d[0] == "n"
        if k not in d:
            return False
        d = d[k]
    return (not isinstance(d, dict)) and d[0] == "n"


def op_keys(op):
    """every key (spelling) mentioned by an op"""
    k = op[0]
    if k in ("set", "del", "pop", "setdefault"):
        return [op[1]]
    if k == "rename":
        return [op[1], op[2]]
    if k == "update":
        out = []

        def sub(prefix, v):
            if v[0] == "d":
                for kk, vv in v[1]:
                    out.append(prefix + (kk,))
                    sub(prefix + (kk,), vv)
        for sp, v in op[1]:
            out.append(unravel(sp))
            sub(unravel(sp), v)
        return out
    if k in ("select", "exclude"):
        return list(op[1])
    if k == "split":
        return [x for ks in op[1] for x in ks]
    return []


def o_set(d, p, v):
    for k in p[:-1]:
        if k not in d:
            d[k] = {}
        d = d[k]
        if not isinstance(d, dict):
            raise OErr("through leaf")
    d[p[-1]] = v


def o_del(d, p):
    for k in p[:-1]:
        if not isinstance(d, dict) or k not in d:
            raise OErr("missing")
        d = d[k]
    if not isinstance(d, dict) or p[-1] not in d:
        raise OErr("missing")
    del d[p[-1]]


def o_leaves(d, prefix=()):
    """leaf paths in items() order (pre-order)"""
    out = []
    for k, v in d.items():
        if isinstance(v, dict):
            out += o_leaves(v, prefix + (k,))
        else:
            out.append((prefix + (k,), v))
    return out


def o_paths(d, prefix=()):
    out = []
    for k, v in d.items():
        out.append((prefix + (k,), v))
        if isinstance(v, dict):
            out += o_paths(v, prefix + (k,))
    return out


def o_filter_empty(d):
    for k in list(d):
        v = d[k]
        if isinstance(v, dict):
            o_filter_empty(v)
            if not o_leaves(v):
                del d[k]


def apply_oracle(d, op):
    """replay on a plain nested dict.
    returns dict(verdict=..., state=newstate, ret=..., result=..., lenient=str|None)
      verdict "ok"  : the call must succeed; afterwards impl state == state (result for out-of-place)
      verdict "err" : the call must raise; impl state must be unchanged (atomic ops) — see `atomic`
      verdict "any" : ill-formed for a nested dict in a way the property does not pin down (key passes
                      through a leaf in a bulk op): either raise + unchanged, or behave as `state`
    """
    kind = op[0]
    new = o_copy(d)
    R = dict(verdict="ok", state=new, ret=None, result=None, atomic=True, modempty=False)

    def err(atomic=True):
        return dict(verdict="err", state=d, ret=None, result=None, atomic=atomic, modempty=False)
    try:
        if kind == "set":
            o_set(new, unravel(op[1]), o_build(op[2]))
        elif kind == "del":
            o_del(new, unravel(op[1]))
        elif kind == "pop":
            p = unravel(op[1])
            v = o_get(new, p)
            if v is MISSING:
                if not op[2]:
                    return err()
                if o_through_leaf(new, p):
                    R["verdict"] = "any"
                R["ret"] = "none"
            else:
                o_del(new, p)
                R["ret"] = o_skel(v)
        elif kind == "rename":
            old, nw = unravel(op[1]), unravel(op[2])
            v = o_get(new, old)
            if v is MISSING:
                return err()
            if old != nw:
                if op[3] and o_get(new, nw) is not MISSING:
                    return err()
                o_del(new, old)
                o_set(new, nw, v)
        elif kind == "setdefault":
            p = unravel(op[1])
            v = o_get(new, p)
            if v is MISSING:
                o_set(new, p, o_build(op[2]))
                v = o_get(new, p)
            R["ret"] = o_skel(v)
        elif kind == "update":
            R["atomic"] = False   # documented: update may leave partial writes when it raises

            def merge(dst, p, v):
                cur = o_get(dst, p)
                if isinstance(v, dict) and isinstance(cur, dict):
                    for k, vv in v.items():
                        merge(dst, p + (k,), vv)
                else:
                    o_set(dst, p, o_copy(v))
            for sp, v in op[1]:
                merge(new, unravel(sp), o_build(v))
        elif kind == "select":
            keys = [unravel(k) for k in op[1]]
            out = {}
            for p in keys:
                v = o_get(d, p)
                if v is MISSING:
                    if o_through_leaf(d, p):
                        R["verdict"] = "any"
                    if op[2]:
                        return err()
                    continue
                # union semantics: an already selected ancestor stays whole
                if any(q == p[:len(q)] and q != p for q in keys):
                    continue
                o_set(out, p, o_copy(v))
            R["modempty"] = not op[2]
            if op[3]:
                R["state"] = out
            else:
                R["state"], R["result"] = d, out
        elif kind == "exclude":
            for sp in op[1]:
                p = unravel(sp)
                if o_get(new, p) is not MISSING:
                    o_del(new, p)
                elif o_through_leaf(new, p):
                    R["verdict"] = "any"
            if not op[2]:
                R["state"], R["result"] = d, new
        elif kind == "flatten":
            sep = op[1]
            lv = o_leaves(d)
            flat = [sep.join(p) for p, _ in lv]
            if len(set(flat)) < len(flat):
                return err()
            out = dict(zip(flat, [v for _, v in lv]))
            if op[2]:
                R["state"] = out
            else:
                R["state"], R["result"] = d, out
        elif kind == "unflatten":
            sep = op[1]
            R["atomic"] = not op[2]
            if sep == "" and new:
                return err(atomic=True)        # "".split("") is a ValueError for str as well
            for k in list(new.keys()):
                if sep in k:
                    p = tuple(k.split(sep))
                    if o_get(new, p) is not MISSING:
                        return err(atomic=not op[2])
                    v = new[k]
                    del new[k]
                    o_set(new, p, v)
            if not op[2]:
                R["state"], R["result"] = d, new
        elif kind == "split":
            R["atomic"] = False
            outs = []
            last = o_copy(d)
            strict = op[3]
            for ks in op[1]:
                o = {}
                for sp in ks:
                    p = unravel(sp)
                    v = o_get(last, p)
                    if v is MISSING:
                        if strict:
                            return err(atomic=False)
                        if o_through_leaf(last, p):
                            R["verdict"] = "any"
                        continue
                    o_del(last, p)
                    o_set(o, p, v)
                outs.append(o)
            o_filter_empty(last)
            outs.append(last)
            R["result"] = outs
            R["state"] = last if op[2] else d
        elif kind == "clear":
            R["state"] = {}
        elif kind == "empty":
            R["state"], R["result"] = d, {}
    except OErr:
        return err(atomic=R["atomic"])
    return R


def leaf_multiset(skel):
    out = []

    def go(s):
        if s[0] == "d":
            for _, v in s[1]:
                go(v)
        else:
            out.append((s[0], s[1]))
    go(skel)
    return sorted(out)


def unordered(skel):
    if skel[0] == "d":
        return ("d", tuple(sorted((k, unordered(v)) for k, v in skel[1])))
    return (skel[0], skel[1])


def strip_empty(skel):
    """remove nodes without leaves (the library treats them as 'empty')"""
    if skel[0] != "d":
        return skel
    kids = []
    for k, v in skel[1]:
        v2 = strip_empty(v)
        if v2[0] == "d" and not leaf_multiset(v2):
            continue
        kids.append([k, v2])
    return ["d", kids]


# --------------------------------------------------------------------------- S-expression encoders (Lean driver)
def hexs(s: str) -> str:
    return "h" + s.encode().hex()


def sx_key(sp) -> str:
    if isinstance(sp, str):
        return f"(s {hexs(sp)})"
    if isinstance(sp, tuple):
        return "(t" + "".join(" " + sx_key(x) for x in sp) + ")"
    return "bad"


def sx_skel(s) -> str:
    if s[0] == "d":
        return "(d" + "".join(f" ({hexs(k)} {sx_skel(v)})" for k, v in s[1]) + ")"
    return f"({s[0]} {s[1]})"


def sx_op(op) -> str:
    k = op[0]
    b = lambda x: "true" if x else "false"  # noqa
    if k == "set":
        return f"(set {sx_key(op[1])} {sx_skel(op[2])})"
    if k == "del":
        return f"(del {sx_key(op[1])})"
    if k == "pop":
        return f"(pop {sx_key(op[1])} {b(op[2])})"
    if k == "rename":
        return f"(rename {sx_key(op[1])} {sx_key(op[2])} {b(op[3])})"
    if k == "setdefault":
        return f"(setdefault {sx_key(op[1])} {sx_skel(op[2])})"
    if k == "update":
        return "(update" + "".join(f" ({sx_key(kk)} {sx_skel(v)})" for kk, v in op[1]) + ")"
    if k == "select":
        return f"(select ({' '.join(sx_key(x) for x in op[1])}) {b(op[2])} {b(op[3])})"
    if k == "exclude":
        return f"(exclude ({' '.join(sx_key(x) for x in op[1])}) {b(op[2])})"
    if k == "flatten":
        return f"(flatten {hexs(op[1])} {b(op[2])})"
    if k == "unflatten":
        return f"(unflatten {hexs(op[1])} {b(op[2])})"
    if k == "split":
        return "(split (" + " ".join("(" + " ".join(sx_key(x) for x in ks) + ")" for ks in op[1]) + f") {b(op[2])} {b(op[3])})"
    if k == "clear":
        return "(clear)"
    if k == "empty":
        return "(empty)"
    raise AssertionError(k)


def unhex(a):
    if isinstance(a, str) and a.startswith("h"):
        return bytes.fromhex(a[1:]).decode()
    return a


def skel_from_sx(v):
    """parsed driver answer -> skeleton"""
    if v[0] == "d":
        return ["d", [[unhex(kv[0]), skel_from_sx(kv[1])] for kv in v[1:]]]
    return [v[0], v[1]]
